// capi: the same transformation through the C API (XalanCAPI.h), from real files in the driver's scratch directory (C05)
#include "xdrv_transform.hpp"

#include <xalanc/XalanTransformer/XalanCAPI.h>
#include <unistd.h>

namespace
{
struct Sink
{
    std::string data;
    std::string chunks;
    long flushes;
    Sink() : flushes(0) {}
};
extern "C" CallbackSizeType capiWrite(const char* d, CallbackSizeType n, void* h)
{
    Sink* s = (Sink*)h;
    s->data.append(d, n);
    if (!s->chunks.empty()) s->chunks += ",";
    s->chunks += std::to_string(n);
    return n;
}
extern "C" void capiFlush(void* h) { ((Sink*)h)->flushes++; }

// request: xsl, xml, res*, param* (name US expr US value), form=tofile|todata|tohandler|prebuilt-data|prebuilt-handler|prebuilt-file|prebuilt-stream-data
void cmdCapi(const Msg& req, Msg& resp)
{
    const std::string dir = tmpDir();
    const std::string xmlFile = dir + "/main.xml", xslFile = dir + "/main.xsl", outFile = dir + "/capi.out";
    writeFile(xmlFile, req.gets("xml"));
    writeFile(xslFile, req.gets("xsl"));
    for (auto p : req.all("res"))
    {
        size_t z = p->find('\0');
        if (z != std::string::npos) writeFile(dir + "/" + p->substr(0, z), p->substr(z + 1));
    }
    unlink(outFile.c_str());
    const std::string form = req.gets("form", "todata");
    XalanHandle h = CreateXalanTransformer();
    for (auto p : req.all("param"))
    {
        std::vector<std::string> v = split(*p, '\x1f');
        if (v.size() >= 3) XalanSetStylesheetParam(v[0].c_str(), v[2].c_str(), h);
    }
    int rc = 0;
    std::string out;
    bool haveOut = false;
    if (form == "tofile")
    {
        rc = XalanTransformToFile(xmlFile.c_str(), xslFile.c_str(), outFile.c_str(), h);
        haveOut = readFile(outFile, out);
    }
    else if (form == "todata")
    {
        char* data = 0;
        rc = XalanTransformToData(xmlFile.c_str(), xslFile.c_str(), &data, h);
        if (rc == 0 && data) { out = data; haveOut = true; XalanFreeData(data); }
    }
    else if (form == "tohandler")
    {
        Sink s;
        rc = XalanTransformToHandler(xmlFile.c_str(), xslFile.c_str(), h, &s, capiWrite, capiFlush);
        out = s.data;
        haveOut = true;
        resp.add("chunks", s.chunks);
        resp.addi("flushes", s.flushes);
    }
    else
    {
        XalanCSSHandle css = 0;
        XalanPSHandle ps = 0;
        if (form == "prebuilt-stream-data")
        {
            const std::string x = req.gets("xsl"), d = req.gets("xml");
            rc = XalanCompileStylesheetFromStream(x.data(), x.size(), h, &css);
            if (rc == 0) rc = XalanParseSourceFromStream(d.data(), d.size(), h, &ps);
        }
        else
        {
            rc = XalanCompileStylesheet(xslFile.c_str(), h, &css);
            if (rc == 0) rc = XalanParseSource(xmlFile.c_str(), h, &ps);
        }
        if (rc == 0)
        {
            if (form == "prebuilt-file")
            {
                rc = XalanTransformToFilePrebuilt(ps, css, outFile.c_str(), h);
                haveOut = readFile(outFile, out);
            }
            else if (form == "prebuilt-handler")
            {
                Sink s;
                rc = XalanTransformToHandlerPrebuilt(ps, css, h, &s, capiWrite, capiFlush);
                out = s.data;
                haveOut = true;
            }
            else
            {
                char* data = 0;
                rc = XalanTransformToDataPrebuilt(ps, css, &data, h);
                if (rc == 0 && data) { out = data; haveOut = true; XalanFreeData(data); }
            }
        }
        if (ps) XalanDestroyParsedSource(ps, h);
        if (css) XalanDestroyCompiledStylesheet(css, h);
    }
    resp.addi("rc", rc);
    const char* e = XalanGetLastError(h);
    resp.add("err", e ? e : "<null>");
    if (haveOut) resp.add("out", out);
    DeleteXalanTransformer(h);
}
}  // namespace

void registerCapi() { registerCmd("capi", cmdCapi); }
