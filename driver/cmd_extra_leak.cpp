// leakcheck: LeakSanitizer pass over the heap of the running driver (C03: "never leaks").
// Reports (on stderr, and as leaks=1) allocations that became unreachable since the process started.
#include "xdrv.hpp"

#if defined(__has_feature)
#if __has_feature(address_sanitizer)
#define XDRV_HAVE_LSAN 1
#include <sanitizer/lsan_interface.h>
#endif
#endif

namespace
{
void cmdLeakCheck(const Msg&, Msg& resp)
{
#if defined(XDRV_HAVE_LSAN)
    resp.addi("supported", 1);
    resp.addi("leaks", __lsan_do_recoverable_leak_check());
#else
    resp.addi("supported", 0);
#endif
}
}  // namespace

void registerLeak() { registerCmd("leakcheck", cmdLeakCheck); }
