// lowlevel: the same pipeline XalanTransformer assembles, put together from the exported classes the way
// TestXSLT/process.cpp does, so that switches XalanTransformer does not expose can be set - notably
// setQuietConflictWarnings(false), which selects the second code path of Stylesheet::findTemplate (C10)
#include "xdrv_transform.hpp"

#include <sstream>

#include <xalanc/PlatformSupport/XalanOutputStreamPrintWriter.hpp>
#include <xalanc/PlatformSupport/XalanStdOutputStream.hpp>
#include <xalanc/PlatformSupport/DOMStringPrintWriter.hpp>
#include <xalanc/XalanSourceTree/XalanSourceTreeDOMSupport.hpp>
#include <xalanc/XalanSourceTree/XalanSourceTreeParserLiaison.hpp>
#include <xalanc/XPath/XObjectFactoryDefault.hpp>
#include <xalanc/XPath/XPathFactoryBlock.hpp>
#include <xalanc/XPath/XPathFactoryDefault.hpp>
#include <xalanc/XSLT/ProblemListenerDefault.hpp>
#include <xalanc/XSLT/StylesheetConstructionContextDefault.hpp>
#include <xalanc/XSLT/StylesheetExecutionContextDefault.hpp>
#include <xalanc/XSLT/StylesheetRoot.hpp>
#include <xalanc/XSLT/XSLTEngineImpl.hpp>
#include <xalanc/XSLT/XSLTInputSource.hpp>
#include <xalanc/XSLT/XSLTProcessorEnvSupportDefault.hpp>
#include <xalanc/XSLT/XSLTResultTarget.hpp>
#if defined(XALAN_USE_ICU)
#include <xalanc/ICUBridge/ICUBridgeCollationCompareFunctor.hpp>
#endif

using namespace xalanc;

namespace
{
// counts warnings instead of accumulating their text (thousands of conflict warnings per run)
class CountingListener : public ProblemListener
{
public:
    long warnings, errors;
    std::string firstError;
    CountingListener() : warnings(0), errors(0) {}
    virtual void setPrintWriter(PrintWriter*) {}
    virtual void problem(eSource, eClassification c, const XalanDOMString& msg, const Locator*, const XalanNode*) { note(c, msg); }
    virtual void problem(eSource, eClassification c, const XalanDOMString& msg, const XalanNode*) { note(c, msg); }
    virtual void problem(eSource, eClassification c, const XalanNode*, const ElemTemplateElement*, const XalanDOMString& msg, const XalanDOMChar*, XalanFileLoc, XalanFileLoc) { note(c, msg); }
    void note(eClassification c, const XalanDOMString& msg)
    {
        if (c == eERROR) { if (errors++ == 0) firstError = u8(msg); }
        else ++warnings;
    }
};

// request: xsl, xml, res*, quietconflicts=0|1 ; response: rc (0 | -1), err, out, warnings
void cmdLowLevel(const Msg& req, Msg& resp)
{
    MemoryManager& mm = XalanMemMgrs::getDefaultXercesMemMgr();
    const std::string xsl = req.gets("xsl"), xml = req.gets("xml");
    MemResolver resolver;
    resolver.load(req);
    std::ostringstream out;
    CountingListener problems;
    ErrInfo e;
    bool ok = guarded([&]() {
        XalanSourceTreeDOMSupport domSupport;
        XalanSourceTreeParserLiaison liaison(domSupport, mm);
        domSupport.setParserLiaison(&liaison);
        liaison.setEntityResolver(&resolver);
        XSLTProcessorEnvSupportDefault envSupport(mm);
        XObjectFactoryDefault xof(mm);
        XPathFactoryDefault xpf(mm);
        XSLTEngineImpl processor(mm, liaison, envSupport, domSupport, xof, xpf);
        envSupport.setProcessor(&processor);
        XPathFactoryBlock sxpf(mm);
        StylesheetConstructionContextDefault cctx(mm, processor, sxpf);
        processor.setQuietConflictWarnings(req.geti("quietconflicts", 0) != 0);
        processor.setProblemListener(&problems);
        for (auto p : req.all("param"))
        {
            std::vector<std::string> v = split(*p, '\x1f');
            if (v.size() >= 3) processor.setStylesheetParam(dom(v[0]), dom(v[2]));
        }
        std::istringstream xslStream(xsl), xmlStream(xml);
        XSLTInputSource xslIn(&xslStream), xmlIn(&xmlStream);
        xslIn.setSystemId(dom("file:///vmem/main.xsl").c_str());
        xmlIn.setSystemId(dom("file:///vmem/main.xml").c_str());
        XSLTResultTarget target(out, mm);
        StylesheetExecutionContextDefault ectx(mm, processor, envSupport, domSupport, xof);
#if defined(XALAN_USE_ICU)
        ICUBridgeCollationCompareFunctor icu(mm, true);
        ectx.installCollationCompareFunctor(&icu);
#endif
        liaison.setExecutionContext(ectx);
        processor.process(xmlIn, xslIn, target, cctx, ectx);
        ectx.reset();
        cctx.reset();
    }, e);
    resp.addi("rc", ok ? 0 : -1);
    resp.add("err", ok ? std::string() : e.kind + ": " + e.msg);
    resp.add("out", out.str());
    resp.addi("warnings", problems.warnings);
    resp.addi("errors", problems.errors);
    if (!problems.firstError.empty()) resp.add("firsterror", problems.firstError);
}
}  // namespace

void registerLowLevel() { registerCmd("lowlevel", cmdLowLevel); }
