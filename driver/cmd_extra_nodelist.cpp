// nodelist: drive MutableNodeRefList through an insertion history over nodes of 1-3 documents; all-pairs
// DOMServices::isNodeAfter (C12)
#include "xdrv.hpp"
#include "xdrv_doc.hpp"

#include <memory>

#include <xalanc/DOMSupport/DOMServices.hpp>
#include <xalanc/XPath/MutableNodeRefList.hpp>
#include <xalanc/XPath/XObjectFactoryDefault.hpp>
#include <xalanc/XPath/XPathEnvSupportDefault.hpp>
#include <xalanc/XPath/XPathExecutionContextDefault.hpp>

using namespace xalanc;

namespace
{
struct Docs
{
    std::vector<std::unique_ptr<DocHolder> > docs;
    XalanNode* find(const std::string& k)
    {
        size_t c = k.find(':');
        size_t n = (size_t)atoi(k.substr(0, c).c_str());
        if (n >= docs.size()) return 0;
        return findNode(docs[n]->document(), k.substr(c + 1));
    }
    std::string key(const XalanNode* n)
    {
        const XalanNode* d = n->getNodeType() == XalanNode::DOCUMENT_NODE ? n : n->getOwnerDocument();
        for (size_t i = 0; i < docs.size(); ++i)
            if (docs[i]->document() == d) return std::to_string(i) + ":" + nodeKey(n);
        return "?:" + nodeKey(n);
    }
};

std::string dump(Docs& D, const MutableNodeRefList& l)
{
    std::string s;
    for (NodeRefListBase::size_type i = 0; i < l.getLength(); ++i)
    {
        if (i) s += '\n';
        s += D.key(l.item(i));
    }
    s += '|';
    s += l.getDocumentOrder() ? "doc" : l.getReverseDocumentOrder() ? "rev" : "unk";
    return s;
}

void cmdNodeList(const Msg& req, Msg& resp)
{
    Docs D;
    const std::string form = req.gets("form", "native");
    for (auto p : req.all("d"))
    {
        D.docs.emplace_back(new DocHolder);
        std::string sys = "file:///vmem/doc" + std::to_string(D.docs.size()) + ".xml";
        D.docs.back()->parse(*p, form, sys.c_str());
    }
    if (D.docs.empty()) { resp.add("fatal", "no documents"); return; }
    XPathEnvSupportDefault env;
    XObjectFactoryDefault xof;
    XPathExecutionContextDefault ctx(env, *D.docs[0]->domSupport(), xof);
    MemoryManager& mm = XalanMemMgrs::getDefaultXercesMemMgr();
    MutableNodeRefList target(mm);
    for (size_t i = 0; i < req.f.size(); ++i)
    {
        const std::string& k = req.f[i].first;
        const std::string& v = req.f[i].second;
        if (k == "ins")
        {
            XalanNode* n = D.find(v);
            if (!n) { resp.add("fatal", "node not found " + v); return; }
            target.addNodeInDocOrder(n, ctx);
            resp.add("state", dump(D, target));
        }
        else if (k == "bulk")
        {
            std::vector<std::string> parts = split(v, '\n');
            MutableNodeRefList tmp(mm);
            for (size_t j = 1; j < parts.size(); ++j)
            {
                XalanNode* n = D.find(parts[j]);
                if (!n) { resp.add("fatal", "node not found " + parts[j]); return; }
                // "docself": the source list is built through the ordered interface itself (as the results of location steps are), so its
                // document-order flag is truthful by the implementation's own order - also across documents
                if (parts[0] == "docself") tmp.addNodeInDocOrder(n, ctx); else tmp.addNode(n);
            }
            if (parts[0] == "doc" || parts[0] == "docself") tmp.setDocumentOrder();
            else if (parts[0] == "rev") tmp.setReverseDocumentOrder();
            target.addNodesInDocOrder(tmp, ctx);
            resp.add("state", dump(D, target));
        }
        else if (k == "clear")
        {
            target.clear();
            resp.add("state", dump(D, target));
        }
        else if (k == "reverse")
        {
            target.reverse();
            resp.add("state", dump(D, target));
        }
        else if (k == "after")
        {
            // all ordered pairs (a != b) of non-document nodes of each document
            for (size_t di = 0; di < D.docs.size(); ++di)
            {
                std::vector<XalanNode*> nodes;
                allNodes(D.docs[di]->document(), nodes, true, false);
                std::string keys, m;
                for (size_t a = 1; a < nodes.size(); ++a)
                {
                    if (a > 1) keys += '\n';
                    keys += nodeKey(nodes[a]);
                    for (size_t b = 1; b < nodes.size(); ++b)
                        m += a == b ? '-' : (DOMServices::isNodeAfter(*nodes[a], *nodes[b]) ? '1' : '0');
                }
                resp.add("after.nodes", keys);
                resp.add("after.matrix", m);
                resp.add("after.indexed", nodes.size() > 1 && nodes[1]->isIndexed() ? "1" : "0");
            }
        }
    }
}
}  // namespace

void registerNodeList() { registerCmd("nodelist", cmdNodeList); }
