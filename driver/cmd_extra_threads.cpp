// threads: N threads, each with its own XalanTransformer, transform concurrently using ONE compiled stylesheet and ONE
// parsed source (C07).  Built with the tsan flavor; ThreadSanitizer reports go to stderr.
#include "xdrv_transform.hpp"

#include <atomic>
#include <chrono>
#include <memory>
#include <sstream>
#include <thread>

#include <xercesc/parsers/XercesDOMParser.hpp>
#include <xalanc/XalanTransformer/XalanCompiledStylesheet.hpp>
#include <xalanc/XalanTransformer/XalanParsedSource.hpp>
#include <xalanc/XalanTransformer/XercesDOMWrapperParsedSource.hpp>
#include <xalanc/XercesParserLiaison/XercesDOMSupport.hpp>
#include <xalanc/XercesParserLiaison/XercesParserLiaison.hpp>
#include <xalanc/XSLT/XSLTInputSource.hpp>
#include <xalanc/XSLT/XSLTResultTarget.hpp>

using namespace xalanc;

namespace
{
// request: xsl, xml, res*, srcform=parsed-native|xerces-wrapper, nthreads, iters, delay=<usec per thread, comma list>
void cmdThreads(const Msg& req, Msg& resp)
{
    const std::string xsl = req.gets("xsl"), xml = req.gets("xml");
    const std::string srcform = req.gets("srcform", "parsed-native");
    const int nthreads = (int)req.geti("nthreads", 4), iters = (int)req.geti("iters", 3);
    std::vector<long> delays;
    for (auto& d : split(req.gets("delay"), ',')) delays.push_back(atol(d.c_str()));

    XalanTransformer t0;
    t0.setWarningStream(0);
    MemResolver r0;
    r0.load(req);
    t0.setEntityResolver(&r0);
    std::istringstream xslStream(xsl);
    XSLTInputSource xslIn(&xslStream);
    xslIn.setSystemId(dom("file:///vmem/main.xsl").c_str());
    const XalanCompiledStylesheet* compiled = 0;
    if (t0.compileStylesheet(xslIn, compiled) != 0)
    {
        resp.add("setup.err", std::string("compile: ") + t0.getLastError());
        return;
    }
    const XalanParsedSource* parsed = 0;
    std::unique_ptr<xercesc::XercesDOMParser> xparser;
    std::unique_ptr<XercesParserLiaison> xliaison;
    std::unique_ptr<XercesDOMSupport> xsupport;
    std::unique_ptr<XalanParsedSource> wrapper;
    if (srcform == "parsed-native")
    {
        std::istringstream xmlStream(xml);
        XSLTInputSource in(&xmlStream);
        in.setSystemId(dom("file:///vmem/main.xml").c_str());
        if (t0.parseSource(in, parsed) != 0)
        {
            resp.add("setup.err", std::string("parse: ") + t0.getLastError());
            return;
        }
    }
    else
    {
        xparser.reset(new xercesc::XercesDOMParser);
        xparser->setDoNamespaces(true);
        xparser->setCreateEntityReferenceNodes(false);
        xercesc::MemBufInputSource is((const XMLByte*)xml.data(), xml.size(), "file:///vmem/main.xml");
        xparser->parse(is);
        xliaison.reset(new XercesParserLiaison);
        xsupport.reset(new XercesDOMSupport(*xliaison));
        wrapper.reset(new XercesDOMWrapperParsedSource(xparser->getDocument(), *xliaison, *xsupport, dom("file:///vmem/main.xml")));
        parsed = wrapper.get();
    }
    // The shared objects are used for the first time BY THE THREADS (lazily initialised state is what is at stake); the
    // sequential reference is computed afterwards.
    std::atomic<int> go(0);
    std::vector<std::vector<std::pair<int, std::string> > > results(nthreads);
    std::vector<std::thread> th;
    for (int i = 0; i < nthreads; ++i)
    {
        th.emplace_back([&, i]() {
            XalanTransformer t;
            t.setWarningStream(0);
            MemResolver r;
            r.load(req);
            t.setEntityResolver(&r);
            while (go.load() == 0) std::this_thread::yield();
            if ((size_t)i < delays.size() && delays[i] > 0) std::this_thread::sleep_for(std::chrono::microseconds(delays[i]));
            for (int k = 0; k < iters; ++k)
            {
                std::ostringstream os;
                XSLTResultTarget target(os);
                const int rc = t.transform(*parsed, compiled, target);
                results[i].push_back(std::make_pair(rc, rc == 0 ? os.str() : std::string(t.getLastError())));
                if ((size_t)i < delays.size() && (delays[i] & 1)) std::this_thread::yield();
            }
        });
    }
    go.store(1);
    for (auto& x : th) x.join();
    // sequential reference
    std::string seq;
    int seqrc;
    {
        std::ostringstream os;
        XSLTResultTarget target(os);
        seqrc = t0.transform(*parsed, compiled, target);
        seq = os.str();
    }
    resp.addi("seq.rc", seqrc);
    resp.add("seq.out", seq);
    int mismatches = 0, failures = 0;
    std::string firstBad;
    for (int i = 0; i < nthreads; ++i)
        for (size_t k = 0; k < results[i].size(); ++k)
        {
            if (results[i][k].first != seqrc) { ++failures; if (firstBad.empty()) firstBad = "rc: " + results[i][k].second; }
            else if (seqrc == 0 && results[i][k].second != seq) { ++mismatches; if (firstBad.empty()) firstBad = results[i][k].second; }
        }
    resp.addi("mismatches", mismatches);
    resp.addi("failures", failures);
    if (!firstBad.empty()) resp.add("bad", firstBad.substr(0, 2000));
    wrapper.reset();
    if (srcform == "parsed-native") t0.destroyParsedSource(parsed);
    t0.destroyStylesheet(compiled);
}
}  // namespace

void registerThreads() { registerCmd("threads", cmdThreads); }
