// num: number <-> string conversions through the exported helpers (C18)
#include "xdrv.hpp"
#include "xdrv_events.hpp"

#include <xalanc/PlatformSupport/DOMStringHelper.hpp>
#include <xalanc/PlatformSupport/DoubleSupport.hpp>
#include <xalanc/Include/XalanMemoryManagement.hpp>

using namespace xalanc;

// request: op=tostr|tochars|round|floor|ceiling, x=<bits> (repeated)
//          op=todouble|valid,  s=<utf8> (repeated)
// response: r=<value> (one per input, same order)
static void cmdNum(const Msg& req, Msg& resp)
{
    const std::string op = req.gets("op");
    MemoryManager& mm = XalanMemMgrs::getDefaultXercesMemMgr();
    if (op == "tostr")
    {
        for (auto p : req.all("x"))
        {
            XalanDOMString s;
            NumberToDOMString(bitsDbl(*p), s);
            resp.add("r", u8(s));
        }
    }
    else if (op == "tochars")
    {
        for (auto p : req.all("x"))
        {
            Msg ev;
            EventRecorder rec(ev);
            DOMStringHelper::NumberToCharacters(bitsDbl(*p), rec, &FormatterListener::characters);
            std::string s;
            for (auto& f : ev.f) s += f.second;
            resp.add("r", s);
        }
    }
    else if (op == "round" || op == "floor" || op == "ceiling")
    {
        for (auto p : req.all("x"))
        {
            double x = bitsDbl(*p);
            double r = op == "round" ? DoubleSupport::round(x) : op == "floor" ? DoubleSupport::floor(x) : DoubleSupport::ceiling(x);
            resp.add("r", dblBits(r));
        }
    }
    else if (op == "todouble")
    {
        for (auto p : req.all("s"))
        {
            XalanDOMString s = dom(*p);
            resp.add("r", dblBits(DoubleSupport::toDouble(s, mm)));
        }
    }
    else if (op == "todoublep")
    {
        for (auto p : req.all("s"))
        {
            XalanDOMString s = dom(*p);
            resp.add("r", dblBits(DoubleSupport::toDouble(s.c_str(), mm)));
        }
    }
    else if (op == "valid")
    {
        for (auto p : req.all("s"))
        {
            XalanDOMString s = dom(*p);
            resp.add("r", DoubleSupport::isValid(s) ? "1" : "0");
        }
    }
    else
        resp.add("fatal", "bad op");
}

void registerNum() { registerCmd("num", cmdNum); }
