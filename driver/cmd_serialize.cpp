// serialize: replay a SAX event script into one of the shipped serializers (C04, C08)
// parseback: parse bytes with Xerces SAX2 (independent of the serializers) into events
#include "xdrv.hpp"
#include "xdrv_events.hpp"

#include <memory>
#include <sstream>

#include <xercesc/framework/MemBufInputSource.hpp>
#include <xercesc/sax2/Attributes.hpp>
#include <xercesc/sax2/DefaultHandler.hpp>
#include <xercesc/sax2/SAX2XMLReader.hpp>
#include <xercesc/sax2/XMLReaderFactory.hpp>
#include <xercesc/sax/SAXParseException.hpp>
#include <xercesc/util/XMLUni.hpp>

#include <xalanc/PlatformSupport/AttributeListImpl.hpp>
#include <xalanc/PlatformSupport/XalanOutputStreamPrintWriter.hpp>
#include <xalanc/PlatformSupport/XalanStdOutputStream.hpp>
#include <xalanc/XMLSupport/FormatterToHTML.hpp>
#include <xalanc/XMLSupport/FormatterToText.hpp>
#include <xalanc/XMLSupport/FormatterToXML.hpp>
#include <xalanc/XMLSupport/XalanXMLSerializerFactory.hpp>


// the bytes that follow a (pointer, length) slice in memory: chosen so that they COMPLETE a sequence the serializer looks ahead for
// (a slice ending in "]]" is followed by ">", one ending in "]" by "]>"), which makes a read past 'length' change the output
static std::string hostileTail(const std::string& v)
{
    const size_t n = v.size();
    if (n >= 2 && v[n - 1] == ']' && v[n - 2] == ']') return ">&<]]>";
    if (n >= 1 && v[n - 1] == ']') return "]>&<";
    return "]]>&<";
}

using namespace xalanc;

void replayEvents(const Msg& req, FormatterListener& fl, size_t* nEvents)
{
    static const XalanDOMChar cdataType[] = { 'C', 'D', 'A', 'T', 'A', 0 };
    size_t n = 0;
    for (size_t i = 0; i < req.f.size(); ++i)
    {
        const std::string& k = req.f[i].first;
        const std::string& v = req.f[i].second;
        if (k.size() != 2) continue;
        ++n;
        if (k == "SD") fl.startDocument();
        else if (k == "ED") fl.endDocument();
        else if (k == "SE")
        {
            std::vector<std::string> parts = split(v, '\0');
            if (parts.empty()) parts.push_back("");
            AttributeListImpl attrs(XalanMemMgrs::getDefaultXercesMemMgr());
            for (size_t a = 1; a + 1 < parts.size(); a += 2)
            {
                XalanDOMString an = dom(parts[a]), av = dom(parts[a + 1]);
                attrs.addAttribute(an.c_str(), cdataType, av.c_str());
            }
            XalanDOMString nm = dom(parts[0]);
            fl.startElement(nm.c_str(), attrs);
        }
        else if (k == "EE") { XalanDOMString nm = dom(v); fl.endElement(nm.c_str()); }
        // CH / CD are (pointer, length) interfaces: pass a slice of a longer buffer whose tail is hostile,
        // so that a serializer reading past 'length' becomes observable
        else if (k == "CH") { const std::string t = hostileTail(v); XalanDOMString s = dom(v + t); fl.characters(s.c_str(), s.length() - t.size()); }
        else if (k == "CR") { XalanDOMString s = dom(v); fl.charactersRaw(s.c_str(), s.length()); }
        else if (k == "CD") { const std::string t = hostileTail(v); XalanDOMString s = dom(v + t); fl.cdata(s.c_str(), s.length() - t.size()); }
        else if (k == "IW") { XalanDOMString s = dom(v); fl.ignorableWhitespace(s.c_str(), s.length()); }
        else if (k == "CM") { XalanDOMString s = dom(v); fl.comment(s.c_str()); }
        else if (k == "ER") { XalanDOMString s = dom(v); fl.entityReference(s.c_str()); }
        else if (k == "PI")
        {
            size_t z = v.find('\0');
            XalanDOMString t = dom(v.substr(0, z)), d = dom(z == std::string::npos ? std::string() : v.substr(z + 1));
            fl.processingInstruction(t.c_str(), d.c_str());
        }
        else --n;
    }
    if (nEvents) *nEvents = n;
}

namespace
{
// request: which=factory|legacy|html|text ; encoding version indent indentamt mediatype doctype-system
//          doctype-public xmldecl standalone escapeurls omitmeta ; then the events
void cmdSerialize(const Msg& req, Msg& resp)
{
    std::ostringstream os;
    const std::string which = req.gets("which", "factory");
    const XalanDOMString enc = dom(req.gets("encoding"));
    const XalanDOMString ver = dom(req.gets("version"));
    const XalanDOMString media = dom(req.gets("mediatype"));
    const XalanDOMString dsys = dom(req.gets("doctype-system"));
    const XalanDOMString dpub = dom(req.gets("doctype-public"));
    const XalanDOMString standalone = dom(req.gets("standalone"));
    const bool indent = req.geti("indent") != 0;
    const int amt = (int)req.geti("indentamt", 0);
    const bool decl = req.geti("xmldecl", 1) != 0;
    MemoryManager& mm = XalanMemMgrs::getDefaultXercesMemMgr();
    ErrInfo e;
    size_t n = 0;
    bool ok = guarded([&]() {
        XalanStdOutputStream stream(os);
        XalanOutputStreamPrintWriter pw(stream);
        std::unique_ptr<FormatterListener> fl;
        FormatterListener* raw = 0;
        if (which == "factory")
            raw = XalanXMLSerializerFactory::create(mm, pw, ver, indent, amt, enc, media, dsys, dpub, decl, standalone);
        else if (which == "legacy")
            raw = FormatterToXML::create(mm, pw, ver, indent, amt, enc, media, dsys, dpub, decl, standalone);
        else if (which == "html")
            raw = FormatterToHTML::create(mm, pw, enc, media, dsys, dpub, indent, amt, req.geti("escapeurls", 1) != 0, req.geti("omitmeta", 0) != 0);
        else if (which == "text")
            raw = FormatterToText::create(mm, pw, enc);
        else throw std::runtime_error("bad which");
        struct Guard
        {
            FormatterListener* p;
            MemoryManager& m;
            ~Guard() { if (p) { p->~FormatterListener(); m.deallocate(p); } }
        } g = { raw, mm };
        replayEvents(req, *raw, &n);
        pw.flush();
    }, e);
    resp.addi("events", (long)n);
    if (!ok)
    {
        resp.add("err", e.kind);
        resp.add("errmsg", e.msg);
        resp.add("partial", os.str());
    }
    else
        resp.add("out", os.str());
}

class BackHandler : public xercesc::DefaultHandler
{
public:
    Msg& out;
    std::vector<std::pair<std::string, std::string> > pendingNs;
    BackHandler(Msg& o) : out(o) {}
    virtual void startPrefixMapping(const XMLCh* const prefix, const XMLCh* const uri)
    {
        pendingNs.push_back(std::make_pair(u8(prefix), u8(uri)));
    }
    virtual void startElement(const XMLCh* const uri, const XMLCh* const local, const XMLCh* const qn, const xercesc::Attributes& a)
    {
        // name = {uri}local ; attributes likewise ; namespace declarations as "xmlns:p"
        std::string s = "{" + u8(uri) + "}" + u8(local) + '\x1f' + u8(qn);
        for (XMLSize_t i = 0; i < a.getLength(); ++i)
        {
            s += '\0';
            s += "{" + u8(a.getURI(i)) + "}" + u8(a.getLocalName(i)) + '\x1f' + u8(a.getQName(i));
            s += '\0';
            s += u8(a.getValue(i));
        }
        out.add("SE", s);
        for (auto& p : pendingNs) out.add("NS", p.first + '\0' + p.second);
        pendingNs.clear();
    }
    virtual void endElement(const XMLCh* const uri, const XMLCh* const local, const XMLCh* const)
    {
        out.add("EE", "{" + u8(uri) + "}" + u8(local));
    }
    virtual void characters(const XMLCh* const c, const XMLSize_t n) { out.add("CH", u8(c, n)); }
    virtual void ignorableWhitespace(const XMLCh* const c, const XMLSize_t n) { out.add("CH", u8(c, n)); }
    virtual void processingInstruction(const XMLCh* const t, const XMLCh* const d)
    {
        std::string s = u8(t);
        s += '\0';
        s += u8(d);
        out.add("PI", s);
    }
    virtual void comment(const XMLCh* const c, const XMLSize_t n) { out.add("CM", u8(c, n)); }
    virtual void startCDATA() { out.add("SC", ""); }
    virtual void endCDATA() { out.add("EC", ""); }
    virtual void startDTD(const XMLCh* const name, const XMLCh* const pub, const XMLCh* const sys)
    {
        std::string s = u8(name);
        s += '\0';
        s += u8(pub);
        s += '\0';
        s += u8(sys);
        out.add("DT", s);
    }
    virtual void fatalError(const xercesc::SAXParseException& e) { throw e; }
    virtual void error(const xercesc::SAXParseException& e) { throw e; }
    virtual void warning(const xercesc::SAXParseException&) {}
};

// request: bytes ; response: events or err
void cmdParseBack(const Msg& req, Msg& resp)
{
    const std::string bytes = req.gets("bytes");
    ErrInfo e;
    Msg ev;
    bool ok = guarded([&]() {
        std::unique_ptr<xercesc::SAX2XMLReader> rd(xercesc::XMLReaderFactory::createXMLReader());
        rd->setFeature(xercesc::XMLUni::fgSAX2CoreNameSpaces, true);
        rd->setFeature(xercesc::XMLUni::fgSAX2CoreNameSpacePrefixes, false);
        rd->setFeature(xercesc::XMLUni::fgSAX2CoreValidation, false);
        rd->setFeature(xercesc::XMLUni::fgXercesDynamic, false);
        rd->setFeature(xercesc::XMLUni::fgXercesSchema, false);
        rd->setFeature(xercesc::XMLUni::fgXercesLoadExternalDTD, false);
        BackHandler h(ev);
        rd->setContentHandler(&h);
        rd->setLexicalHandler(&h);
        rd->setErrorHandler(&h);
        xercesc::MemBufInputSource is((const XMLByte*)bytes.data(), bytes.size(), "file:///vmem/back.xml");
        rd->parse(is);
    }, e);
    if (!ok)
    {
        resp.add("err", e.kind);
        resp.add("errmsg", e.msg);
    }
    else
        for (auto& f : ev.f) resp.add(f.first, f.second);
}
}  // namespace

void registerSerialize()
{
    registerCmd("serialize", cmdSerialize);
    registerCmd("parseback", cmdParseBack);
}
