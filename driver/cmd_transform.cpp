// transform: one transformation through XalanTransformer in a chosen combination of
// source form x stylesheet form x result form (C01, C05, C08, C10, C13-C17, ...)
#include "xdrv_transform.hpp"
#include "xdrv_events.hpp"

#include <fstream>
#include <memory>
#include <sstream>
#include <sys/stat.h>
#include <unistd.h>

#include <xercesc/dom/DOMDocument.hpp>
#include <xercesc/dom/DOMImplementation.hpp>
#include <xercesc/dom/DOMElement.hpp>
#include <xercesc/dom/DOMNamedNodeMap.hpp>
#include <xercesc/parsers/XercesDOMParser.hpp>
#include <xercesc/sax2/SAX2XMLReader.hpp>
#include <xercesc/sax2/XMLReaderFactory.hpp>
#include <xercesc/util/XMLUni.hpp>

#include <xalanc/XalanTransformer/XalanCompiledStylesheet.hpp>
#include <xalanc/XalanTransformer/XalanParsedSource.hpp>
#include <xalanc/XalanTransformer/XalanDocumentBuilder.hpp>
#include <xalanc/XalanTransformer/XercesDOMWrapperParsedSource.hpp>
#include <xalanc/XalanTransformer/XalanSourceTreeWrapperParsedSource.hpp>
#include <xalanc/XalanSourceTree/FormatterToSourceTree.hpp>
#include <xalanc/XalanSourceTree/XalanSourceTreeDocument.hpp>
#include <xalanc/XalanSourceTree/XalanSourceTreeDOMSupport.hpp>
#include <xalanc/XalanSourceTree/XalanSourceTreeParserLiaison.hpp>
#include <xalanc/XercesParserLiaison/FormatterToXercesDOM.hpp>
#include <xalanc/XercesParserLiaison/XercesDOMFormatterWalker.hpp>
#include <xalanc/XercesParserLiaison/XercesDOMSupport.hpp>
#include <xalanc/XercesParserLiaison/XercesParserLiaison.hpp>
#include <xalanc/XMLSupport/FormatterTreeWalker.hpp>
#include <xalanc/XSLT/XSLTInputSource.hpp>
#include <xalanc/XSLT/XSLTResultTarget.hpp>
#include <xalanc/XPath/Function.hpp>
#include <xalanc/XPath/XObjectFactory.hpp>

using namespace xalanc;

std::string tmpDir()
{
    static std::string d;
    if (d.empty())
    {
        const char* e = getenv("XDRV_TMPDIR");
        d = e ? e : "/dev/shm/xdrv." + std::to_string(getpid());
        mkdir(d.c_str(), 0700);
    }
    return d;
}
void writeFile(const std::string& path, const std::string& data)
{
    std::ofstream f(path.c_str(), std::ios::binary | std::ios::trunc);
    f.write(data.data(), data.size());
}
bool readFile(const std::string& path, std::string& data)
{
    std::ifstream f(path.c_str(), std::ios::binary);
    if (!f) return false;
    std::ostringstream ss;
    ss << f.rdbuf();
    data = ss.str();
    return true;
}

void applyParam(XalanTransformer& t, const std::string& p)
{
    // name US kind US value ; kind: expr | cexpr (char* overload) | num | cnum
    std::vector<std::string> v = split(p, '\x1f');
    if (v.size() < 3) v.resize(3);
    if (v[1] == "expr") t.setStylesheetParam(dom(v[0]), dom(v[2]));
    else if (v[1] == "cexpr") t.setStylesheetParam(v[0].c_str(), v[2].c_str());
    else if (v[1] == "num") t.setStylesheetParam(dom(v[0]), bitsDbl(v[2]));
    else if (v[1] == "cnum") t.setStylesheetParam(v[0].c_str(), bitsDbl(v[2]));
}

void applySettings(XalanTransformer& t, const Msg& s)
{
    if (s.has("set.indent")) t.setIndent((int)s.geti("set.indent"));
    if (s.has("set.encoding")) t.setOutputEncoding(dom(s.gets("set.encoding")));
    if (s.has("set.omitmeta"))
    {
        long v = s.geti("set.omitmeta");
        t.setOmitMETATag(v == 1 ? XalanTransformer::eOmitMETATagNo : v == 2 ? XalanTransformer::eOmitMETATagYes : XalanTransformer::eOmitMETATagDefault);
    }
    if (s.has("set.escapeurls"))
    {
        long v = s.geti("set.escapeurls");
        t.setEscapeURLs(v == 1 ? XalanTransformer::eEscapeURLsNo : v == 2 ? XalanTransformer::eEscapeURLsYes : XalanTransformer::eEscapeURLsDefault);
    }
    if (s.has("set.poolall")) t.setPoolAllTextNodes(s.geti("set.poolall") != 0);
    for (auto p : s.all("param")) applyParam(t, *p);
}

static void installTwice(XalanTransformer& t);

// objects created by the 'history' command and referred to by name from later steps
static std::map<std::string, const XalanCompiledStylesheet*> g_compiled;
static std::map<std::string, const XalanParsedSource*> g_parsed;

namespace
{
struct CallbackSink
{
    std::string data;
    std::vector<size_t> chunks;
    size_t flushes;
    // plan of how many bytes to accept per call (0 = all); cycles
    std::vector<long> plan;
    size_t planIdx;
    CallbackSink() : flushes(0), planIdx(0) {}
};
extern "C" CallbackSizeType sinkWrite(const char* d, CallbackSizeType n, void* h)
{
    CallbackSink* s = (CallbackSink*)h;
    s->data.append(d, n);
    s->chunks.push_back(n);
    return n;
}
extern "C" void sinkFlush(void* h) { ((CallbackSink*)h)->flushes++; }

void dumpTreeEvents(const XalanNode* doc, Msg& resp)
{
    EventRecorder rec(resp);
    FormatterTreeWalker w(rec);
    rec.startDocument();
    w.traverse(doc);
    rec.endDocument();
}
}  // namespace

static std::string xs(const XMLCh* p)
{
    if (!p) return std::string();
    const XalanDOMString t(p);
    return u8(t);
}

static void dumpDomNames(const xercesc::DOMNode* n, std::string& out)
{
    if (!n) return;
    if (n->getNodeType() == xercesc::DOMNode::ELEMENT_NODE)
    {
        out += "E\t" + xs(n->getNodeName()) + "\t" + xs(n->getNamespaceURI()) + "\t" + xs(n->getLocalName()) + "\n";
        const xercesc::DOMNamedNodeMap* as = n->getAttributes();
        for (XMLSize_t i = 0; as && i < as->getLength(); ++i)
        {
            const xercesc::DOMNode* a = as->item(i);
            const std::string nm = xs(a->getNodeName());
            if (nm == "xmlns" || nm.compare(0, 6, "xmlns:") == 0) continue;
            out += "A\t" + nm + "\t" + xs(a->getNamespaceURI()) + "\t" + xs(a->getLocalName()) + "\n";
        }
    }
    for (const xercesc::DOMNode* c = n->getFirstChild(); c; c = c->getNextSibling()) dumpDomNames(c, out);
}

void runTransform(XalanTransformer& t, const Msg& spec, Msg& resp, const std::string& pfx)
{
    const std::string srcform = spec.gets("srcform", "stream");
    const std::string xslform = spec.gets("xslform", "stream");
    const std::string outform = spec.gets("outform", "stream");
    const std::string xsl = spec.gets("xsl");
    const std::string xml = spec.gets("xml");
    const std::string xslSys = spec.gets("xslsys", "file:///vmem/main.xsl");
    const std::string xmlSys = spec.gets("xmlsys", "file:///vmem/main.xml");
    const std::string dir = tmpDir();

    MemResolver resolver;
    resolver.load(spec);
    if (srcform == "file" || xslform == "file" || xslform == "pi")
    {
        // the file forms resolve imports / document() relative to real files
        for (std::map<std::string, std::string>::const_iterator i = resolver.res.begin(); i != resolver.res.end(); ++i)
            writeFile(dir + "/" + i->first, i->second);
    }
    EntityResolver* const oldResolver = t.getEntityResolver();
    t.setEntityResolver(&resolver);

    // ---- source
    std::istringstream xmlStream(xml);
    std::unique_ptr<XSLTInputSource> srcInput;
    const XalanParsedSource* parsed = 0;       // owned by the transformer
    bool parsedOwned = false;
    XalanDocumentBuilder* builder = 0;
    // support objects for the wrapper forms must outlive the transformation
    std::unique_ptr<xercesc::XercesDOMParser> xparser;
    std::unique_ptr<XercesParserLiaison> xliaison;
    std::unique_ptr<XercesDOMSupport> xsupport;
    std::unique_ptr<XalanSourceTreeDOMSupport> ssupport;
    std::unique_ptr<XalanSourceTreeParserLiaison> sliaison;
    std::unique_ptr<XalanParsedSource> wrapper;  // owned here; declared last so that it is destroyed before the support objects it refers to
    int rc = 0;
    std::string phase = "source";

    auto done = [&](int code) {
        resp.addi(pfx + "rc", code);
        resp.add(pfx + "phase", phase);
        const char* e = t.getLastError();
        resp.add(pfx + "err", e ? e : "<null>");
    };

    if (spec.has("use.parsed"))
    {
        std::map<std::string, const XalanParsedSource*>::iterator i = g_parsed.find(spec.gets("use.parsed"));
        if (i == g_parsed.end()) { resp.add(pfx + "skipped", "unknown parsed source"); t.setEntityResolver(oldResolver); return; }
        parsed = i->second;
    }
    else if (srcform == "stream")
    {
        srcInput.reset(new XSLTInputSource(&xmlStream));
        srcInput->setSystemId(dom(xmlSys).c_str());
    }
    else if (srcform == "file")
    {
        writeFile(dir + "/main.xml", xml);
        srcInput.reset(new XSLTInputSource((dir + "/main.xml").c_str()));
    }
    else if (srcform == "parsed-native" || srcform == "parsed-xerces")
    {
        XSLTInputSource in(&xmlStream);
        in.setSystemId(dom(xmlSys).c_str());
        rc = t.parseSource(in, parsed, srcform == "parsed-xerces");
        if (rc != 0) { done(rc); t.setEntityResolver(oldResolver); return; }
        parsedOwned = true;
    }
    else if (srcform == "xerces-wrapper")
    {
        ErrInfo e;
        if (!guarded([&]() {
                xparser.reset(new xercesc::XercesDOMParser);
                xparser->setDoNamespaces(true);
                xparser->setEntityResolver(&resolver);
                xparser->setCreateEntityReferenceNodes(false);
                xercesc::MemBufInputSource is((const XMLByte*)xml.data(), xml.size(), xmlSys.c_str());
                xparser->parse(is);
                if (xparser->getErrorCount() != 0) throw std::runtime_error("xerces parse errors");
                xliaison.reset(new XercesParserLiaison);
                xsupport.reset(new XercesDOMSupport(*xliaison));
                wrapper.reset(new XercesDOMWrapperParsedSource(xparser->getDocument(), *xliaison, *xsupport, dom(xmlSys)));
            }, e))
        {
            resp.addi(pfx + "rc", -100);
            resp.add(pfx + "phase", phase);
            resp.add(pfx + "err", e.kind + ": " + e.msg);
            t.setEntityResolver(oldResolver);
            return;
        }
    }
    else if (srcform == "st-wrapper")
    {
        ErrInfo e;
        if (!guarded([&]() {
                sliaison.reset(new XalanSourceTreeParserLiaison);
                ssupport.reset(new XalanSourceTreeDOMSupport(*sliaison));
                sliaison->setEntityResolver(&resolver);
                xercesc::MemBufInputSource is((const XMLByte*)xml.data(), xml.size(), xmlSys.c_str());
                XalanDocument* d = sliaison->parseXMLStream(is, dom(xmlSys));
                XalanSourceTreeDocument* sd = sliaison->mapDocument(d);
                wrapper.reset(new XalanSourceTreeWrapperParsedSource(sd, *sliaison, *ssupport, dom(xmlSys)));
            }, e))
        {
            resp.addi(pfx + "rc", -100);
            resp.add(pfx + "phase", phase);
            resp.add(pfx + "err", e.kind + ": " + e.msg);
            t.setEntityResolver(oldResolver);
            return;
        }
    }
    else if (srcform == "builder")
    {
        ErrInfo e;
        builder = t.createDocumentBuilder(dom(xmlSys));
        if (!guarded([&]() {
                std::unique_ptr<xercesc::SAX2XMLReader> rd(xercesc::XMLReaderFactory::createXMLReader());
                rd->setFeature(xercesc::XMLUni::fgSAX2CoreNameSpaces, true);
                rd->setFeature(xercesc::XMLUni::fgSAX2CoreNameSpacePrefixes, true);
                rd->setFeature(xercesc::XMLUni::fgSAX2CoreValidation, false);
                rd->setFeature(xercesc::XMLUni::fgXercesDynamic, false);
                rd->setFeature(xercesc::XMLUni::fgXercesSchema, false);
                rd->setContentHandler(builder->getContentHandler());
                rd->setDTDHandler(builder->getDTDHandler());
                rd->setLexicalHandler(builder->getLexicalHandler());
                rd->setEntityResolver(&resolver);
                xercesc::MemBufInputSource is((const XMLByte*)xml.data(), xml.size(), xmlSys.c_str());
                rd->parse(is);
                if (rd->getErrorCount() != 0) throw std::runtime_error("sax2 parse errors");
            }, e))
        {
            resp.addi(pfx + "rc", -100);
            resp.add(pfx + "phase", phase);
            resp.add(pfx + "err", e.kind + ": " + e.msg);
            t.destroyDocumentBuilder(builder);
            t.setEntityResolver(oldResolver);
            return;
        }
    }
    else
    {
        resp.add("fatal", "bad srcform");
        t.setEntityResolver(oldResolver);
        return;
    }
    const XalanParsedSource* ps = parsed ? parsed : wrapper.get() ? wrapper.get() : builder ? builder : 0;

    // ---- stylesheet
    phase = "stylesheet";
    std::istringstream xslStream(xsl);
    std::unique_ptr<XSLTInputSource> xslInput;
    const XalanCompiledStylesheet* compiled = 0;
    bool compiledOwned = true;
    if (spec.has("use.compiled"))
    {
        std::map<std::string, const XalanCompiledStylesheet*>::iterator i = g_compiled.find(spec.gets("use.compiled"));
        if (i == g_compiled.end()) { resp.add(pfx + "skipped", "unknown compiled stylesheet"); t.setEntityResolver(oldResolver); return; }
        compiled = i->second;
        compiledOwned = false;
    }
    else if (xslform == "stream")
    {
        xslInput.reset(new XSLTInputSource(&xslStream));
        xslInput->setSystemId(dom(xslSys).c_str());
    }
    else if (xslform == "file")
    {
        writeFile(dir + "/main.xsl", xsl);
        xslInput.reset(new XSLTInputSource((dir + "/main.xsl").c_str()));
    }
    else if (xslform == "compiled")
    {
        XSLTInputSource in(&xslStream);
        in.setSystemId(dom(xslSys).c_str());
        rc = t.compileStylesheet(in, compiled);
        if (rc != 0)
        {
            done(rc);
            if (parsedOwned) t.destroyParsedSource(parsed);
            if (builder) t.destroyDocumentBuilder(builder);
            t.setEntityResolver(oldResolver);
            return;
        }
    }
    else if (xslform == "pi")
    {
        // the source carries an xml-stylesheet PI naming main.xsl next to it (real file)
        writeFile(dir + "/main.xsl", xsl);
    }
    else
    {
        resp.add("fatal", "bad xslform");
        t.setEntityResolver(oldResolver);
        return;
    }

    // ---- result
    phase = "transform";
    std::ostringstream outStream;
    std::unique_ptr<XSLTResultTarget> target;
    CallbackSink sink;
    Msg events;
    std::unique_ptr<EventRecorder> recorder;
    std::unique_ptr<xercesc::DOMDocument> xdoc;
    std::unique_ptr<FormatterToXercesDOM> toXerces;
    std::unique_ptr<FormatterToSourceTree> toTree;
    std::unique_ptr<XalanSourceTreeDocument> stDoc;
    const std::string outFile = dir + "/out.bin";
    bool useCallback = false;
    if (outform == "stream") target.reset(new XSLTResultTarget(outStream));
    else if (outform == "file") { unlink(outFile.c_str()); target.reset(new XSLTResultTarget(dom(outFile))); }
    else if (outform == "cfile") { unlink(outFile.c_str()); target.reset(new XSLTResultTarget(outFile.c_str())); }
    else if (outform == "callback") useCallback = true;
    else if (outform == "events")
    {
        recorder.reset(new EventRecorder(events));
        target.reset(new XSLTResultTarget(*recorder));
    }
    else if (outform == "xercesdom")
    {
        xdoc.reset(xercesc::DOMImplementation::getImplementation()->createDocument());
        toXerces.reset(new FormatterToXercesDOM(xdoc.get(), 0));
        target.reset(new XSLTResultTarget(*toXerces));
    }
    else if (outform == "sourcetree")
    {
        stDoc.reset(XalanSourceTreeDocument::create(XalanMemMgrs::getDefaultXercesMemMgr()));
        toTree.reset(new FormatterToSourceTree(XalanMemMgrs::getDefaultXercesMemMgr(), stDoc.get()));
        target.reset(new XSLTResultTarget(*toTree));
    }
    else
    {
        resp.add("fatal", "bad outform");
        t.setEntityResolver(oldResolver);
        return;
    }
    if (target.get() && spec.has("target.encoding")) target->setEncoding(dom(spec.gets("target.encoding")));

    if (useCallback)
    {
        if (ps && compiled) rc = t.transform(*ps, compiled, &sink, sinkWrite, sinkFlush);
        else if (!ps && xslform == "pi") rc = t.transform(*srcInput, &sink, sinkWrite, sinkFlush);
        else if (!ps && !compiled) rc = t.transform(*srcInput, *xslInput, &sink, sinkWrite, sinkFlush);
        else { resp.add("fatal", "callback form not offered for this combination"); rc = -99; }
    }
    else if (ps)
    {
        if (compiled) rc = t.transform(*ps, compiled, *target);
        else if (xslform == "pi") rc = t.transform(*ps, *target);
        else rc = t.transform(*ps, *xslInput, *target);
    }
    else
    {
        if (compiled) rc = t.transform(*srcInput, compiled, *target);
        else if (xslform == "pi")
        {
            XSLTInputSource empty;
            rc = t.transform(*srcInput, empty, *target);
        }
        else rc = t.transform(*srcInput, *xslInput, *target);
    }
    done(rc);

    if (outform == "stream") resp.add(pfx + "out", outStream.str());
    else if (outform == "file" || outform == "cfile")
    {
        target.reset();
        std::string d;
        if (readFile(outFile, d)) resp.add(pfx + "out", d);
        else resp.add(pfx + "out.missing", "1");
    }
    else if (outform == "callback")
    {
        resp.add(pfx + "out", sink.data);
        std::string c;
        for (size_t i = 0; i < sink.chunks.size(); ++i) { if (i) c += ","; c += std::to_string(sink.chunks[i]); }
        resp.add(pfx + "chunks", c);
        resp.addi(pfx + "flushes", (long)sink.flushes);
    }
    else if (outform == "events")
    {
        for (auto& f : events.f) resp.add(pfx + f.first, f.second);
    }
    else if (outform == "xercesdom" && rc == 0)
    {
        EventRecorder rec(resp);
        XercesDOMFormatterWalker w(rec);
        rec.startDocument();
        w.traverse(xdoc.get());
        rec.endDocument();
        // what the DOM itself says about names (the events above carry qualified names only): one line per element (E) and per
        // attribute other than a namespace declaration (A), document order: kind TAB nodeName TAB namespaceURI TAB localName
        std::string ns;
        dumpDomNames(xdoc->getDocumentElement(), ns);
        resp.add(pfx + "domns", ns);
    }
    else if (outform == "sourcetree" && rc == 0)
    {
        dumpTreeEvents(stDoc.get(), resp);
    }
    for (auto& a : resolver.asked) resp.add(pfx + "asked", a);

    if (compiled && compiledOwned) t.destroyStylesheet(compiled);
    if (parsedOwned) t.destroyParsedSource(parsed);
    if (builder) t.destroyDocumentBuilder(builder);
    t.setEntityResolver(oldResolver);
}

namespace
{
// request: xsl, xml, res*, param*, set.*, srcform, xslform, outform
void cmdTransform(const Msg& req, Msg& resp)
{
    XalanTransformer t;
    t.setWarningStream(0);
    applySettings(t, req);
    if (req.geti("install")) installTwice(t);
    runTransform(t, req, resp);
    if (req.geti("followup") >= 2)
    {
        // C03: the same request once more on the same transformer (caches sized or keyed by the previous stylesheet / source, which
        // have been destroyed in the meantime, must not be consulted) ...
        runTransform(t, req, resp, "g.");
    }
    if (req.geti("followup"))
    {
        // ... and the transformer must stay usable for a known-good transformation that counts, numbers, sorts and uses a key
        Msg f;
        f.add("xsl", "<xsl:stylesheet version='1.0' xmlns:xsl='http://www.w3.org/1999/XSL/Transform'><xsl:output omit-xml-declaration='yes'/><xsl:key name='k' match='*' use='name()'/>"
                     "<xsl:template match='/'><ok><xsl:value-of select='count(//*)'/></ok><n><xsl:for-each select='//*'><xsl:sort select='name()' order='descending'/>"
                     "<xsl:number level='any' count='*'/>-<xsl:number level='multiple' count='*' format='1.1'/>-<xsl:value-of select=\"count(key('k', name()))\"/>;</xsl:for-each></n></xsl:template></xsl:stylesheet>");
        f.add("xml", "<a><b/><b/></a>");
        t.clearStylesheetParams();
        runTransform(t, f, resp, "f.");
    }
}
}  // namespace

namespace
{
// {urn:ext}twice(x) = 2 * number(x)
class FunctionTwice : public Function
{
public:
    virtual XObjectPtr execute(XPathExecutionContext& ctx, XalanNode*, const XObjectArgVectorType& args, const Locator*) const
    {
        if (args.size() != 1) { XalanDOMString m; generalError(ctx, 0, 0); }
        return ctx.getXObjectFactory().createNumber(2 * args[0]->num(ctx));
    }
    virtual FunctionTwice* clone(MemoryManager& mm) const { return XalanCopyConstruct(mm, *this); }
protected:
    virtual const XalanDOMString& getError(XalanDOMString& r) const { r.assign("twice() takes one argument"); return r; }
};

}  // namespace

static void installTwice(XalanTransformer& t) { t.installExternalFunction(dom("urn:ext"), dom("twice"), FunctionTwice()); }

namespace
{
// history: a list of operations on ONE XalanTransformer (C06).
//   def = name NUL text                         named texts
//   op  = compile US S US textname              -> r = rc
//         parse US P US textname US native|xerces
//         transform US key=value US key=value.. keys: xsl=<textname> xml=<textname> use.compiled=S use.parsed=P outform=...
//         param US name US kind US value ; clearparams ; set US key US value ; install ; uninstall
//         destroy-ss US S ; destroy-ps US P
void cmdHistory(const Msg& req, Msg& resp)
{
    std::map<std::string, std::string> texts;
    for (auto p : req.all("def"))
    {
        size_t z = p->find('\0');
        texts[p->substr(0, z)] = p->substr(z + 1);
    }
    g_compiled.clear();
    g_parsed.clear();
    {
        XalanTransformer t;
        t.setWarningStream(0);
        MemResolver resolver;
        resolver.load(req);
        std::vector<std::istringstream*> streams;
        int step = 0;
        for (auto p : req.all("op"))
        {
            std::vector<std::string> a = split(*p, '\x1f');
            const std::string pfx = "s" + std::to_string(step++) + ".";
            if (a.empty() || a[0] == "noop") continue;
            if (a[0] == "compile")
            {
                std::istringstream in(texts[a[2]]);
                XSLTInputSource src(&in);
                src.setSystemId(dom("file:///vmem/main.xsl").c_str());
                t.setEntityResolver(&resolver);
                const XalanCompiledStylesheet* c = 0;
                int rc = t.compileStylesheet(src, c);
                t.setEntityResolver(0);
                resp.addi(pfx + "rc", rc);
                if (rc == 0) g_compiled[a[1]] = c;
            }
            else if (a[0] == "parse")
            {
                std::istringstream in(texts[a[2]]);
                XSLTInputSource src(&in);
                src.setSystemId(dom("file:///vmem/main.xml").c_str());
                const XalanParsedSource* ps = 0;
                int rc = t.parseSource(src, ps, a.size() > 3 && a[3] == "xerces");
                resp.addi(pfx + "rc", rc);
                if (rc == 0) g_parsed[a[1]] = ps;
            }
            else if (a[0] == "transform")
            {
                Msg spec;
                for (size_t i = 1; i < a.size(); ++i)
                {
                    size_t eq = a[i].find('=');
                    std::string k = a[i].substr(0, eq), v = a[i].substr(eq + 1);
                    if (k == "xsl" || k == "xml") spec.add(k, texts[v]);
                    else spec.add(k, v);
                }
                for (auto r : req.all("res")) spec.add("res", *r);
                runTransform(t, spec, resp, pfx);
            }
            else if (a[0] == "param") { std::string ps = a[1] + '\x1f' + a[2] + '\x1f' + (a.size() > 3 ? a[3] : ""); applyParam(t, ps); }
            else if (a[0] == "clearparams") t.clearStylesheetParams();
            else if (a[0] == "set")
            {
                Msg sm;
                sm.add("set." + a[1], a[2]);
                applySettings(t, sm);
            }
            else if (a[0] == "install") t.installExternalFunction(dom("urn:ext"), dom("twice"), FunctionTwice());
            else if (a[0] == "uninstall") t.uninstallExternalFunction(dom("urn:ext"), dom("twice"));
            else if (a[0] == "destroy-ss")
            {
                if (g_compiled.count(a[1])) { resp.addi(pfx + "rc", t.destroyStylesheet(g_compiled[a[1]])); g_compiled.erase(a[1]); }
            }
            else if (a[0] == "destroy-ps")
            {
                if (g_parsed.count(a[1])) { resp.addi(pfx + "rc", t.destroyParsedSource(g_parsed[a[1]])); g_parsed.erase(a[1]); }
            }
        }
        g_compiled.clear();
        g_parsed.clear();
    }
}
}  // namespace

void registerTransform()
{
    registerCmd("transform", cmdTransform);
    registerCmd("history", cmdHistory);
}
