// xpath / match: compile an expression or pattern and evaluate it through all six
// XPath::execute overloads (C02, C09, C11, C12)
#include "xdrv.hpp"
#include "xdrv_events.hpp"
#include "xdrv_doc.hpp"

#include <stdexcept>

#include <xalanc/XPath/XObject.hpp>
#include <xalanc/XPath/XObjectFactoryDefault.hpp>
#include <xalanc/XPath/XPath.hpp>
#include <xalanc/XPath/XPathConstructionContextDefault.hpp>
#include <xalanc/XPath/XPathEnvSupportDefault.hpp>
#include <xalanc/XPath/XPathExecutionContextDefault.hpp>
#include <xalanc/XPath/XPathProcessorImpl.hpp>
#include <xalanc/XPath/MutableNodeRefList.hpp>
#include <xalanc/XPath/XalanQName.hpp>

using namespace xalanc;

namespace
{
class MapResolver : public PrefixResolver
{
public:
    std::map<std::string, XalanDOMString> m;
    XalanDOMString uri;
    virtual const XalanDOMString* getNamespaceForPrefix(const XalanDOMString& prefix) const
    {
        std::map<std::string, XalanDOMString>::const_iterator i = m.find(u8(prefix));
        return i == m.end() ? 0 : &i->second;
    }
    virtual const XalanDOMString& getURI() const { return uri; }
};

class VarCtx : public XPathExecutionContextDefault
{
public:
    VarCtx(XPathEnvSupport& e, DOMSupport& d, XObjectFactory& f) : XPathExecutionContextDefault(e, d, f) {}
    std::map<std::pair<std::string, std::string>, XObjectPtr> vars;
    virtual const XObjectPtr getVariable(const XalanQName& name, const Locator* = 0)
    {
        std::map<std::pair<std::string, std::string>, XObjectPtr>::iterator i =
            vars.find(std::make_pair(u8(name.getNamespace()), u8(name.getLocalPart())));
        if (i == vars.end()) throw std::runtime_error("unbound variable " + u8(name.getLocalPart()));
        return i->second;
    }
};

const char* typeName(XObject::eObjectType t)
{
    switch (t)
    {
    case XObject::eTypeNull: return "null";
    case XObject::eTypeUnknown: return "unknown";
    case XObject::eTypeBoolean: return "boolean";
    case XObject::eTypeNumber: return "number";
    case XObject::eTypeString: return "string";
    case XObject::eTypeNodeSet: return "nodeset";
    case XObject::eTypeResultTreeFrag: return "rtf";
    case XObject::eTypeUserDefined: return "user";
    default: return "other";
    }
}
std::string keysOf(const NodeRefListBase& l)
{
    std::string s;
    for (NodeRefListBase::size_type i = 0; i < l.getLength(); ++i)
    {
        if (i) s += '\n';
        s += nodeKey(l.item(i));
    }
    return s;
}
const char* orderOf(const MutableNodeRefList& l)
{
    return l.getDocumentOrder() ? "doc" : l.getReverseDocumentOrder() ? "rev" : "unk";
}
void fail(Msg& resp, const std::string& pfx, const ErrInfo& e)
{
    resp.add(pfx + ".err", e.kind);
    resp.add(pfx + ".errmsg", e.msg);
}

struct Session
{
    DocHolder doc;
    MapResolver resolver;
    XPathEnvSupportDefault env;
    XObjectFactoryDefault xof;      // per-evaluation objects
    XObjectFactoryDefault varFactory;  // variable bindings: must survive XPathExecutionContextDefault::reset()
    XPathConstructionContextDefault cctx;
    XPathProcessorImpl proc;
    VarCtx* ctx;     // evaluation context (fresh state per overload through newCtx())
    VarCtx* varCtx;  // owns the node lists borrowed for node-set variables; never reset
    MutableNodeRefList ctxList;
    std::map<std::pair<std::string, std::string>, XObjectPtr> vars;

    Session() : ctx(0), varCtx(0), ctxList(XalanMemMgrs::getDefaultXercesMemMgr()) {}
    ~Session()
    {
        delete ctx;
        vars.clear();
        delete varCtx;
    }
    VarCtx& newCtx()
    {
        delete ctx;
        xof.reset();
        ctx = new VarCtx(env, *doc.domSupport(), xof);
        ctx->setPrefixResolver(&resolver);
        ctx->vars = vars;
        return *ctx;
    }

    bool setup(const Msg& req, Msg& resp)
    {
        ErrInfo e;
        if (!guarded([&]() { doc.parse(req.gets("doc"), req.gets("docform", "native")); }, e))
        {
            fail(resp, "doc", e);
            return false;
        }
        for (auto p : req.all("ns"))
        {
            size_t eq = p->find('=');
            resolver.m[p->substr(0, eq)] = dom(p->substr(eq + 1));
        }
        varCtx = new VarCtx(env, *doc.domSupport(), varFactory);
        // variables: name US type US value ; type b|n|s|ns|alias
        for (auto p : req.all("var"))
        {
            std::vector<std::string> v = split(*p, '\x1f');
            if (v.size() < 2) continue;
            std::string val = v.size() > 2 ? v[2] : std::string();
            std::pair<std::string, std::string> key("", v[0]);
            XObjectPtr o;
            if (v[1] == "b") o = varFactory.createBoolean(val == "1");
            else if (v[1] == "n") o = varFactory.createNumber(bitsDbl(val));
            else if (v[1] == "s") o = varFactory.createString(dom(val));
            else if (v[1] == "ns")
            {
                typedef XPathExecutionContext::BorrowReturnMutableNodeRefList Borrow;
                Borrow l(*varCtx);
                for (auto& k : split(val, '\n'))
                {
                    XalanNode* n = findNode(doc.document(), k);
                    if (n) l->addNode(n);
                }
                if (v.size() > 3 && v[3] == "doc") l->setDocumentOrder();
                o = varFactory.createNodeSet(l);
            }
            else if (v[1] == "alias") o = vars[std::make_pair(std::string(), val)];
            vars[key] = o;
        }
        newCtx();
        return true;
    }
};

void reportGeneric(const XObjectPtr& g, XPathExecutionContext& ctx, Msg& resp)
{
    if (g.null()) { resp.add("g.type", "nullptr"); return; }
    resp.add("g.type", typeName(g->getType()));
    ErrInfo e;
    if (guarded([&]() { resp.add("g.bool", g->boolean(ctx) ? "1" : "0"); }, e) == false) fail(resp, "g.bool", e);
    if (guarded([&]() { resp.add("g.num", dblBits(g->num(ctx))); }, e) == false) fail(resp, "g.num", e);
    if (guarded([&]() { resp.add("g.str", u8(g->str(ctx))); }, e) == false) fail(resp, "g.str", e);
    if (guarded([&]() {
            XalanDOMString s;
            g->str(ctx, s);
            resp.add("g.str2", u8(s));
        }, e) == false) fail(resp, "g.str2", e);
    if (guarded([&]() {
            Msg ev;
            EventRecorder rec(ev);
            g->str(ctx, rec, &FormatterListener::characters);
            std::string s;
            for (auto& f : ev.f) s += f.second;
            resp.add("g.str3", s);
        }, e) == false) fail(resp, "g.str3", e);
    if (guarded([&]() { resp.add("g.strlen", std::to_string((unsigned long)g->stringLength(ctx))); }, e) == false) fail(resp, "g.strlen", e);
    if (guarded([&]() {
            const NodeRefListBase& l = g->nodeset();
            resp.add("g.nodes", keysOf(l));
            resp.addi("g.count", l.getLength());
        }, e) == false) fail(resp, "g.nodes", e);
}

// request: doc, [docform], expr, [pattern=1], ctx=<key>, [ctxlist=<keys>], ns=p=uri*, var=*
//          [only=<letters of gbnscl>]
void cmdXPath(const Msg& req, Msg& resp)
{
    Session s;
    if (!s.setup(req, resp)) return;
    XPath xp(XalanMemMgrs::getDefaultXercesMemMgr());
    ErrInfo e;
    const bool asPattern = req.geti("pattern") != 0;
    const XalanDOMString expr = dom(req.gets("expr"));
    if (!guarded([&]() {
            if (asPattern) s.proc.initMatchPattern(xp, s.cctx, expr, s.resolver);
            else s.proc.initXPath(xp, s.cctx, expr, s.resolver);
        }, e))
    {
        fail(resp, "compile", e);
        return;
    }
    resp.add("compile.ok", "1");
    XalanNode* ctxNode = findNode(s.doc.document(), req.gets("ctx", "/"));
    if (!ctxNode) { resp.add("fatal", "context node not found"); return; }
    const bool haveList = req.has("ctxlist");
    if (haveList)
        for (auto& k : split(req.gets("ctxlist"), '\n'))
        {
            XalanNode* n = findNode(s.doc.document(), k);
            if (n) s.ctxList.addNode(n);
        }
    const std::string only = req.gets("only", "gbnscl");

    // prior=<expr>*: expressions that the same execution context and object factory evaluate, convert in every way and release
    // BEFORE each evaluation of expr (inside a transformation one context serves thousands of evaluations and recycles its objects)
    std::vector<XPath*> priors;
    struct PriorsGuard { std::vector<XPath*>& v; ~PriorsGuard() { for (auto p : v) delete p; } } priorsGuard{priors};
    for (auto p : req.all("prior"))
    {
        XPath* px = new XPath(XalanMemMgrs::getDefaultXercesMemMgr());
        ErrInfo pe;
        if (guarded([&]() { s.proc.initXPath(*px, s.cctx, dom(*p), s.resolver); }, pe)) priors.push_back(px);
        else delete px;
    }
    resp.addi("priors", (long)priors.size());

    for (size_t oi = 0; oi < only.size(); ++oi)
    {
        const char which = only[oi];
        VarCtx& ctx = s.newCtx();
        for (auto px : priors)
        {
            ErrInfo pe;
            guarded([&]() {
                XObjectPtr v = haveList ? px->execute(ctxNode, s.resolver, s.ctxList, ctx) : px->execute(ctxNode, s.resolver, ctx);
                if (!v.null())
                {
                    (void)v->num(ctx);
                    (void)v->str(ctx);
                    (void)v->boolean(ctx);
                    (void)v->stringLength(ctx);
                }
            }, pe);
        }
        ErrInfo e2;
        switch (which)
        {
        case 'g':
            if (!guarded([&]() {
                    XObjectPtr g = haveList ? xp.execute(ctxNode, s.resolver, s.ctxList, ctx) : xp.execute(ctxNode, s.resolver, ctx);
                    reportGeneric(g, ctx, resp);
                }, e2)) fail(resp, "g", e2);
            break;
        case 'b':
            if (!guarded([&]() {
                    bool r = false;
                    if (haveList) xp.execute(ctxNode, s.resolver, s.ctxList, ctx, r); else xp.execute(ctxNode, s.resolver, ctx, r);
                    resp.add("b", r ? "1" : "0");
                }, e2)) fail(resp, "b", e2);
            break;
        case 'n':
            if (!guarded([&]() {
                    double r = 0;
                    if (haveList) xp.execute(ctxNode, s.resolver, s.ctxList, ctx, r); else xp.execute(ctxNode, s.resolver, ctx, r);
                    resp.add("n", dblBits(r));
                }, e2)) fail(resp, "n", e2);
            break;
        case 's':
            if (!guarded([&]() {
                    // the string overload APPENDS to its argument: start with a marker that must survive
                    XalanDOMString r = dom("\xc2\xa7PRE");
                    if (haveList) xp.execute(ctxNode, s.resolver, s.ctxList, ctx, r); else xp.execute(ctxNode, s.resolver, ctx, r);
                    std::string rs = u8(r);
                    if (rs.compare(0, 5, "\xc2\xa7PRE") == 0) resp.add("s", rs.substr(5));
                    else { resp.add("s", rs); resp.add("s.prefixlost", "1"); }
                }, e2)) fail(resp, "s", e2);
            break;
        case 'c':
            if (!guarded([&]() {
                    Msg ev;
                    EventRecorder rec(ev);
                    if (haveList) xp.execute(ctxNode, s.resolver, s.ctxList, ctx, rec, &FormatterListener::characters);
                    else xp.execute(ctxNode, s.resolver, ctx, rec, &FormatterListener::characters);
                    std::string r;
                    for (auto& f : ev.f) r += f.second;
                    resp.add("c", r);
                    resp.addi("c.calls", (long)ev.f.size());
                }, e2)) fail(resp, "c", e2);
            break;
        case 'l':
            if (!guarded([&]() {
                    MutableNodeRefList r(XalanMemMgrs::getDefaultXercesMemMgr());
                    XObjectPtr ret = haveList ? xp.execute(ctxNode, s.resolver, s.ctxList, ctx, r) : xp.execute(ctxNode, s.resolver, ctx, r);
                    if (ret.null())
                    {
                        resp.add("l", keysOf(r));
                        resp.addi("l.count", r.getLength());
                        resp.add("l.order", orderOf(r));
                        resp.add("l.ret", "0");
                    }
                    else
                    {
                        resp.add("l.ret", "1");
                        resp.addi("l.paramcount", r.getLength());
                        const NodeRefListBase& l = ret->nodeset();
                        resp.add("l", keysOf(l));
                        resp.addi("l.count", l.getLength());
                    }
                }, e2)) fail(resp, "l", e2);
            break;
        }
    }
}

// request: doc, pattern, ns*, var* ; response: m=<key TAB score> per matching node (incl. attributes and
// xmlns attributes), n=<number of nodes tested>; with defexpr=1 also d=<keys selected by evaluating the
// same string as an expression from every node of the document (the defining relation of XSLT 5.2)>
void cmdMatch(const Msg& req, Msg& resp)
{
    Session s;
    if (!s.setup(req, resp)) return;
    XPath xp(XalanMemMgrs::getDefaultXercesMemMgr());
    ErrInfo e;
    const XalanDOMString pat = dom(req.gets("pattern"));
    if (!guarded([&]() { s.proc.initMatchPattern(xp, s.cctx, pat, s.resolver); }, e))
    {
        fail(resp, "compile", e);
        return;
    }
    resp.add("compile.ok", "1");
    std::vector<XalanNode*> nodes;
    allNodes(s.doc.document(), nodes, true, true);
    resp.addi("n", (long)nodes.size());
    VarCtx& ctx = *s.ctx;
    for (size_t i = 0; i < nodes.size(); ++i)
    {
        ErrInfo e2;
        if (!guarded([&]() {
                XPath::eMatchScore sc = xp.getMatchScore(nodes[i], s.resolver, ctx);
                if (sc != XPath::eMatchScoreNone)
                    resp.add("m", nodeKey(nodes[i]) + "\t" + dblBits(XPath::getMatchScoreValue(sc)));
            }, e2))
        {
            fail(resp, "m", e2);
            resp.add("m.node", nodeKey(nodes[i]));
            return;
        }
    }
    if (req.geti("callerlists"))
    {
        // C09: whether a node matches must not depend on the current node list of the instruction that triggers the match
        // (apply-templates over many nodes, a key table build, xsl:number): repeat with (a) all nodes as the caller's list and
        // (s) a singleton list holding the node itself
        MutableNodeRefList all(XalanMemMgrs::getDefaultXercesMemMgr());
        for (size_t i = 0; i < nodes.size(); ++i) all.addNode(nodes[i]);
        for (int mode = 0; mode < 2; ++mode)
        {
            const char* key = mode == 0 ? "ma" : "ms";
            for (size_t i = 0; i < nodes.size(); ++i)
            {
                ErrInfo e2;
                if (!guarded([&]() {
                        MutableNodeRefList one(XalanMemMgrs::getDefaultXercesMemMgr());
                        one.addNode(nodes[i]);
                        XPathExecutionContext::ContextNodeListPushAndPop push(ctx, mode == 0 ? static_cast<const NodeRefListBase&>(all) : static_cast<const NodeRefListBase&>(one));
                        XPath::eMatchScore sc = xp.getMatchScore(nodes[i], s.resolver, ctx);
                        if (sc != XPath::eMatchScoreNone) resp.add(key, nodeKey(nodes[i]));
                    }, e2))
                {
                    fail(resp, key, e2);
                    break;
                }
            }
        }
    }
    if (req.geti("defexpr"))
    {
        XPath ex(XalanMemMgrs::getDefaultXercesMemMgr());
        if (!guarded([&]() { s.proc.initXPath(ex, s.cctx, pat, s.resolver); }, e))
        {
            fail(resp, "defcompile", e);
            return;
        }
        std::map<std::string, int> sel;
        for (size_t i = 0; i < nodes.size(); ++i)
        {
            ErrInfo e2;
            if (!guarded([&]() {
                    XObjectPtr g = ex.execute(nodes[i], s.resolver, ctx);
                    const NodeRefListBase& l = g->nodeset();
                    for (NodeRefListBase::size_type k = 0; k < l.getLength(); ++k) sel[nodeKey(l.item(k))] = 1;
                }, e2))
            {
                fail(resp, "d", e2);
                resp.add("d.node", nodeKey(nodes[i]));
                return;
            }
        }
        std::string d;
        for (auto& kv : sel) { if (!d.empty()) d += '\n'; d += kv.first; }
        resp.add("d", d);
    }
}
}  // namespace

void registerXPath()
{
    registerCmd("xpath", cmdXPath);
    registerCmd("match", cmdMatch);
}
