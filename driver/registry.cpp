void registerNum();
void registerXPath();
void registerTransform();
void registerSerialize();
void registerAll()
{
    registerNum();
    registerXPath();
    registerTransform();
    registerSerialize();
}
