void registerNum();
void registerXPath();
void registerTransform();
void registerSerialize();
void registerNodeList();
void registerAll()
{
    registerNum();
    registerXPath();
    registerTransform();
    registerSerialize();
    registerNodeList();
}
