void registerNum();
void registerXPath();
void registerTransform();
void registerSerialize();
void registerNodeList();
void registerLowLevel();
void registerCapi();
void registerThreads();
void registerLeak();
void registerAll()
{
    registerNum();
    registerXPath();
    registerTransform();
    registerSerialize();
    registerNodeList();
    registerLowLevel();
    registerCapi();
    registerThreads();
    registerLeak();
}
