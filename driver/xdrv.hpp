// Common declarations of the xdrv driver (see DESIGN.md 2.3).  The driver holds no
// oracle: every command is a thin use of exported xalan-c API.
#ifndef XDRV_HPP
#define XDRV_HPP

#include <cstdint>
#include <cstring>
#include <map>
#include <string>
#include <utility>
#include <vector>

#include <xalanc/Include/PlatformDefinitions.hpp>
#include <xalanc/XalanDOM/XalanDOMString.hpp>
#include <xalanc/XalanDOM/XalanNode.hpp>
#include <xalanc/XalanDOM/XalanDocument.hpp>

typedef std::vector<std::pair<std::string, std::string> > Fields;

struct Msg
{
    Fields f;

    const std::string* get(const char* k) const
    {
        for (size_t i = 0; i < f.size(); ++i) if (f[i].first == k) return &f[i].second;
        return 0;
    }
    std::string gets(const char* k, const char* def = "") const
    {
        const std::string* p = get(k);
        return p ? *p : std::string(def);
    }
    long geti(const char* k, long def = 0) const
    {
        const std::string* p = get(k);
        return p ? atol(p->c_str()) : def;
    }
    bool has(const char* k) const { return get(k) != 0; }
    std::vector<const std::string*> all(const char* k) const
    {
        std::vector<const std::string*> r;
        for (size_t i = 0; i < f.size(); ++i) if (f[i].first == k) r.push_back(&f[i].second);
        return r;
    }
    void add(const std::string& k, const std::string& v) { f.push_back(std::make_pair(k, v)); }
    void addi(const std::string& k, long v) { f.push_back(std::make_pair(k, std::to_string(v))); }
};

typedef void (*CmdFn)(const Msg& req, Msg& resp);
void registerCmd(const char* name, CmdFn fn);

// --- strings -----------------------------------------------------------------
// UTF-16 -> "WTF-8": surrogate pairs become 4-byte sequences, lone surrogates 3-byte
// (Python: decode('utf-8','surrogatepass')).  Written here so that it is independent
// of the transcoders under test.
std::string u8(const xalanc::XalanDOMChar* s, size_t n);
std::string u8(const xalanc::XalanDOMChar* s);
std::string u8(const xalanc::XalanDOMString& s);
void toDom(const std::string& utf8, xalanc::XalanDOMString& out);
xalanc::XalanDOMString dom(const std::string& utf8);
std::vector<std::string> split(const std::string& s, char sep);
std::string dblBits(double d);           // 16 hex digits
double bitsDbl(const std::string& s);    // accepts 16 hex digits or a C numeral

// --- nodes -------------------------------------------------------------------
// structural node key: "/" root; "/0/2" child index path; ".../@{uri}local" attribute;
// ".../ns:prefix" xmlns attribute (owner element as the tree reports it)
std::string nodeKey(const xalanc::XalanNode* n);
xalanc::XalanNode* findNode(xalanc::XalanDocument* d, const std::string& key);
void allNodes(xalanc::XalanDocument* d, std::vector<xalanc::XalanNode*>& out, bool withAttrs, bool withNs);

// --- errors ------------------------------------------------------------------
// runs fn; on a C++ exception fills kind/message and returns false
struct ErrInfo { std::string kind, msg; };
template <class F> bool guarded(F fn, ErrInfo& e);
std::string describeCurrentException(std::string& kind);

template <class F> bool guarded(F fn, ErrInfo& e)
{
    try { fn(); return true; }
    catch (...) { e.msg = describeCurrentException(e.kind); return false; }
}

#endif
