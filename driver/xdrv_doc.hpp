// Holds one parsed document in a chosen representation
#ifndef XDRV_DOC_HPP
#define XDRV_DOC_HPP
#include "xdrv.hpp"

#include <memory>
#include <xercesc/framework/MemBufInputSource.hpp>
#include <xalanc/DOMSupport/DOMSupport.hpp>
#include <xalanc/XalanSourceTree/XalanSourceTreeDOMSupport.hpp>
#include <xalanc/XalanSourceTree/XalanSourceTreeParserLiaison.hpp>
#include <xalanc/XercesParserLiaison/XercesDOMSupport.hpp>
#include <xalanc/XercesParserLiaison/XercesParserLiaison.hpp>

class DocHolder
{
public:
    DocHolder() : m_doc(0) {}
    // form: native | xerces (wrapper with maps+wrapper nodes built) | xerces-lazy
    void parse(const std::string& bytes, const std::string& form, const char* sysId = "file:///vmem/doc.xml")
    {
        m_bytes = bytes;
        xercesc::MemBufInputSource is((const XMLByte*)m_bytes.data(), m_bytes.size(), sysId);
        if (form == "native")
        {
            m_sdom.reset(new xalanc::XalanSourceTreeDOMSupport);
            m_sliaison.reset(new xalanc::XalanSourceTreeParserLiaison(*m_sdom));
            m_sdom->setParserLiaison(m_sliaison.get());
            m_doc = m_sliaison->parseXMLStream(is);
        }
        else
        {
            m_xliaison.reset(new xalanc::XercesParserLiaison);
            m_xdom.reset(new xalanc::XercesDOMSupport(*m_xliaison));
            m_xliaison->setDoNamespaces(true);
            if (form == "xerces")
            {
                m_xliaison->setBuildWrapperNodes(true);
                m_xliaison->setBuildMaps(true);
            }
            else
            {
                // mapping mode: wrapper nodes are created on demand and carry no document-order index, so
                // document order is derived from the tree structure (DOMServices::isNodeAfter, second branch)
                m_xliaison->setBuildWrapperNodes(false);
                m_xliaison->setBuildMaps(true);
            }
            m_doc = m_xliaison->parseXMLStream(is);
        }
    }
    xalanc::XalanDocument* document() const { return m_doc; }
    xalanc::DOMSupport* domSupport() const
    {
        return m_sdom.get() ? static_cast<xalanc::DOMSupport*>(m_sdom.get()) : static_cast<xalanc::DOMSupport*>(m_xdom.get());
    }
    xalanc::XMLParserLiaison* liaison() const
    {
        return m_sliaison.get() ? static_cast<xalanc::XMLParserLiaison*>(m_sliaison.get())
                                : static_cast<xalanc::XMLParserLiaison*>(m_xliaison.get());
    }

private:
    std::string m_bytes;
    std::unique_ptr<xalanc::XalanSourceTreeDOMSupport> m_sdom;
    std::unique_ptr<xalanc::XalanSourceTreeParserLiaison> m_sliaison;
    std::unique_ptr<xalanc::XercesParserLiaison> m_xliaison;
    std::unique_ptr<xalanc::XercesDOMSupport> m_xdom;
    xalanc::XalanDocument* m_doc;
};
#endif
