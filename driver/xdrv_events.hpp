// FormatterListener that records the SAX-like result-tree event stream into a Msg
#ifndef XDRV_EVENTS_HPP
#define XDRV_EVENTS_HPP
#include "xdrv.hpp"
#include <xalanc/PlatformSupport/FormatterListener.hpp>
#include <xercesc/sax/AttributeList.hpp>

class EventRecorder : public xalanc::FormatterListener
{
public:
    EventRecorder(Msg& out, eFormat fmt = OUTPUT_METHOD_XML) : xalanc::FormatterListener(fmt), m_out(out) {}
    virtual ~EventRecorder() {}
    virtual void charactersRaw(const XMLCh* const c, const size_type n) { m_out.add("CR", u8(c, n)); }
    virtual void comment(const XMLCh* const d) { m_out.add("CM", u8(d)); }
    virtual void cdata(const XMLCh* const c, const size_type n) { m_out.add("CD", u8(c, n)); }
    virtual void entityReference(const XMLCh* const n) { m_out.add("ER", u8(n)); }
    virtual void characters(const XMLCh* const c, const size_type n) { m_out.add("CH", u8(c, n)); }
    virtual void endDocument() { m_out.add("ED", ""); }
    virtual void endElement(const XMLCh* const n) { m_out.add("EE", u8(n)); }
    virtual void ignorableWhitespace(const XMLCh* const c, const size_type n) { m_out.add("IW", u8(c, n)); }
    virtual void processingInstruction(const XMLCh* const t, const XMLCh* const d)
    {
        std::string s = u8(t);
        s += '\0';
        s += u8(d);
        m_out.add("PI", s);
    }
    virtual void resetDocument() { m_out.add("RD", ""); }
    virtual void setDocumentLocator(const xercesc::Locator* const) {}
    virtual void startDocument() { m_out.add("SD", ""); }
    virtual void startElement(const XMLCh* const name, xercesc::AttributeList& attrs)
    {
        std::string s = u8(name);
        const XMLSize_t n = attrs.getLength();
        for (XMLSize_t i = 0; i < n; ++i)
        {
            s += '\0';
            s += u8(attrs.getName(i));
            s += '\0';
            s += u8(attrs.getValue(i));
        }
        m_out.add("SE", s);
    }

private:
    Msg& m_out;
};

// replays recorded events (same encoding) into any FormatterListener
void replayEvents(const Msg& req, xalanc::FormatterListener& fl, size_t* nEvents = 0);

#endif
