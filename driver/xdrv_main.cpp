#include "xdrv.hpp"

#include <cstdio>
#include <cstdlib>
#include <unistd.h>

#include <xercesc/util/PlatformUtils.hpp>
#include <xercesc/util/XMLException.hpp>
#include <xercesc/sax/SAXException.hpp>
#include <xercesc/sax/SAXParseException.hpp>
#include <xercesc/dom/DOMException.hpp>

#include <xalanc/PlatformSupport/XSLException.hpp>
#include <xalanc/XalanDOM/XalanDOMException.hpp>
#include <xalanc/XalanDOM/XalanNamedNodeMap.hpp>
#include <xalanc/XalanDOM/XalanElement.hpp>
#include <xalanc/XalanDOM/XalanAttr.hpp>
#include <xalanc/XalanTransformer/XalanTransformer.hpp>

using namespace xalanc;

static std::map<std::string, CmdFn>& cmds()
{
    static std::map<std::string, CmdFn> m;
    return m;
}
void registerCmd(const char* name, CmdFn fn) { cmds()[name] = fn; }

// ---------------------------------------------------------------- strings
std::string u8(const XalanDOMChar* s, size_t n)
{
    std::string r;
    r.reserve(n);
    for (size_t i = 0; i < n; ++i)
    {
        uint32_t c = s[i];
        if (c >= 0xD800 && c <= 0xDBFF && i + 1 < n && s[i + 1] >= 0xDC00 && s[i + 1] <= 0xDFFF)
        {
            c = 0x10000 + ((c - 0xD800) << 10) + (s[i + 1] - 0xDC00);
            ++i;
        }
        if (c < 0x80) r += char(c);
        else if (c < 0x800) { r += char(0xC0 | (c >> 6)); r += char(0x80 | (c & 0x3F)); }
        else if (c < 0x10000) { r += char(0xE0 | (c >> 12)); r += char(0x80 | ((c >> 6) & 0x3F)); r += char(0x80 | (c & 0x3F)); }
        else { r += char(0xF0 | (c >> 18)); r += char(0x80 | ((c >> 12) & 0x3F)); r += char(0x80 | ((c >> 6) & 0x3F)); r += char(0x80 | (c & 0x3F)); }
    }
    return r;
}
std::string u8(const XalanDOMChar* s)
{
    if (!s) return std::string();
    size_t n = 0;
    while (s[n]) ++n;
    return u8(s, n);
}
std::string u8(const XalanDOMString& s) { return u8(s.c_str(), s.length()); }

void toDom(const std::string& in, XalanDOMString& out)
{
    out.clear();
    const unsigned char* p = (const unsigned char*)in.data();
    size_t n = in.size(), i = 0;
    while (i < n)
    {
        uint32_t c = p[i];
        if (c < 0x80) { i += 1; }
        else if ((c & 0xE0) == 0xC0 && i + 1 < n) { c = ((c & 0x1F) << 6) | (p[i + 1] & 0x3F); i += 2; }
        else if ((c & 0xF0) == 0xE0 && i + 2 < n) { c = ((c & 0x0F) << 12) | ((p[i + 1] & 0x3F) << 6) | (p[i + 2] & 0x3F); i += 3; }
        else if ((c & 0xF8) == 0xF0 && i + 3 < n) { c = ((c & 0x07) << 18) | ((p[i + 1] & 0x3F) << 12) | ((p[i + 2] & 0x3F) << 6) | (p[i + 3] & 0x3F); i += 4; }
        else { c = 0xFFFD; i += 1; }
        if (c >= 0x10000)
        {
            c -= 0x10000;
            out.append(1, XalanDOMChar(0xD800 + (c >> 10)));
            out.append(1, XalanDOMChar(0xDC00 + (c & 0x3FF)));
        }
        else out.append(1, XalanDOMChar(c));
    }
}
XalanDOMString dom(const std::string& s)
{
    XalanDOMString r;
    toDom(s, r);
    return r;
}
std::vector<std::string> split(const std::string& s, char sep)
{
    std::vector<std::string> r;
    if (s.empty()) return r;
    size_t a = 0;
    for (;;)
    {
        size_t b = s.find(sep, a);
        if (b == std::string::npos) { r.push_back(s.substr(a)); break; }
        r.push_back(s.substr(a, b - a));
        a = b + 1;
    }
    return r;
}
std::string dblBits(double d)
{
    uint64_t u;
    memcpy(&u, &d, 8);
    char b[32];
    snprintf(b, sizeof b, "%016llx", (unsigned long long)u);
    return b;
}
double bitsDbl(const std::string& s)
{
    if (s.size() == 17 && s[0] == 'x')
    {
        uint64_t u = strtoull(s.c_str() + 1, 0, 16);
        double d;
        memcpy(&d, &u, 8);
        return d;
    }
    return strtod(s.c_str(), 0);
}

// ---------------------------------------------------------------- nodes
static bool isNsAttr(const XalanNode* a, std::string& prefix)
{
    const std::string nm = u8(a->getNodeName());
    if (nm == "xmlns") { prefix = ""; return true; }
    if (nm.compare(0, 6, "xmlns:") == 0) { prefix = nm.substr(6); return true; }
    return false;
}
// the document type node of a DOM is not part of the XPath data model: it is never counted
static bool isDoctype(const XalanNode* n) { return n->getNodeType() == XalanNode::DOCUMENT_TYPE_NODE; }
static int childIndex(const XalanNode* n)
{
    int i = 0;
    for (const XalanNode* p = n->getPreviousSibling(); p; p = p->getPreviousSibling())
        if (!isDoctype(p)) ++i;
    return i;
}
std::string nodeKey(const XalanNode* n)
{
    if (!n) return "<null>";
    if (n->getNodeType() == XalanNode::DOCUMENT_NODE) return "/";
    if (n->getNodeType() == XalanNode::ATTRIBUTE_NODE)
    {
        const XalanAttr* a = static_cast<const XalanAttr*>(n);
        const XalanNode* owner = a->getOwnerElement();
        std::string base = owner ? nodeKey(owner) : std::string("<noowner>");
        std::string pfx;
        if (isNsAttr(n, pfx)) return base + "/ns:" + pfx;
        std::string local = u8(n->getLocalName());
        if (local.empty()) local = u8(n->getNodeName());
        return base + "/@{" + u8(n->getNamespaceURI()) + "}" + local;
    }
    std::vector<int> path;
    const XalanNode* c = n;
    while (c && c->getNodeType() != XalanNode::DOCUMENT_NODE)
    {
        path.push_back(childIndex(c));
        c = c->getParentNode();
    }
    std::string r;
    if (!c) r = "<frag>";
    for (size_t i = path.size(); i-- > 0;) { r += "/"; r += std::to_string(path[i]); }
    return r;
}
XalanNode* findNode(XalanDocument* d, const std::string& key)
{
    if (key == "/") return d;
    XalanNode* cur = d;
    size_t i = 1;
    while (i <= key.size() && cur)
    {
        size_t j = key.find('/', i);
        // attribute/namespace keys may contain '/' inside {uri}: take the rest
        std::string part;
        if (key[i] == '@' || key.compare(i, 3, "ns:") == 0) { part = key.substr(i); j = std::string::npos; }
        else part = key.substr(i, j == std::string::npos ? std::string::npos : j - i);
        if (part[0] == '@' || part.compare(0, 3, "ns:") == 0)
        {
            const XalanNamedNodeMap* m = cur->getAttributes();
            if (!m) return 0;
            for (XalanSize_t k = 0; k < m->getLength(); ++k)
            {
                XalanNode* a = m->item(k);
                std::string ak = nodeKey(a);
                if (ak.size() >= part.size() && ak.compare(ak.size() - part.size(), part.size(), part) == 0
                    && ak[ak.size() - part.size() - 1] == '/')
                    return a;
            }
            return 0;
        }
        int idx = atoi(part.c_str());
        XalanNode* c = cur->getFirstChild();
        while (c && isDoctype(c)) c = c->getNextSibling();
        while (c && idx-- > 0)
        {
            c = c->getNextSibling();
            while (c && isDoctype(c)) c = c->getNextSibling();
        }
        cur = c;
        if (j == std::string::npos) break;
        i = j + 1;
    }
    return cur;
}
static void walk(XalanNode* n, std::vector<XalanNode*>& out, bool withAttrs, bool withNs)
{
    out.push_back(n);
    if (n->getNodeType() == XalanNode::ELEMENT_NODE && (withAttrs || withNs))
    {
        const XalanNamedNodeMap* m = n->getAttributes();
        if (m)
            for (XalanSize_t k = 0; k < m->getLength(); ++k)
            {
                XalanNode* a = m->item(k);
                std::string pfx;
                bool ns = isNsAttr(a, pfx);
                if ((ns && withNs) || (!ns && withAttrs)) out.push_back(a);
            }
    }
    for (XalanNode* c = n->getFirstChild(); c; c = c->getNextSibling())
        if (!isDoctype(c)) walk(c, out, withAttrs, withNs);
}
void allNodes(XalanDocument* d, std::vector<XalanNode*>& out, bool withAttrs, bool withNs)
{
    walk(d, out, withAttrs, withNs);
}

// ---------------------------------------------------------------- errors
std::string describeCurrentException(std::string& kind)
{
    try { throw; }
    catch (const XSLException& e)
    {
        kind = "XSLException:" + u8(e.getType());
        XalanDOMString s;
        e.defaultFormat(s);
        return u8(s);
    }
    catch (const xercesc::SAXParseException& e)
    {
        kind = "SAXParseException";
        return u8(e.getMessage());
    }
    catch (const xercesc::SAXException& e)
    {
        kind = "SAXException";
        return u8(e.getMessage());
    }
    catch (const xercesc::XMLException& e)
    {
        kind = "XMLException";
        return u8(e.getMessage());
    }
    catch (const xercesc::DOMException& e)
    {
        kind = "DOMException";
        return std::to_string(int(e.code));
    }
    catch (const XalanDOMException& e)
    {
        kind = "XalanDOMException";
        return std::to_string(int(e.getExceptionCode()));
    }
    catch (const std::bad_alloc&)
    {
        kind = "bad_alloc";
        return "bad_alloc";
    }
    catch (const std::exception& e)
    {
        kind = "std::exception";
        return e.what();
    }
    catch (...)
    {
        kind = "unknown";
        return "unknown exception";
    }
}

// ---------------------------------------------------------------- framing
static bool readAll(int fd, void* buf, size_t n)
{
    char* p = (char*)buf;
    while (n)
    {
        ssize_t k = read(fd, p, n);
        if (k <= 0) return false;
        p += k;
        n -= k;
    }
    return true;
}
static bool writeAll(int fd, const void* buf, size_t n)
{
    const char* p = (const char*)buf;
    while (n)
    {
        ssize_t k = write(fd, p, n);
        if (k <= 0) return false;
        p += k;
        n -= k;
    }
    return true;
}
static bool readMsg(int fd, Msg& m)
{
    uint32_t total;
    if (!readAll(fd, &total, 4)) return false;
    std::string buf(total, '\0');
    if (total && !readAll(fd, &buf[0], total)) return false;
    size_t off = 0;
    std::vector<std::string> parts;
    while (off + 4 <= buf.size())
    {
        uint32_t len;
        memcpy(&len, &buf[off], 4);
        off += 4;
        parts.push_back(buf.substr(off, len));
        off += len;
    }
    m.f.clear();
    for (size_t i = 0; i + 1 < parts.size(); i += 2) m.f.push_back(std::make_pair(parts[i], parts[i + 1]));
    return true;
}
static bool writeMsg(int fd, const Msg& m)
{
    std::string buf;
    for (size_t i = 0; i < m.f.size(); ++i)
    {
        uint32_t l = m.f[i].first.size();
        buf.append((const char*)&l, 4);
        buf += m.f[i].first;
        l = m.f[i].second.size();
        buf.append((const char*)&l, 4);
        buf += m.f[i].second;
    }
    uint32_t total = buf.size();
    return writeAll(fd, &total, 4) && writeAll(fd, buf.data(), buf.size());
}

void registerAll();

int main(int argc, char** argv)
{
    // fd 1 is reserved for the protocol; anything the library prints goes to stderr
    int out = dup(1);
    dup2(2, 1);
    xercesc::XMLPlatformUtils::Initialize();
    XalanTransformer::initialize();
    registerAll();
    {
        Msg req;
        while (readMsg(0, req))
        {
            Msg resp;
            std::string c = req.gets("cmd");
            if (c == "quit") break;
            std::map<std::string, CmdFn>::iterator it = cmds().find(c);
            if (it == cmds().end()) resp.add("fatal", "unknown command " + c);
            else
            {
                ErrInfo e;
                CmdFn fn = it->second;
                if (!guarded([&]() { fn(req, resp); }, e))
                {
                    resp.add("escaped.kind", e.kind);
                    resp.add("escaped.msg", e.msg);
                }
            }
            if (!writeMsg(out, resp)) break;
        }
    }
    if (getenv("XDRV_FULL_EXIT"))
    {
        XalanTransformer::terminate();
        xercesc::XMLPlatformUtils::Terminate();
        XalanTransformer::ICUCleanUp();
        return 0;
    }
    _exit(0);
}
