// Shared pieces for transform / history / capi commands
#ifndef XDRV_TRANSFORM_HPP
#define XDRV_TRANSFORM_HPP
#include "xdrv.hpp"

#include <xercesc/sax/EntityResolver.hpp>
#include <xercesc/sax/InputSource.hpp>
#include <xercesc/framework/MemBufInputSource.hpp>
#include <xalanc/XalanTransformer/XalanTransformer.hpp>

// EntityResolver serving in-memory resources keyed by base name (DESIGN 2.3)
class MemResolver : public xercesc::EntityResolver
{
public:
    std::map<std::string, std::string> res;
    mutable std::vector<std::string> asked;
    void load(const Msg& req)
    {
        for (auto p : req.all("res"))
        {
            size_t z = p->find('\0');
            if (z != std::string::npos) res[p->substr(0, z)] = p->substr(z + 1);
        }
    }
    virtual xercesc::InputSource* resolveEntity(const XMLCh* const, const XMLCh* const systemId)
    {
        std::string id = u8(systemId);
        asked.push_back(id);
        size_t s = id.find_last_of('/');
        std::string base = s == std::string::npos ? id : id.substr(s + 1);
        std::map<std::string, std::string>::const_iterator i = res.find(base);
        if (i == res.end()) return 0;
        std::string sys = "file:///vmem/" + base;
        return new xercesc::MemBufInputSource((const XMLByte*)i->second.data(), i->second.size(), sys.c_str());
    }
};

// applies "set.*" fields (indent, encoding, omitmeta, escapeurls, poolall) and params to a transformer
void applySettings(xalanc::XalanTransformer& t, const Msg& spec);
void applyParam(xalanc::XalanTransformer& t, const std::string& paramSpec);

// runs one transformation as described by spec (fields xsl, xml, srcform, xslform, outform, events, ...)
// and appends rc / err / out / events to resp.  tmpdir is used by the file forms.
void runTransform(xalanc::XalanTransformer& t, const Msg& spec, Msg& resp, const std::string& pfx = "");

std::string tmpDir();
void writeFile(const std::string& path, const std::string& data);
bool readFile(const std::string& path, std::string& data);

#endif
