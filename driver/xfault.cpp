// xfault: allocation-fault enumeration for property C19 (pluggable MemoryManager: balanced use,
// allocation failure is survivable).  Holds no opinion about XSLT: it only counts/forbids
// allocations made through the MemoryManager handed to XalanTransformer and observes how the
// process fares.
//
//   xfault count SCENARIO            run once on a counting manager: N, step boundaries, balance
//   xfault sweep SCENARIO [--from A] [--to B] [--ks k1,k2,..] [--jobs J] [--batch B] [--warm]
//                                    count, then for every k: refuse the k-th allocation in a forked child.
//                                    --batch B: a child goes on with the next k (up to B) while it survives;
//                                    a k that kills a child which had already seen other faults is re-judged
//                                    alone in a child of its own.  --warm: the parent first runs the scenario
//                                    and the known-good transformation once without fault (first-use global
//                                    state exists; required for --batch > 1 so that numbering is stable).
//
// SCENARIO file: fields "@name LEN\n<LEN bytes>\n":
//   xsl.I / xml.I     stylesheet / source text of unit I (I = 0..)
//   res.NAME          resource served by the entity resolver (imports, document()) by base name
//   steps             blank separated tokens  op[:unit][@slot]
//                       new  delete                      construct / destroy transformer in slot
//                       compile:I parse:I parsex:I       compileStylesheet / parseSource (native|Xerces DOM)
//                       run:I                            transform(stream, stream, ostream)
//                       runcp:I runcs:I runps:I          compiled+parsed / stream+compiled / parsed+stream xsl
//                       dcs:I dps:I                      destroyStylesheet / destroyParsedSource
//                       params clearparams               setStylesheetParam for every "param" / clear
//   param             NAME=EXPR   (repeatable)
//   exc               oom (xercesc::OutOfMemoryException, what XalanMemoryManagerDefault throws) | bad_alloc
//   recovery          destroy (transformer destructors run, as on stack unwinding, then the manager is
//                     discarded) | abandon (transformer objects are never destroyed; manager discarded)
// Output: one JSON object on stdout.  Exit 0 = ran (verdict is in the JSON), 2 = infrastructure.
#include <algorithm>
#include <cassert>
#include <csignal>
#include <cstdio>
#include <cstdlib>
#include <cstring>
#include <exception>
#include <fstream>
#include <map>
#include <new>
#include <set>
#include <sstream>
#include <string>
#include <typeinfo>
#include <unordered_map>
#include <unordered_set>
#include <vector>

#include <cxxabi.h>
#include <dlfcn.h>
#include <execinfo.h>
#include <fcntl.h>
#include <sys/mman.h>
#include <sys/stat.h>
#include <sys/wait.h>
#include <unistd.h>

#include <xercesc/framework/MemBufInputSource.hpp>
#include <xercesc/sax/EntityResolver.hpp>
#include <xercesc/sax/InputSource.hpp>
#include <xercesc/sax/SAXException.hpp>
#include <xercesc/util/OutOfMemoryException.hpp>
#include <xercesc/util/PlatformUtils.hpp>
#include <xercesc/util/XMLException.hpp>
#include <xercesc/util/XMLString.hpp>

#include <xalanc/Include/XalanMemoryManagement.hpp>
#include <xalanc/PlatformSupport/XSLException.hpp>
#include <xalanc/XalanDOM/XalanDOMException.hpp>
#include <xalanc/XalanDOM/XalanDOMString.hpp>
#include <xalanc/XSLT/XSLTInputSource.hpp>
#include <xalanc/XSLT/XSLTResultTarget.hpp>
#include <xalanc/XalanTransformer/XalanCompiledStylesheet.hpp>
#include <xalanc/XPath/Function.hpp>
#include <xalanc/XPath/XObjectFactory.hpp>
#include <xalanc/XalanTransformer/XalanParsedSource.hpp>
#include <xalanc/XalanTransformer/XalanTransformer.hpp>

extern "C" void __sanitizer_set_death_callback(void (*)(void));

using namespace xalanc;

// ------------------------------------------------------------------------------------------
// shared-memory records
// ------------------------------------------------------------------------------------------
enum { MAXFR = 72, MAXSTEPS = 64, MAXLEAK = 32, ERRSZ = 3000 };

enum Outcome
{
    O_NONE = 0,
    O_EXC,         // ok: failure surfaced as a C++ exception at the API boundary
    O_STATUS,      // ok: failure surfaced as a non-zero status
    O_ABSORBED,    // ok: allocation refused, yet every step gave the no-fault status and bytes
    O_TERMINATE,   // std::terminate
    O_SIGNAL,      // SIGABRT (assert/abort), SIGSEGV, ...
    O_SANITIZER,   // ASan/UBSan report
    O_FOREIGN,     // deallocate() of a pointer this manager never issued
    O_DOUBLE,      // deallocate() of a pointer already returned
    O_WRONGOUT,    // status 0 but bytes differ from the no-fault run: failure not surfaced
    O_FRESH,       // new transformer on a new manager failed / wrong bytes after recovery
    O_FRESHIMB,    // new transformer unbalanced after recovery
    O_NOTREACHED,  // the k-th allocation never happened (run not reproducible) - infrastructure
    O_HANG,
    O_DIED,        // child vanished without verdict
    O_NONDET       // a step before the fault differed from the no-fault run - infrastructure
};
static const char* const outcomeName[] = {"none", "exception", "status", "absorbed", "abort-terminate", "abort-signal",
                                          "sanitizer", "foreign-free", "double-free", "wrong-output", "fresh-transformer-failed",
                                          "fresh-imbalance", "not-reached", "hang", "died", "nondeterministic"};
enum Stage { S_STEPS = 0, S_DESTROY, S_DISCARD, S_FRESH, S_DONE };
static const char* const stageName[] = {"steps", "destroy", "discard", "fresh", "done"};

struct Slot
{
    int done;
    int outcome;
    int stage;
    int step;        // step index in which the fault fired (-1: implicit final destroy)
    int curStep;     // step running when the process died
    int fired;
    int sig;
    int wstatus;
    int excKind;     // how it surfaced
    int rc;
    long leaked;     // blocks outstanding after the transformer was destroyed (before discard)
    long foreign, dbl;
    int nAlloc, nAbort, nFree;
    void* allocFr[MAXFR];   // stack where the k-th allocation was refused
    void* abortFr[MAXFR];   // stack in terminate handler / signal handler
    void* freeFr[MAXFR];    // stack of the first foreign/double free
    char excType[96];
    char note[160];
    char err[ERRSZ];
};

struct StepRes
{
    unsigned long first, last;  // allocation sequence numbers made inside the step (first > last: none)
    int rc;
    int exc;
    unsigned long outOff, outLen;
};

struct CountRes
{
    int done;
    int nsteps;          // including the implicit final deletes
    unsigned long N;
    long outstanding, foreign, dbl;
    unsigned long leakSeq[MAXLEAK];
    unsigned long leakSize[MAXLEAK];
    int nleak;
    StepRes steps[MAXSTEPS + 4];
    unsigned long outUsed;
    Slot slot;           // crash information of the count run itself
    int goodOk;          // known-good transformation on a fresh manager gave the expected bytes
    unsigned long goodN;
    long goodOutstanding;
};

enum { OUTBUF = 8 << 20 };
static CountRes* g_count = 0;
static char* g_outbuf = 0;
static Slot* g_slots = 0;     // index k
static Slot* g_cur = 0;       // slot of this child
static void* g_altstack = 0;

// ------------------------------------------------------------------------------------------
// counting / refusing memory manager
// ------------------------------------------------------------------------------------------
enum { HDR = 16 };
static const unsigned long MAGIC = 0xC19C19C19C19C19CUL;

class CountingMM : public XalanMemoryManager
{
public:
    struct Info
    {
        size_t size;
        unsigned long seq;
    };
    std::unordered_map<void*, Info> live;
    std::unordered_set<void*> freed;
    unsigned long seq;
    unsigned long failAt;
    bool fired;
    int excKind;   // 0 oom 1 bad_alloc
    long foreign, dbl;
    Slot* slot;
    std::set<unsigned long> traceSeqs;
    std::map<unsigned long, std::vector<void*> > traces;

    CountingMM() : seq(0), failAt(0), fired(false), excKind(0), foreign(0), dbl(0), slot(0) {}
    ~CountingMM() {}

    virtual void* allocate(size_type size)
    {
        ++seq;
        if (seq == failAt)
        {
            fired = true;
            if (slot)
            {
                slot->fired = 1;
                slot->step = slot->curStep;
                slot->nAlloc = backtrace(slot->allocFr, MAXFR);
            }
            if (excKind == 1) throw std::bad_alloc();
            throw xercesc::OutOfMemoryException();
        }
        if (!traceSeqs.empty() && traceSeqs.count(seq))
        {
            void* fr[MAXFR];
            int n = backtrace(fr, MAXFR);
            traces[seq] = std::vector<void*>(fr, fr + n);
        }
        char* raw = (char*)malloc(size + HDR);
        if (!raw) abort();
        ((unsigned long*)raw)[0] = MAGIC;
        ((unsigned long*)raw)[1] = (unsigned long)this;
        void* p = raw + HDR;
        Info i;
        i.size = size;
        i.seq = seq;
        live[p] = i;
        freed.erase(p);
        return p;
    }

    virtual void deallocate(void* p)
    {
        if (p == 0) return;
        std::unordered_map<void*, Info>::iterator i = live.find(p);
        if (i != live.end())
        {
            live.erase(i);
            freed.insert(p);
            free((char*)p - HDR);
            return;
        }
        const bool isDouble = freed.count(p) != 0;
        if (isDouble) ++dbl; else ++foreign;
        if (slot)
        {
            slot->dbl = dbl;
            slot->foreign = foreign;
            if (slot->nFree == 0) slot->nFree = backtrace(slot->freeFr, MAXFR);
        }
        // the block is not ours: leave it alone
    }

    virtual MemoryManager* getExceptionMemoryManager() { return this; }

    // the documented recovery: throw the whole manager away
    void discard()
    {
        for (std::unordered_map<void*, Info>::iterator i = live.begin(); i != live.end(); ++i)
            free((char*)i->first - HDR);
        live.clear();
    }
};

// ------------------------------------------------------------------------------------------
// scenario
// ------------------------------------------------------------------------------------------
struct Step
{
    std::string op;
    int unit;
    int slot;
    std::string text;
};
struct Scenario
{
    std::map<int, std::string> xsl, xml;
    std::map<std::string, std::string> res;
    std::vector<Step> steps;
    std::vector<std::pair<std::string, std::string> > params;
    int exc;
    bool abandon;
    Scenario() : exc(0), abandon(false) {}
};

static bool readAll(const char* path, std::string& out)
{
    FILE* f = strcmp(path, "-") == 0 ? stdin : fopen(path, "rb");
    if (!f) return false;
    char buf[65536];
    size_t n;
    while ((n = fread(buf, 1, sizeof buf, f)) > 0) out.append(buf, n);
    if (f != stdin) fclose(f);
    return true;
}

static bool parseScenario(const std::string& data, Scenario& sc, std::string& err)
{
    size_t p = 0;
    while (p < data.size())
    {
        if (data[p] == '\n' || data[p] == ' ') { ++p; continue; }
        if (data[p] != '@') { err = "expected @ at offset " + std::to_string(p); return false; }
        size_t e = data.find('\n', p);
        if (e == std::string::npos) { err = "truncated header"; return false; }
        std::string hdr = data.substr(p + 1, e - p - 1);
        size_t sp = hdr.find(' ');
        if (sp == std::string::npos) { err = "bad header " + hdr; return false; }
        std::string name = hdr.substr(0, sp);
        size_t len = strtoul(hdr.c_str() + sp + 1, 0, 10);
        if (e + 1 + len > data.size()) { err = "truncated field " + name; return false; }
        std::string val = data.substr(e + 1, len);
        p = e + 1 + len;
        if (name.compare(0, 4, "xsl.") == 0) sc.xsl[atoi(name.c_str() + 4)] = val;
        else if (name.compare(0, 4, "xml.") == 0) sc.xml[atoi(name.c_str() + 4)] = val;
        else if (name.compare(0, 4, "res.") == 0) sc.res[name.substr(4)] = val;
        else if (name == "exc") sc.exc = val == "bad_alloc" ? 1 : 0;
        else if (name == "recovery") sc.abandon = val == "abandon";
        else if (name == "param")
        {
            size_t q = val.find('=');
            if (q == std::string::npos) { err = "bad param"; return false; }
            sc.params.push_back(std::make_pair(val.substr(0, q), val.substr(q + 1)));
        }
        else if (name == "steps")
        {
            std::istringstream ss(val);
            std::string tok;
            while (ss >> tok)
            {
                Step s;
                s.text = tok;
                s.unit = 0;
                s.slot = 0;
                size_t at = tok.find('@');
                if (at != std::string::npos) { s.slot = atoi(tok.c_str() + at + 1); tok = tok.substr(0, at); }
                size_t c = tok.find(':');
                if (c != std::string::npos) { s.unit = atoi(tok.c_str() + c + 1); tok = tok.substr(0, c); }
                s.op = tok;
                static const char* const ops[] = {"new", "delete", "compile", "parse", "parsex", "run", "runf", "runcp", "runcs", "runps",
                                                  "dcs", "dps", "params", "clearparams", "install", "uninstall", 0};
                bool ok = false;
                for (int i = 0; ops[i]; ++i) if (s.op == ops[i]) ok = true;
                if (!ok || s.slot < 0 || s.slot > 3) { err = "bad step " + s.text; return false; }
                sc.steps.push_back(s);
            }
        }
        else { err = "unknown field " + name; return false; }
    }
    if (sc.steps.empty()) { err = "no steps"; return false; }
    if (sc.steps.size() > MAXSTEPS) { err = "too many steps"; return false; }
    return true;
}

static const char* stepKind(const std::string& op)
{
    if (op == "new") return "construct";
    if (op == "compile") return "compile";
    if (op == "parse" || op == "parsex") return "parse";
    if (op == "run" || op == "runf" || op == "runcp" || op == "runcs" || op == "runps") return "transform";
    if (op == "delete" || op == "dcs" || op == "dps") return "destroy";
    return "other";
}

// ------------------------------------------------------------------------------------------
// resolver, known-good transformation
// ------------------------------------------------------------------------------------------
class MemResolver : public xercesc::EntityResolver
{
public:
    const std::map<std::string, std::string>* res;
    MemoryManager* mm;
    MemResolver() : res(0), mm(0) {}
    virtual xercesc::InputSource* resolveEntity(const XMLCh* const, const XMLCh* const systemId)
    {
        char* s = xercesc::XMLString::transcode(systemId);   // default manager
        std::string id = s ? s : "";
        xercesc::XMLString::release(&s);
        size_t sl = id.find_last_of('/');
        std::string base = sl == std::string::npos ? id : id.substr(sl + 1);
        std::map<std::string, std::string>::const_iterator i = res->find(base);
        if (i == res->end()) return 0;
        std::string sys = "file:///vmem/" + base;
        // client-side object on the default manager (adopted and deleted by the parser)
        return new xercesc::MemBufInputSource((const XMLByte*)i->second.data(), i->second.size(), sys.c_str());
    }
};

static const char GOOD_XSL[] =
    "<xsl:stylesheet version='1.0' xmlns:xsl='http://www.w3.org/1999/XSL/Transform'>"
    "<xsl:output method='xml' omit-xml-declaration='yes'/>"
    "<xsl:key name='k' match='i' use='@g'/>"
    "<xsl:variable name='v' select='count(//i)'/>"
    "<xsl:template match='/'><o n='{$v}'><xsl:for-each select='r/i'><xsl:sort select='.' data-type='number' order='descending'/>"
    "<e g='{@g}' c='{count(key(\"k\",@g))}'><xsl:number value='position()' format='i'/>:<xsl:value-of select='format-number(., \"#,##0.0\")'/></e>"
    "</xsl:for-each></o></xsl:template></xsl:stylesheet>";
static const char GOOD_XML[] = "<r><i g='a'>1500</i><i g='b'>7</i><i g='a'>32.25</i></r>";
static const char GOOD_OUT[] = "<o n=\"3\"><e g=\"a\" c=\"2\">i:1,500.0</e><e g=\"a\" c=\"2\">ii:32.2</e><e g=\"b\" c=\"1\">iii:7.0</e></o>";

// returns 0 ok, 1 rc != 0, 2 wrong bytes, 3 exception, 4 imbalance
static int runGood(unsigned long* nOut, long* outstanding, std::string* got)
{
    CountingMM mm;
    int verdict = 0;
    try
    {
        XalanTransformer* t = new XalanTransformer(mm);
        std::ostringstream warn;
        t->setWarningStream(&warn);
        std::istringstream xs(GOOD_XML), ss(GOOD_XSL);
        std::ostringstream out;
        {
            XSLTInputSource xin(&xs, mm), sin(&ss, mm);
            xin.setSystemId(XalanDOMString("file:///vmem/good.xml", mm).c_str());
            sin.setSystemId(XalanDOMString("file:///vmem/good.xsl", mm).c_str());
            XSLTResultTarget tgt(&out, mm);
            int rc = t->transform(xin, sin, tgt);
            if (rc != 0) verdict = 1;
            else if (out.str() != GOOD_OUT) verdict = 2;
            if (got) *got = rc != 0 ? std::string("rc!=0: ") + t->getLastError() : out.str();
        }
        delete t;
    }
    catch (...)
    {
        verdict = 3;
    }
    if (nOut) *nOut = mm.seq;
    if (outstanding) *outstanding = (long)mm.live.size();
    if (verdict == 0 && (!mm.live.empty() || mm.foreign || mm.dbl)) verdict = 4;
    mm.discard();
    return verdict;
}

// ------------------------------------------------------------------------------------------
// death handlers
// ------------------------------------------------------------------------------------------
static void terminateHandler()
{
    if (g_cur)
    {
        if (g_cur->outcome == O_NONE)
        {
            g_cur->outcome = O_TERMINATE;
            g_cur->nAbort = backtrace(g_cur->abortFr, MAXFR);
            std::type_info* ti = abi::__cxa_current_exception_type();
            if (ti)
            {
                int st = 0;
                char* d = abi::__cxa_demangle(ti->name(), 0, 0, &st);
                snprintf(g_cur->excType, sizeof g_cur->excType, "%s", d ? d : ti->name());
                free(d);
            }
        }
    }
    _exit(70);
}

static void signalHandler(int sig)
{
    if (g_cur && g_cur->outcome == O_NONE)
    {
        g_cur->outcome = sig == SIGALRM ? O_HANG : O_SIGNAL;
        g_cur->sig = sig;
        g_cur->nAbort = backtrace(g_cur->abortFr, MAXFR);
    }
    _exit(71);
}

static void sanitizerDeath()
{
    if (g_cur && g_cur->outcome == O_NONE)
    {
        g_cur->outcome = O_SANITIZER;
        g_cur->nAbort = backtrace(g_cur->abortFr, MAXFR);
    }
    _exit(72);
}

static void installHandlers(Slot* s)
{
    if (s) g_cur = s;
    std::set_terminate(terminateHandler);
    __sanitizer_set_death_callback(sanitizerDeath);
    stack_t ss;
    ss.ss_sp = g_altstack;
    ss.ss_size = 1 << 16;
    ss.ss_flags = 0;
    sigaltstack(&ss, 0);
    struct sigaction sa;
    memset(&sa, 0, sizeof sa);
    sa.sa_handler = signalHandler;
    sa.sa_flags = SA_ONSTACK | SA_NODEFER;
    const int sigs[] = {SIGABRT, SIGSEGV, SIGBUS, SIGFPE, SIGILL, SIGALRM};
    for (size_t i = 0; i < sizeof sigs / sizeof sigs[0]; ++i) sigaction(sigs[i], &sa, 0);
    alarm(60);
}

// ------------------------------------------------------------------------------------------
// running a scenario
// ------------------------------------------------------------------------------------------
enum ExcKind { X_NONE = 0, X_OOM, X_BADALLOC, X_XSL, X_XML, X_SAX, X_DOM, X_STD, X_OTHER };
static const char* const excName[] = {"", "OutOfMemoryException", "std::bad_alloc", "XSLException", "XMLException", "SAXException",
                                      "XalanDOMException", "std::exception", "unknown"};

// {urn:xf}twice(x) = 2 * number(x): an installable extension function whose clone goes through the transformer's manager
class XfTwice : public Function
{
public:
    virtual XObjectPtr execute(XPathExecutionContext& ctx, XalanNode* context, const XObjectArgVectorType& args, const Locator* locator) const
    {
        if (args.size() != 1) generalError(ctx, context, locator);
        return ctx.getXObjectFactory().createNumber(2 * args[0]->num(ctx));
    }
    virtual XfTwice* clone(MemoryManager& theManager) const { return XalanCopyConstruct(theManager, *this); }
protected:
    virtual const XalanDOMString& getError(XalanDOMString& r) const { r.assign("twice() takes one argument"); return r; }
};

struct Runner
{
    const Scenario& sc;
    CountingMM& mm;
    MemResolver resolver;
    std::ostringstream warn;
    XalanTransformer* t[4];
    std::map<int, const XalanCompiledStylesheet*> cs[4];
    std::map<int, const XalanParsedSource*> ps[4];

    Runner(const Scenario& s, CountingMM& m) : sc(s), mm(m)
    {
        resolver.res = &sc.res;
        resolver.mm = &mm;
        for (int i = 0; i < 4; ++i) t[i] = 0;
    }

    static const std::string& text(const std::map<int, std::string>& m, int i)
    {
        static const std::string empty;
        std::map<int, std::string>::const_iterator it = m.find(i);
        return it == m.end() ? empty : it->second;
    }

    // one API call; returns status, appends result bytes to out.  -1000: precondition missing (scenario error)
    int apply(const Step& s, std::string& out)
    {
        XalanTransformer*& T = t[s.slot];
        if (s.op == "new")
        {
            if (T) return -1000;
            T = new XalanTransformer(mm);
            T->setWarningStream(&warn);
            T->setEntityResolver(&resolver);
            return 0;
        }
        if (!T) return -1000;
        if (s.op == "delete")
        {
            XalanTransformer* d = T;
            T = 0;
            cs[s.slot].clear();
            ps[s.slot].clear();
            delete d;
            return 0;
        }
        char sysx[64], sysd[64];
        snprintf(sysx, sizeof sysx, "file:///vmem/main%d.xsl", s.unit);
        snprintf(sysd, sizeof sysd, "file:///vmem/main%d.xml", s.unit);
        if (s.op == "compile")
        {
            if (cs[s.slot].count(s.unit)) return -1000;
            std::istringstream ss(text(sc.xsl, s.unit));
            XSLTInputSource in(&ss, mm);
            in.setSystemId(XalanDOMString(sysx, mm).c_str());
            const XalanCompiledStylesheet* c = 0;
            int rc = T->compileStylesheet(in, c);
            if (rc == 0) cs[s.slot][s.unit] = c;
            return rc;
        }
        if (s.op == "parse" || s.op == "parsex")
        {
            if (ps[s.slot].count(s.unit)) return -1000;
            std::istringstream ss(text(sc.xml, s.unit));
            XSLTInputSource in(&ss, mm);
            in.setSystemId(XalanDOMString(sysd, mm).c_str());
            const XalanParsedSource* p = 0;
            int rc = T->parseSource(in, p, s.op == "parsex");
            if (rc == 0) ps[s.slot][s.unit] = p;
            return rc;
        }
        if (s.op == "dcs")
        {
            if (!cs[s.slot].count(s.unit)) return -1000;
            const XalanCompiledStylesheet* c = cs[s.slot][s.unit];
            cs[s.slot].erase(s.unit);
            return T->destroyStylesheet(c);
        }
        if (s.op == "dps")
        {
            if (!ps[s.slot].count(s.unit)) return -1000;
            const XalanParsedSource* p = ps[s.slot][s.unit];
            ps[s.slot].erase(s.unit);
            return T->destroyParsedSource(p);
        }
        if (s.op == "params")
        {
            for (size_t i = 0; i < sc.params.size(); ++i)
                T->setStylesheetParam(XalanDOMString(sc.params[i].first.c_str(), mm), XalanDOMString(sc.params[i].second.c_str(), mm));
            return 0;
        }
        if (s.op == "clearparams")
        {
            T->clearStylesheetParams();
            return 0;
        }
        if (s.op == "install" || s.op == "uninstall")
        {
            // per-transformer extension function {urn:xf}twice; installing an installed name REPLACES the function
            const XalanDOMString ns("urn:xf", mm), fn("twice", mm);
            if (s.op == "install") T->installExternalFunction(ns, fn, XfTwice());
            else T->uninstallExternalFunction(ns, fn);
            return 0;
        }
        // transformations
        std::ostringstream os;
        int rc;
        if (s.op == "run")
        {
            std::istringstream xs(text(sc.xml, s.unit)), ss(text(sc.xsl, s.unit));
            XSLTInputSource xin(&xs, mm), sin(&ss, mm);
            xin.setSystemId(XalanDOMString(sysd, mm).c_str());
            sin.setSystemId(XalanDOMString(sysx, mm).c_str());
            XSLTResultTarget tgt(&os, mm);
            rc = T->transform(xin, sin, tgt);
        }
        else if (s.op == "runf")
        {
            // the result goes to a FILE NAME: the library opens, owns and closes the stream (XalanFileOutputStream + print writer)
            char fname[96];
            snprintf(fname, sizeof fname, "/dev/shm/xfault.%ld.out", (long)getpid());
            struct Unlink { const char* f; ~Unlink() { unlink(f); } } ul = { fname };
            std::istringstream xs(text(sc.xml, s.unit)), ss(text(sc.xsl, s.unit));
            XSLTInputSource xin(&xs, mm), sin(&ss, mm);
            xin.setSystemId(XalanDOMString(sysd, mm).c_str());
            sin.setSystemId(XalanDOMString(sysx, mm).c_str());
            {
                XSLTResultTarget tgt(XalanDOMString(fname, mm), mm);
                rc = T->transform(xin, sin, tgt);
            }
            std::ifstream in(fname, std::ios::binary);
            std::ostringstream content;
            content << in.rdbuf();
            out = content.str();
            return rc;
        }
        else if (s.op == "runcp")
        {
            if (!cs[s.slot].count(s.unit) || !ps[s.slot].count(s.unit)) return -1000;
            XSLTResultTarget tgt(&os, mm);
            rc = T->transform(*ps[s.slot][s.unit], cs[s.slot][s.unit], tgt);
        }
        else if (s.op == "runcs")
        {
            if (!cs[s.slot].count(s.unit)) return -1000;
            std::istringstream xs(text(sc.xml, s.unit));
            XSLTInputSource xin(&xs, mm);
            xin.setSystemId(XalanDOMString(sysd, mm).c_str());
            XSLTResultTarget tgt(&os, mm);
            rc = T->transform(xin, cs[s.slot][s.unit], tgt);
        }
        else  // runps
        {
            if (!ps[s.slot].count(s.unit)) return -1000;
            std::istringstream ss(text(sc.xsl, s.unit));
            XSLTInputSource sin(&ss, mm);
            sin.setSystemId(XalanDOMString(sysx, mm).c_str());
            XSLTResultTarget tgt(&os, mm);
            rc = T->transform(*ps[s.slot][s.unit], sin, tgt);
        }
        out = os.str();
        return rc;
    }

    // apply with the API boundary's catch; exc receives how an exception surfaced
    int guarded(const Step& s, std::string& out, int& exc)
    {
        exc = X_NONE;
        try
        {
            return apply(s, out);
        }
        catch (const xercesc::OutOfMemoryException&) { exc = X_OOM; }
        catch (const std::bad_alloc&) { exc = X_BADALLOC; }
        catch (const XSLException&) { exc = X_XSL; }
        catch (const xercesc::XMLException&) { exc = X_XML; }
        catch (const xercesc::SAXException&) { exc = X_SAX; }
        catch (const XalanDOMException&) { exc = X_DOM; }
        catch (const std::exception&) { exc = X_STD; }
        catch (...) { exc = X_OTHER; }
        return -999;
    }
};

// the steps plus one implicit "delete" per slot still alive at the end
static std::vector<Step> fullSteps(const Scenario& sc)
{
    std::vector<Step> v = sc.steps;
    bool alive[4] = {false, false, false, false};
    for (size_t i = 0; i < v.size(); ++i)
    {
        if (v[i].op == "new") alive[v[i].slot] = true;
        if (v[i].op == "delete") alive[v[i].slot] = false;
    }
    for (int s = 0; s < 4; ++s)
        if (alive[s])
        {
            Step d;
            d.op = "delete";
            d.unit = 0;
            d.slot = s;
            d.text = "delete@" + std::to_string(s) + "(implicit)";
            v.push_back(d);
        }
    return v;
}

// warm-up (in the parent, after the cold count run proved it harmless): the scenario and the known-good
// transformation run once without fault, so that first-use global state exists before the sweep forks
static void warmParent(const Scenario& sc)
{
    CountingMM* mm = new CountingMM;
    std::vector<Step> steps = fullSteps(sc);
    {
        Runner r(sc, *mm);
        for (size_t i = 0; i < steps.size(); ++i)
        {
            std::string out;
            int exc;
            r.guarded(steps[i], out, exc);
        }
    }
    mm->discard();
    delete mm;
    runGood(0, 0, 0);
}

// count mode (in a child): no fault
static void childCount(const Scenario& sc, const std::set<unsigned long>& traceSeqs, std::map<unsigned long, std::vector<void*> >* tracesOut)
{
    CountRes* cr = g_count;
    installHandlers(&cr->slot);
    CountingMM* mm = new CountingMM;
    mm->slot = &cr->slot;
    mm->traceSeqs = traceSeqs;
    std::vector<Step> steps = fullSteps(sc);
    {
        Runner r(sc, *mm);
        cr->nsteps = (int)steps.size();
        cr->outUsed = 0;
        for (size_t i = 0; i < steps.size(); ++i)
        {
            cr->slot.curStep = (int)i;
            std::string out;
            int exc;
            StepRes& sr = cr->steps[i];
            sr.first = mm->seq + 1;
            sr.rc = r.guarded(steps[i], out, exc);
            sr.last = mm->seq;
            sr.exc = exc;
            sr.outOff = cr->outUsed;
            sr.outLen = out.size();
            if (cr->outUsed + out.size() > OUTBUF) { snprintf(cr->slot.note, sizeof cr->slot.note, "output buffer exhausted"); _exit(3); }
            memcpy(g_outbuf + cr->outUsed, out.data(), out.size());
            cr->outUsed += out.size();
            if (sr.rc == -1000) { snprintf(cr->slot.note, sizeof cr->slot.note, "step %d (%s): precondition missing", (int)i, steps[i].text.c_str()); _exit(3); }
        }
    }
    cr->slot.stage = S_DISCARD;
    cr->N = mm->seq;
    cr->outstanding = (long)mm->live.size();
    cr->foreign = mm->foreign;
    cr->dbl = mm->dbl;
    cr->nleak = 0;
    {
        std::vector<std::pair<unsigned long, unsigned long> > leaks;
        for (std::unordered_map<void*, CountingMM::Info>::iterator i = mm->live.begin(); i != mm->live.end(); ++i)
            leaks.push_back(std::make_pair(i->second.seq, (unsigned long)i->second.size));
        std::sort(leaks.begin(), leaks.end());
        for (size_t i = 0; i < leaks.size() && i < MAXLEAK; ++i)
        {
            cr->leakSeq[i] = leaks[i].first;
            cr->leakSize[i] = leaks[i].second;
            cr->nleak = (int)i + 1;
        }
    }
    if (tracesOut) *tracesOut = mm->traces;
    mm->discard();
    cr->slot.stage = S_FRESH;
    int g = runGood(&cr->goodN, &cr->goodOutstanding, 0);
    cr->goodOk = g;
    cr->slot.stage = S_DONE;
    cr->done = 1;
}

// fault mode (in a forked child, possibly after other k's of the same batch): refuse allocation k.
// Returns normally when the process survived; the verdict is in the slot.
static void faultOne(const Scenario& sc, unsigned long k)
{
    Slot* sl = &g_slots[k];
    const CountRes* cr = g_count;
    memset(sl, 0, sizeof *sl);
    g_cur = sl;
    alarm(60);
    if (ftruncate(2, 0) == 0) lseek(2, 0, SEEK_SET);
    sl->stage = S_STEPS;
    sl->step = -2;
    CountingMM* mm = new CountingMM;
    mm->slot = sl;
    mm->failAt = k;
    mm->excKind = sc.exc;
    std::vector<Step> steps = fullSteps(sc);
    Runner* r = new Runner(sc, *mm);
    int verdict = O_NONE;
    bool stopped = false;
    for (size_t i = 0; i < steps.size() && !stopped; ++i)
    {
        sl->curStep = (int)i;
        const bool implicitDelete = i >= sc.steps.size();
        if (implicitDelete) sl->stage = S_DESTROY;
        std::string out;
        int exc;
        const bool before = mm->fired;
        const StepRes& e = cr->steps[i];
        if (!before && mm->seq + 1 != e.first)
        {
            verdict = O_NONDET;
            snprintf(sl->note, sizeof sl->note, "step %d starts at allocation %lu, no-fault run: %lu", (int)i, mm->seq + 1, e.first);
            break;
        }
        int rc = r->guarded(steps[i], out, exc);
        const bool same = rc == e.rc && exc == e.exc && out.size() == e.outLen && memcmp(out.data(), g_outbuf + e.outOff, e.outLen) == 0;
        if (!mm->fired)
        {
            if (!same)
            {
                verdict = O_NONDET;
                snprintf(sl->note, sizeof sl->note, "step %d differs before fault: rc %d vs %d", (int)i, rc, e.rc);
                stopped = true;
            }
            continue;
        }
        if (same) { if (!before) verdict = O_ABSORBED; continue; }   // absorbed so far, keep going
        sl->rc = rc;
        sl->excKind = exc;
        if (exc != X_NONE) verdict = O_EXC;
        else if (rc != 0) verdict = O_STATUS;
        else
        {
            verdict = O_WRONGOUT;
            snprintf(sl->note, sizeof sl->note, "step %d (%s): status 0 but %lu bytes differ from the no-fault %lu bytes", (int)i,
                     steps[i].text.c_str(), (unsigned long)out.size(), e.outLen);
        }
        stopped = true;
    }
    if (!mm->fired && verdict == O_NONE) verdict = O_NOTREACHED;
    // recovery part 1: what stack unwinding would do in a client - destroy the transformer(s)
    sl->stage = S_DESTROY;
    sl->curStep = -1;
    if (!sc.abandon)
    {
        for (int s = 0; s < 4; ++s)
            if (r->t[s])
            {
                XalanTransformer* d = r->t[s];
                r->t[s] = 0;
                delete d;   // a throwing destructor ends in std::terminate
            }
    }
    sl->leaked = (long)mm->live.size();
    sl->foreign = mm->foreign;
    sl->dbl = mm->dbl;
    if (mm->dbl) verdict = O_DOUBLE;
    else if (mm->foreign) verdict = O_FOREIGN;
    // recovery part 2: discard the manager
    sl->stage = S_DISCARD;
    mm->discard();
    // a new transformer on a new manager must work
    sl->stage = S_FRESH;
    std::string got;
    int g = runGood(0, 0, &got);
    if (g != 0 && verdict != O_DOUBLE && verdict != O_FOREIGN && verdict != O_WRONGOUT)
    {
        verdict = g == 4 ? O_FRESHIMB : O_FRESH;
        snprintf(sl->note, sizeof sl->note, "fresh transformer: code %d: %.100s", g, got.c_str());
    }
    sl->stage = S_DONE;
    sl->outcome = verdict;
    sl->done = 1;
    if (!sc.abandon) delete r;
    delete mm;
    g_cur = 0;
}

// ------------------------------------------------------------------------------------------
// JSON helpers
// ------------------------------------------------------------------------------------------
static std::string jstr(const std::string& s)
{
    std::string o = "\"";
    for (size_t i = 0; i < s.size(); ++i)
    {
        unsigned char c = (unsigned char)s[i];
        if (c == '"' || c == '\\') { o += '\\'; o += (char)c; }
        else if (c == '\n') o += "\\n";
        else if (c == '\t') o += "\\t";
        else if (c < 0x20 || c >= 0x7f) { char b[8]; snprintf(b, sizeof b, "\\u%04x", c); o += b; }
        else o += (char)c;
    }
    return o + "\"";
}

// frames as "module+0xOFF" (OFF already decremented to fall inside the call instruction) plus the
// dynamic symbol, so that they can be symbolized off-line in one batch
static std::string jframes(void* const* fr, int n)
{
    std::string o = "[";
    for (int i = 0; i < n; ++i)
    {
        Dl_info di;
        char buf[1200];
        if (dladdr(fr[i], &di) && di.dli_fname)
        {
            unsigned long off = (unsigned long)((char*)fr[i] - (char*)di.dli_fbase);
            snprintf(buf, sizeof buf, "%s+0x%lx", di.dli_fname, off ? off - 1 : 0);
        }
        else snprintf(buf, sizeof buf, "?+0x%lx", (unsigned long)fr[i]);
        if (i) o += ",";
        o += jstr(buf);
    }
    return o + "]";
}

static std::string readTail(int fd, size_t max)
{
    std::string s;
    off_t sz = lseek(fd, 0, SEEK_END);
    if (sz <= 0) return s;
    // head is more useful than tail for sanitizer reports; keep the first max bytes
    lseek(fd, 0, SEEK_SET);
    s.resize(std::min((size_t)sz, max));
    ssize_t n = read(fd, &s[0], s.size());
    s.resize(n > 0 ? n : 0);
    return s;
}

static std::string slotJson(const Slot& s, long k, const std::vector<Step>& steps)
{
    std::ostringstream o;
    int st = s.fired ? s.step : -2;
    const char* phase = st >= 0 && st < (int)steps.size() ? stepKind(steps[st].op) : (s.fired ? "destroy" : "none");
    o << "{\"k\":" << k << ",\"kind\":" << jstr(outcomeName[s.outcome]) << ",\"stage\":" << jstr(stageName[s.stage])
      << ",\"fault_step\":" << st << ",\"fault_step_text\":" << jstr(st >= 0 && st < (int)steps.size() ? steps[st].text : "recovery-destroy")
      << ",\"phase\":" << jstr(phase) << ",\"died_in_step\":" << s.curStep << ",\"signal\":" << s.sig << ",\"wstatus\":" << s.wstatus
      << ",\"surfaced\":" << jstr(excName[s.excKind]) << ",\"rc\":" << s.rc << ",\"leaked\":" << s.leaked << ",\"foreign\":" << s.foreign
      << ",\"double\":" << s.dbl << ",\"exc_type\":" << jstr(s.excType) << ",\"note\":" << jstr(s.note)
      << ",\"alloc_frames\":" << jframes(s.allocFr, s.nAlloc) << ",\"abort_frames\":" << jframes(s.abortFr, s.nAbort)
      << ",\"free_frames\":" << jframes(s.freeFr, s.nFree) << ",\"stderr\":" << jstr(std::string(s.err, strnlen(s.err, ERRSZ))) << "}";
    return o.str();
}

// ------------------------------------------------------------------------------------------
static void* shared(size_t n)
{
    void* p = mmap(0, n, PROT_READ | PROT_WRITE, MAP_SHARED | MAP_ANONYMOUS, -1, 0);
    if (p == MAP_FAILED) { perror("mmap"); exit(2); }
    return p;
}

static int errFile()
{
    char path[] = "/dev/shm/xfault.err.XXXXXX";
    int fd = mkstemp(path);
    if (fd < 0) { perror("mkstemp"); exit(2); }
    unlink(path);
    return fd;
}

// fills slot->wstatus/err/outcome of the slot a child was working on when it ended with status st
static void settle(Slot* slot, int efd, int st)
{
    slot->wstatus = st;
    const bool clean = WIFEXITED(st) && WEXITSTATUS(st) == 0 && slot->done;
    if (!clean)
    {
        std::string e = readTail(efd, ERRSZ - 1);
        memcpy(slot->err, e.data(), e.size());
        slot->err[e.size()] = 0;
        if (slot->outcome == O_NONE || slot->outcome == O_EXC || slot->outcome == O_STATUS || slot->outcome == O_ABSORBED)
        {
            if (WIFSIGNALED(st)) { slot->outcome = WTERMSIG(st) == SIGALRM ? O_HANG : O_SIGNAL; slot->sig = WTERMSIG(st); }
            else if (strstr(slot->err, "Sanitizer") || strstr(slot->err, "runtime error")) slot->outcome = O_SANITIZER;
            else slot->outcome = O_DIED;
        }
    }
}

// runs fn in a forked child with stderr captured; returns the wait status
template <class F>
static int forkRun(int efd, F fn)
{
    if (ftruncate(efd, 0) != 0) {}
    lseek(efd, 0, SEEK_SET);
    fflush(stdout);
    pid_t pid = fork();
    if (pid < 0) { perror("fork"); exit(2); }
    if (pid == 0)
    {
        dup2(efd, 2);
        fn();
        _exit(0);
    }
    int st = 0;
    while (waitpid(pid, &st, 0) < 0) {}
    return st;
}

template <class F>
static int inChild(Slot* slot, int efd, F fn)
{
    int st = forkRun(efd, fn);
    settle(slot, efd, st);
    return st;
}

int main(int argc, char** argv)
{
    if (argc < 3) { fprintf(stderr, "usage: xfault count|sweep SCENARIO [--from A] [--to B] [--ks list] [--jobs J] [--batch B] [--warm]\n"); return 2; }
    const std::string mode = argv[1];
    unsigned long from = 1, to = 0;
    int jobs = 16;
    int batch = 1;
    bool warm = false;
    std::vector<unsigned long> ks;
    for (int i = 3; i < argc; ++i)
    {
        std::string a = argv[i];
        if (a == "--from" && i + 1 < argc) from = strtoul(argv[++i], 0, 10);
        else if (a == "--to" && i + 1 < argc) to = strtoul(argv[++i], 0, 10);
        else if (a == "--jobs" && i + 1 < argc) jobs = atoi(argv[++i]);
        else if (a == "--batch" && i + 1 < argc) batch = std::max(1, atoi(argv[++i]));
        else if (a == "--warm") warm = true;
        else if (a == "--ks" && i + 1 < argc)
        {
            std::istringstream ss(argv[++i]);
            std::string t;
            while (std::getline(ss, t, ',')) if (!t.empty()) ks.push_back(strtoul(t.c_str(), 0, 10));
        }
        else { fprintf(stderr, "bad argument %s\n", a.c_str()); return 2; }
    }
    if (jobs < 1) jobs = 1;
    std::string data, err;
    if (!readAll(argv[2], data)) { fprintf(stderr, "cannot read %s\n", argv[2]); return 2; }
    Scenario sc;
    if (!parseScenario(data, sc, err)) { fprintf(stderr, "scenario: %s\n", err.c_str()); return 2; }
    const std::vector<Step> steps = fullSteps(sc);

    g_count = (CountRes*)shared(sizeof(CountRes));
    g_outbuf = (char*)shared(OUTBUF);
    g_altstack = malloc(1 << 16);
    {
        void* fr[4];
        backtrace(fr, 4);   // loads libgcc now, not inside a handler
    }
    try
    {
        xercesc::XMLPlatformUtils::Initialize();
        XalanTransformer::initialize();
    }
    catch (...)
    {
        fprintf(stderr, "library initialization failed\n");
        return 2;
    }
    const int efd = errFile();

    // ---- count run
    std::set<unsigned long> none;
    inChild(&g_count->slot, efd, [&]() { childCount(sc, none, 0); });
    CountRes& cr = *g_count;
    std::ostringstream js;
    js << "{\"mode\":" << jstr(mode) << ",\"exc\":" << jstr(sc.exc ? "bad_alloc" : "oom") << ",\"recovery\":" << jstr(sc.abandon ? "abandon" : "destroy");
    if (!cr.done)
    {
        if (WIFEXITED(cr.slot.wstatus) && WEXITSTATUS(cr.slot.wstatus) == 3)
        {
            fprintf(stderr, "scenario error: %s\n", cr.slot.note);
            return 2;
        }
        // the no-fault run itself died
        js << ",\"count\":{\"status\":\"died\",\"detail\":" << slotJson(cr.slot, 0, steps) << "}}";
        puts(js.str().c_str());
        return 0;
    }
    // leaked blocks: find where they were allocated by a second, traced run
    std::string leakJson = "[]";
    if (cr.nleak > 0)
    {
        std::set<unsigned long> seqs(cr.leakSeq, cr.leakSeq + cr.nleak);
        struct LeakTrace { int n[MAXLEAK]; void* fr[MAXLEAK][MAXFR]; };
        LeakTrace* lt = (LeakTrace*)shared(sizeof(LeakTrace));
        CountRes saved = cr;
        memset(&cr.slot, 0, sizeof cr.slot);
        cr.done = 0;
        inChild(&g_count->slot, efd, [&]() {
            std::map<unsigned long, std::vector<void*> > tr;
            childCount(sc, seqs, &tr);
            for (int i = 0; i < saved.nleak; ++i)
            {
                std::vector<void*>& v = tr[saved.leakSeq[i]];
                lt->n[i] = (int)v.size();
                for (size_t j = 0; j < v.size(); ++j) lt->fr[i][j] = v[j];
            }
        });
        cr = saved;
        std::ostringstream lj;
        lj << "[";
        for (int i = 0; i < cr.nleak; ++i)
        {
            int si = -1;
            for (int s = 0; s < cr.nsteps; ++s) if (cr.leakSeq[i] >= cr.steps[s].first && cr.leakSeq[i] <= cr.steps[s].last) si = s;
            lj << (i ? "," : "") << "{\"seq\":" << cr.leakSeq[i] << ",\"size\":" << cr.leakSize[i] << ",\"step\":" << si
               << ",\"phase\":" << jstr(si >= 0 ? stepKind(steps[si].op) : "none") << ",\"alloc_frames\":" << jframes(lt->fr[i], lt->n[i]) << "}";
        }
        lj << "]";
        leakJson = lj.str();
    }
    // the cold run decides balance; with --warm the sweep is numbered by a second, warm count run
    const CountRes cold = cr;
    if (warm && mode != "count")
    {
        warmParent(sc);
        memset(&cr.slot, 0, sizeof cr.slot);
        cr.done = 0;
        inChild(&g_count->slot, efd, [&]() { childCount(sc, none, 0); });
        if (!cr.done)
        {
            js << ",\"count\":{\"status\":\"died\",\"warm\":true,\"detail\":" << slotJson(cr.slot, 0, steps) << "}}";
            puts(js.str().c_str());
            return 0;
        }
    }
    js << ",\"N\":" << cr.N << ",\"N_cold\":" << cold.N << ",\"warm\":" << (warm ? "true" : "false") << ",\"batch\":" << batch << ",\"steps\":[";
    for (int i = 0; i < cr.nsteps; ++i)
    {
        const StepRes& s = cr.steps[i];
        js << (i ? "," : "") << "{\"op\":" << jstr(steps[i].text) << ",\"kind\":" << jstr(stepKind(steps[i].op)) << ",\"first\":" << s.first
           << ",\"last\":" << s.last << ",\"rc\":" << s.rc << ",\"exc\":" << jstr(excName[s.exc]) << ",\"out_len\":" << s.outLen
           << ",\"out\":" << jstr(std::string(g_outbuf + s.outOff, std::min<unsigned long>(s.outLen, 300))) << "}";
    }
    js << "],\"count\":{\"status\":\"ok\",\"outstanding\":" << cold.outstanding << ",\"foreign\":" << cold.foreign << ",\"double\":" << cold.dbl
       << ",\"leaks\":" << leakJson << ",\"free_frames\":" << jframes(cold.slot.freeFr, cold.slot.nFree) << ",\"good\":" << cold.goodOk
       << ",\"good_N\":" << cold.goodN << ",\"good_outstanding\":" << cold.goodOutstanding << ",\"warm_outstanding\":" << cr.outstanding << "}";
    if (mode == "count")
    {
        js << "}";
        puts(js.str().c_str());
        return 0;
    }
    if (cold.goodOk != 0 || cr.goodOk != 0)
    {
        // the known-good transformation does not even work without faults: nothing to conclude
        js << ",\"infra\":\"known-good transformation failed in the no-fault run\"}";
        puts(js.str().c_str());
        return 0;
    }

    // ---- sweep
    const unsigned long N = cr.N;
    if (to == 0 || to > N) to = N;
    if (ks.empty()) for (unsigned long k = from; k <= to; ++k) ks.push_back(k);
    unsigned long maxk = N;
    for (size_t i = 0; i < ks.size(); ++i) maxk = std::max(maxk, ks[i]);
    g_slots = (Slot*)shared(sizeof(Slot) * (maxk + 2));
    const size_t nbatches = (ks.size() + batch - 1) / batch;
    if ((size_t)jobs > nbatches) jobs = (int)std::max<size_t>(1, nbatches);
    struct Shared { unsigned long next; unsigned long orderDependent; unsigned long forks; unsigned long renumbered; };
    Shared* sh = (Shared*)shared(sizeof(Shared));
    std::vector<pid_t> workers;
    for (int j = 0; j < jobs; ++j)
    {
        fflush(stdout);
        pid_t pid = fork();
        if (pid < 0) { perror("fork"); return 2; }
        if (pid == 0)
        {
            // worker: takes batches of k's; one forked child runs a whole batch in-process as long as it
            // survives.  A k whose child died after earlier k's of the same batch is judged again alone
            // in a child of its own, so that every failing verdict comes from a process that had seen no
            // other fault.
            const int wfd = errFile();
            for (;;)
            {
                const unsigned long b = __atomic_fetch_add(&sh->next, 1UL, __ATOMIC_SEQ_CST);
                if (b >= nbatches) break;
                size_t lo = b * batch;
                const size_t hi = std::min(ks.size(), lo + batch);
                while (lo < hi)
                {
                    for (size_t i = lo; i < hi; ++i) g_slots[ks[i]].done = 0;
                    __atomic_fetch_add(&sh->forks, 1UL, __ATOMIC_SEQ_CST);
                    const int st = forkRun(wfd, [&]() {
                        installHandlers(0);
                        for (size_t i = lo; i < hi; ++i) faultOne(sc, ks[i]);
                    });
                    size_t d = lo;
                    while (d < hi && g_slots[ks[d]].done) ++d;
                    // a k whose numbering drifted after earlier faults in the same process is run again alone
                    for (size_t i = lo + 1; i < d; ++i)
                    {
                        Slot* s2 = &g_slots[ks[i]];
                        if (s2->outcome == O_NONDET || s2->outcome == O_NOTREACHED)
                        {
                            __atomic_fetch_add(&sh->forks, 1UL, __ATOMIC_SEQ_CST);
                            __atomic_fetch_add(&sh->renumbered, 1UL, __ATOMIC_SEQ_CST);
                            const unsigned long kk = ks[i];
                            s2->done = 0;
                            const int st3 = forkRun(wfd, [&]() { installHandlers(0); faultOne(sc, kk); });
                            settle(s2, wfd, st3);
                        }
                    }
                    if (d == hi) { lo = hi; break; }        // the whole batch survived
                    Slot* slot = &g_slots[ks[d]];
                    settle(slot, wfd, st);
                    if (d > lo)
                    {
                        // not the first of its child: judge it again in isolation
                        Slot inBatch = *slot;
                        __atomic_fetch_add(&sh->forks, 1UL, __ATOMIC_SEQ_CST);
                        const int st2 = forkRun(wfd, [&]() { installHandlers(0); faultOne(sc, ks[d]); });
                        settle(slot, wfd, st2);
                        const bool badAlone = !(slot->outcome == O_EXC || slot->outcome == O_STATUS || slot->outcome == O_ABSORBED);
                        if (!badAlone)
                        {
                            __atomic_fetch_add(&sh->orderDependent, 1UL, __ATOMIC_SEQ_CST);
                            snprintf(slot->note, sizeof slot->note, "died (%s) after %lu other faults in one process, fine alone",
                                     outcomeName[inBatch.outcome], (unsigned long)(d - lo));
                        }
                    }
                    lo = d + 1;
                }
            }
            _exit(0);
        }
        workers.push_back(pid);
    }
    bool workerFailed = false;
    for (size_t i = 0; i < workers.size(); ++i)
    {
        int st = 0;
        while (waitpid(workers[i], &st, 0) < 0) {}
        if (!WIFEXITED(st) || WEXITSTATUS(st) != 0) workerFailed = true;
    }
    if (workerFailed) { fprintf(stderr, "a sweep worker died\n"); return 2; }

    std::map<std::string, long> outcomes;
    std::map<std::string, std::pair<long, long> > perPhase;   // total, bad
    long leaky = 0, maxLeak = 0, afterConstruct = 0;
    std::string bad, absorbed;
    for (size_t i = 0; i < ks.size(); ++i)
    {
        const unsigned long k = ks[i];
        const Slot& s = g_slots[k];
        outcomes[outcomeName[s.outcome]]++;
        int st = s.fired ? s.step : -2;
        std::string phase = st >= 0 && st < (int)steps.size() ? stepKind(steps[st].op) : (s.fired ? "destroy" : "none");
        const bool isBad = !(s.outcome == O_EXC || s.outcome == O_STATUS || s.outcome == O_ABSORBED);
        perPhase[phase].first++;
        if (isBad) perPhase[phase].second++;
        if (phase != "construct" && phase != "none") ++afterConstruct;
        if (s.leaked > 0) { ++leaky; maxLeak = std::max(maxLeak, s.leaked); }
        if (isBad) { if (!bad.empty()) bad += ","; bad += slotJson(s, (long)k, steps); }
        if (s.outcome == O_ABSORBED) { if (!absorbed.empty()) absorbed += ","; absorbed += std::to_string(k); }
    }
    js << ",\"forks\":" << sh->forks << ",\"order_dependent\":" << sh->orderDependent << ",\"rerun_alone_after_drift\":" << sh->renumbered << ",\"swept\":" << ks.size() << ",\"range\":[" << ks.front() << "," << ks.back() << "],\"after_construct\":" << afterConstruct << ",\"outcomes\":{";
    bool first = true;
    for (std::map<std::string, long>::iterator i = outcomes.begin(); i != outcomes.end(); ++i, first = false)
        js << (first ? "" : ",") << jstr(i->first) << ":" << i->second;
    js << "},\"per_phase\":{";
    first = true;
    for (std::map<std::string, std::pair<long, long> >::iterator i = perPhase.begin(); i != perPhase.end(); ++i, first = false)
        js << (first ? "" : ",") << jstr(i->first) << ":{\"total\":" << i->second.first << ",\"bad\":" << i->second.second << "}";
    js << "},\"leak_on_failure\":{\"ks\":" << leaky << ",\"max_blocks\":" << maxLeak << "},\"absorbed\":[" << absorbed << "],\"bad\":[" << bad << "]}";
    puts(js.str().c_str());
    return 0;
}
