#!/usr/bin/env python3
"""C03 libFuzzer engine: regression tier, campaigns (empty-start and seeded-start corpora), artifact triage,
non-triviality accounting, evidence/C03.fuzz.json.  Called by bin/check-c03-fuzz (which builds and snapshots).

  c03fuzz.py quick|thorough
  c03fuzz.py --replay FILE        (target from a /<target>/ path component or env C03_TARGET)

exit 0 held / 1 VIOLATION printed / 2 infrastructure problem.
env: VERIF_SEED (1), C03_BIN (directory with the four fuzz_* binaries and libxalan-c.so.112), VERIF_WORKERS (14),
     C03_BUDGET (seconds of fuzzing per campaign: 60 quick / 1000 thorough), C03_KEEP=1 keeps the scratch directory.
"""
import collections, glob, hashlib, json, os, re, shutil, signal, subprocess, sys, threading, time
from concurrent.futures import ThreadPoolExecutor

HERE = os.path.dirname(os.path.abspath(__file__))
VERIF = os.path.dirname(HERE)
sys.path.insert(0, os.path.join(VERIF, 'py'))
sys.path.insert(0, HERE)
from vf.drv import crash_signature  # noqa: E402
from vf import findings as findings_mod  # noqa: E402
import mkseed  # noqa: E402

PROP = 'C03'
TARGETS = ['fuzz_transform', 'fuzz_xpath', 'fuzz_source', 'fuzz_capi']
# worker processes per target: (empty-start, seeded-start); 14 in total, the seeded campaigns get the larger share
PLAN = {'fuzz_transform': (1, 3), 'fuzz_xpath': (1, 3), 'fuzz_source': (1, 2), 'fuzz_capi': (1, 2)}
MAXLEN = {'fuzz_transform': 4096, 'fuzz_capi': 4096, 'fuzz_xpath': 600, 'fuzz_source': 4096}
HANG_IS_FAILURE = ('fuzz_xpath', 'fuzz_source')
RULE = {
    'fuzz_transform': 'non-trivial = the stylesheet compiled AND the source parsed, i.e. the call reached template execution '
                      '(counter c_reached_execution), and not both sections were the built-in defaults',
    'fuzz_capi': 'same rule as fuzz_transform, through the C API',
    'fuzz_xpath': 'non-trivial = the expression compiled and was evaluated to a result without an exception (counter c_evaluated)',
    'fuzz_source': 'non-trivial = the document parsed in the chosen source form, so the fixed stylesheet ran over it (counter a_source_parsed)',
}
BIN = os.environ.get('C03_BIN') or os.path.join(os.environ.get('VERIF_BUILD', os.path.join(VERIF, 'build')), 'fuzz', 'fz')
SEED = int(os.environ.get('VERIF_SEED', '1') or 1)
WORKERS = int(os.environ.get('VERIF_WORKERS', '14'))
REGRESS = os.path.join(VERIF, 'regress', PROP)
PROPOSED = os.path.join(REGRESS, 'PROPOSED_FINDINGS.jsonl')


def open_finding_ids():
    """ids of the OPEN findings (known_findings.jsonl + PROPOSED_FINDINGS.jsonl, the former wins): only their pre-filters are active"""
    ids = {}
    for path in (PROPOSED, os.path.join(VERIF, 'known_findings.jsonl')):
        if os.path.exists(path):
            with open(path) as fh:
                for line in fh:
                    line = line.strip()
                    if line:
                        e = json.loads(line)
                        ids[e['id']] = e.get('status', 'open')
    return [i for i, st in ids.items() if st == 'open']


_children = set()
_children_lock = threading.Lock()
# fuzz_capi works on files in a per-process directory; a process that traps or is killed cannot remove it, so every
# process started by this runner gets its directory below one root that the runner removes when it ends
SHM_ROOT = '/dev/shm/c03fz.%d' % os.getpid()


def log(*a):
    print(*a, flush=True)


# ------------------------------------------------------------------------------------------------ processes
def target_env(extra=None, leak_stacks=False):
    env = dict(os.environ)
    asan = 'detect_leaks=1:abort_on_error=0:symbolize=1:detect_stack_use_after_return=0:quarantine_size_mb=32:malloc_context_size=%d' % (40 if leak_stacks else 12)
    if leak_stacks:
        asan += ':fast_unwind_on_malloc=0'
    env['ASAN_OPTIONS'] = asan
    env['UBSAN_OPTIONS'] = 'print_stacktrace=1:halt_on_error=1'
    env['LSAN_OPTIONS'] = 'suppressions=%s:print_suppressions=0' % os.path.join(HERE, 'lsan.supp')
    env['LC_ALL'] = 'C'
    env['TZ'] = 'UTC'
    if os.path.exists(os.path.join(BIN, 'libxalan-c.so.112')):
        env['LD_LIBRARY_PATH'] = BIN + (':' + env['LD_LIBRARY_PATH'] if env.get('LD_LIBRARY_PATH') else '')
    env.pop('C03_STATS_DIR', None)
    os.makedirs(SHM_ROOT, exist_ok=True)
    env['C03_TMPDIR'] = SHM_ROOT
    env.setdefault('C03_OPEN_FINDINGS', ','.join(sorted(open_finding_ids())))
    if extra:
        env.update(extra)
    return env


def run(cmd, env, timeout, stdout_path=None):
    """runs cmd in its own session; returns (rc or None on timeout, stderr+stdout text, seconds)"""
    t0 = time.time()
    out = open(stdout_path, 'wb') if stdout_path else subprocess.PIPE
    p = subprocess.Popen(cmd, stdin=subprocess.DEVNULL, stdout=out, stderr=subprocess.STDOUT, env=env, start_new_session=True)
    with _children_lock:
        _children.add(p)
    try:
        try:
            data, _ = p.communicate(timeout=timeout)
            rc = p.returncode
        except subprocess.TimeoutExpired:
            kill_group(p)
            data, _ = p.communicate()
            rc = None
    finally:
        with _children_lock:
            _children.discard(p)
        if stdout_path:
            out.close()
    if stdout_path:
        with open(stdout_path, 'rb') as f:
            data = f.read()
    data = data or b''
    if len(data) > 500000:  # keep the head (the report starts there) and the tail (summary, libFuzzer's verdict)
        data = data[:200000] + b'\n...[cut]...\n' + data[-300000:]
    return rc, data.decode('utf-8', 'replace'), time.time() - t0


def kill_group(p):
    try:
        os.killpg(p.pid, signal.SIGKILL)
    except Exception:
        try:
            p.kill()
        except Exception:
            pass


def kill_all():
    with _children_lock:
        ps = list(_children)
    for p in ps:
        kill_group(p)


# ------------------------------------------------------------------------------------------------ signatures
FRAME_RE = re.compile(r'^\s*#(\d+) 0x[0-9a-f]+ (?:in (.*?) )?(\(?/\S+?\)?)(?::(\d+))?(?::\d+)?(?: \(BuildId.*)?\s*$')
ALLOC_FRAME = re.compile(r'^(operator new|operator new\[\]|malloc|calloc|realloc|posix_memalign|__interceptor_|'
                         r'xercesc_\d+_\d+::MemoryManagerImpl::allocate|xercesc_\d+_\d+::XMemory::operator new|'
                         r'xalanc_\d+_\d+::XalanMemoryManager\w*::allocate|xalanc_\d+_\d+::XalanMemMgrs|'
                         r'xalanc_\d+_\d+::XalanAllocat\w*|xalanc_\d+_\d+::XalanAllocationGuard|'
                         # generic construction helpers, arenas and containers: the frame that asked them is the owner
                         r'(\w+ ?\*? ?)?xalanc_\d+_\d+::(XalanConstruct|XalanCopyConstruct|Arena\w*<|ReusableArena\w*<|'
                         r'Xalan(Vector|List|Map|Deque|Set|ArrayAllocator)<|XalanMemMgrAutoPtr|XalanAutoPtr))')


def simplify(fn):
    if not fn:
        return '?'
    fn = re.sub(r'\b(xalanc|xercesc)_\d+_\d+::', '', fn)
    depth = 0
    out = []
    for ch in fn:  # drop template arguments
        if ch == '<':
            depth += 1
        elif ch == '>':
            depth = max(0, depth - 1)
        elif depth == 0:
            out.append(ch)
    fn = ''.join(out)
    fn = fn.split('(')[0].strip()
    return fn.split(' ')[-1] if fn else '?'


def frames(text):
    r = []
    for line in text.splitlines():
        m = FRAME_RE.match(line)
        if m:
            r.append((m.group(2) or '', m.group(3)))
    return r


def frame_owner(fn, where):
    if '/src/xalanc/' in where or 'libxalan-c' in where:
        return 'xalan'
    if '/verif/fuzz/' in where or 'LLVMFuzzerTestOneInput' in fn:
        return 'harness'
    return 'system'


def first_xalan_function(text):
    for fn, where in frames(text):
        if frame_owner(fn, where) == 'xalan':
            return simplify(fn)
    return None


def classify_leak(text):
    """-> (owner, function, [system-only allocation functions]) ; owner in xalan|harness|system"""
    blocks = re.split(r'\n(?=(?:Direct|Indirect) leak of )', text)
    best = None
    system = []
    for b in blocks:
        if not re.match(r'(Direct|Indirect) leak of ', b):
            continue
        direct = b.startswith('Direct')
        fr = [f for f in frames(b.split('\n\n')[0]) if not ALLOC_FRAME.match(f[0]) and f[0]]
        if not fr:
            system.append('?')
            continue
        owner = frame_owner(*fr[0])
        name = simplify(fr[0][0])
        if owner == 'system':
            system.append(name)
            continue
        rank = (0 if owner == 'xalan' else 1, 0 if direct else 1)
        if best is None or rank < best[0]:
            best = (rank, owner, name)
    if best:
        return best[1], best[2], sorted(set(system))
    return 'system', (system[0] if system else '?'), sorted(set(system))


def signature(text):
    """line-number independent signature of one failed replay, or a (kind, detail) for non-failures"""
    m = re.search(r'^ORACLE: (.*)$', text, re.M)
    if m:
        return 'oracle:' + m.group(1).strip()
    if 'ERROR: libFuzzer: timeout' in text:
        return 'timeout'
    if 'ERROR: libFuzzer: out-of-memory' in text or 'AddressSanitizer: requested allocation size' in text \
            or 'AddressSanitizer: allocator is out of memory' in text or 'AddressSanitizer: out-of-memory' in text:
        return 'oom'
    if 'stack smashing detected' in text:
        return 'crash:stack-smashing @%s' % (first_xalan_function(text) or 'None')
    if re.search(r'AddressSanitizer: stack-overflow', text):
        c = collections.Counter(simplify(fn) for fn, where in frames(text) if frame_owner(fn, where) == 'xalan')
        top = sorted(c.items(), key=lambda kv: (-kv[1], kv[0]))
        return 'crash:asan:stack-overflow @%s' % (top[0][0] if top else 'None')
    m = re.search(r"terminate called after throwing an instance of '([^']+)'", text)
    if m:
        return "crash:terminate '%s' @%s" % (simplify(m.group(1) + '('), first_xalan_function(text) or 'None')
    if ('ERROR: LeakSanitizer' in text or re.search(r'SUMMARY: AddressSanitizer: \d+ byte\(s\) leaked', text)) and 'ERROR: AddressSanitizer' not in text and 'runtime error' not in text and 'Assertion' not in text:
        owner, fn, _ = classify_leak(text)
        return {'xalan': 'leak:', 'harness': 'leak-harness:', 'system': 'leak-system:'}[owner] + fn
    # addresses and the offending value of a float-cast report vary from input to input: normalise both
    text = re.sub(r'\b0x[0-9a-f]{4,}\b', 'N', text)
    text = re.sub(r'runtime error: (-?[0-9][0-9.]*(?:e[+-]?[0-9]+)?|-?nan|-?inf) is outside the range', 'runtime error: N is outside the range', text)
    return 'crash:' + crash_signature(text)


# ------------------------------------------------------------------------------------------------ findings
def load_findings():
    f = findings_mod.load()
    entries = [{k: v for k, v in e.items() if k != '_re'} for e in f.entries]
    known_ids = set(e['id'] for e in entries)
    if os.path.exists(PROPOSED):
        with open(PROPOSED) as fh:
            for line in fh:
                line = line.strip()
                if line and not line.startswith('#'):
                    e = json.loads(line)
                    if e['id'] not in known_ids:  # once merged into known_findings.jsonl that entry (and its status) wins
                        e['_proposed'] = True
                        entries.append(e)
    return findings_mod.Findings(entries)


# ------------------------------------------------------------------------------------------------ replay
def target_of(path):
    t = os.environ.get('C03_TARGET')
    if t:
        return t
    for part in reversed(os.path.abspath(path).split(os.sep)):
        if part in TARGETS:
            return part
    return None


def replay(target, path, leak_stacks=False, timeout_s=60):
    """one fresh process for one input.  Files called known-* are the repros of known findings: they run with the
    pre-filters of the targets switched off (C03_NO_FILTER=1), everything else runs exactly as in a campaign."""
    cmd = [os.path.join(BIN, target), '-timeout=%d' % timeout_s, '-rss_limit_mb=2048', '-malloc_limit_mb=1024', path]
    extra = {'C03_NO_FILTER': '1'} if os.path.basename(path).startswith('known-') else None
    rc, text, secs = run(cmd, target_env(extra, leak_stacks=leak_stacks), timeout_s + 60)
    if rc == 0:
        return 'pass', text, secs
    if rc is None:
        return 'timeout', text, secs
    sig = signature(text)
    if sig.startswith('leak') and not leak_stacks:
        return replay(target, path, True, timeout_s)
    return sig, text, secs


# ------------------------------------------------------------------------------------------------ campaigns
STATUS_RE = re.compile(r'^#(\d+)\s+(?:NEW|REDUCE|pulse|DONE|INITED|RELOAD)\s+cov: (\d+) ft: (\d+) corp: (\d+)', re.M)


class Group(object):
    """the workers of one (target, start) pair: shared corpus, artifact, stats and log directories"""

    def __init__(self, root, target, start, nworkers, seeds_dir, index0):
        self.target, self.start, self.n = target, start, nworkers
        self.dir = os.path.join(root, target, start)
        self.corpus = os.path.join(self.dir, 'corpus')
        self.art = os.path.join(self.dir, 'art')
        self.stats = os.path.join(self.dir, 'stats')
        self.logs = os.path.join(self.dir, 'logs')
        for d in (self.corpus, self.art, self.stats, self.logs):
            os.makedirs(d)
        self.seeds = seeds_dir if start == 'seeded' else None
        self.index0 = index0
        self.restarts = 0
        self.cov = self.ft = self.corp = 0
        self.leak_at_exit = []

    def worker(self, w, deadline, tmp):
        n = 0
        quick_deaths = 0
        while True:
            remaining = int(deadline - time.time())
            if remaining < (4 if n == 0 else 12):
                return  # a restarted process first re-runs the whole corpus, which libFuzzer does not interrupt
            seed = SEED * 1000 + self.index0 + w + 100 * n  # never 0: libFuzzer treats -seed=0 as "random"
            logp = os.path.join(self.logs, 'w%d.%d.log' % (w, n))
            cmd = [os.path.join(BIN, self.target), '-max_total_time=%d' % remaining, '-timeout=25', '-rss_limit_mb=2048',
                   '-malloc_limit_mb=1024', '-max_len=%d' % MAXLEN[self.target], '-entropic=0', '-print_final_stats=1',
                   '-dict=%s' % os.path.join(HERE, self.target + '.dict'), '-seed=%d' % seed,
                   '-print_funcs=0', '-artifact_prefix=%s/' % self.art, self.corpus]
            # libFuzzer's per-input leak check re-runs an input and does a LeakSanitizer pass whenever an input allocated
            # more than it freed.  For fuzz_xpath that is a third of all inputs (failed compilations stay in the evaluator's
            # factory until it is destroyed) and costs a factor 3-5 in speed: there only the empty-start worker and the
            # first seeded worker do it; every process still runs LeakSanitizer at exit.
            if self.target == 'fuzz_xpath' and self.start == 'seeded' and w > 0:
                cmd.insert(1, '-detect_leaks=0')
            if self.seeds:
                cmd.append(self.seeds)
            env = target_env({'C03_STATS_DIR': self.stats, 'C03_TMPDIR': tmp, 'TMPDIR': tmp})
            if self.seeds:
                env['C03_SEED_DIR'] = self.seeds
            t0 = time.time()
            rc, text, secs = run(cmd, env, remaining + 90, stdout_path=logp)
            for m in STATUS_RE.finditer(text):
                self.cov = max(self.cov, int(m.group(2)))
                self.ft = max(self.ft, int(m.group(3)))
                self.corp = max(self.corp, int(m.group(4)))
            if rc != 0 and 'ERROR: LeakSanitizer' in text and not re.search(r'Test unit written to \S*leak-', text) \
                    and 'ERROR: libFuzzer' not in text and 'AddressSanitizer:' not in text.replace('SUMMARY: AddressSanitizer', ''):
                owner, fn, _ = classify_leak(text)
                self.leak_at_exit.append('%s:%s' % (owner, fn))
            # a corpus unit that kills the process while the corpus is (re)loaded would be met again by every restart
            for m in re.finditer(r'Test unit written to \S*?/(?:crash|leak|timeout|oom)-([0-9a-f]{40})', text):
                try:
                    os.unlink(os.path.join(self.corpus, m.group(1)))
                except OSError:
                    pass
            n += 1
            self.restarts += 1
            quick_deaths = quick_deaths + 1 if time.time() - t0 < 3 else 0
            if quick_deaths >= 8:
                return  # something dies at start-up every time: leave the rest of the budget unused rather than spin


def read_stats(stats_dir):
    tot = collections.Counter()
    procs = 0
    for f in glob.glob(os.path.join(stats_dir, '*.stats.json')):
        try:
            d = json.load(open(f))
        except Exception:
            continue
        procs += 1
        for k, v in d.get('counters', {}).items():
            tot[k] += v
        tot['distinct_nontrivial_in_process_sum'] += d.get('distinct_nontrivial_in_process', 0)
    tot['processes'] = procs
    return tot


def read_hashes(stats_dir):
    """union of the hashes of the non-trivial inputs executed by the processes that wrote into stats_dir"""
    import array
    u = set()
    for f in glob.glob(os.path.join(stats_dir, '*.hashes.bin')):
        a = array.array('Q')
        with open(f, 'rb') as fh:
            data = fh.read()
        a.frombytes(data[:len(data) // 8 * 8])
        u.update(a)
    return u


def count_corpus(target, corpus_dir, out_dir, tmp):
    """runs every unit of a corpus once in counting mode; the non-trivial ones are counted by the target itself"""
    os.makedirs(out_dir, exist_ok=True)
    if not os.path.isdir(corpus_dir) or not os.listdir(corpus_dir):
        return collections.Counter()
    env = target_env({'C03_STATS_DIR': out_dir, 'C03_STATS_EVERY': '1', 'C03_TMPDIR': tmp, 'TMPDIR': tmp})
    env['ASAN_OPTIONS'] = env['ASAN_OPTIONS'].replace('detect_leaks=1', 'detect_leaks=0')
    run([os.path.join(BIN, target), '-runs=0', '-timeout=25', '-rss_limit_mb=2048', '-detect_leaks=0', corpus_dir], env, 600)
    return read_stats(out_dir)


# ------------------------------------------------------------------------------------------------ triage
class Triage(object):
    def __init__(self, known, pool, run_dir):
        self.known, self.pool, self.run_dir = known, pool, run_dir
        self.t_campaign = None   # set when fuzzing starts: artifacts get first_seen_s relative to it
        self.signatures = {}      # sig -> dict(count, known, target, files)
        self.known_seen = {}      # finding id -> entry
        self.violations = []      # (sig, replay path)
        self.flaky = []
        self.inconclusive = []
        self.ignored_system_leaks = collections.Counter()
        self.lines = []

    def add(self, target, path, origin):
        sig, text, _ = replay(target, path)
        if sig.startswith('leak'):
            _, _, system = classify_leak(text)
            for s in system:
                self.ignored_system_leaks[s] += 1
        return target, path, origin, sig, text

    def digest(self, items):
        """items: list of (target, path, origin).  Replays each once, groups by signature, judges each signature."""
        results = list(self.pool.map(lambda it: self.add(*it), items))
        groups = collections.OrderedDict()
        for target, path, origin, sig, text in results:
            if sig == 'pass':
                self.inconclusive.append({'what': 'artifact does not reproduce in a fresh process (state-dependent or flaky)',
                                          'target': target, 'file': os.path.basename(path), 'origin': origin})
                continue
            if sig in ('timeout', 'oom'):
                self.inconclusive.append({'what': sig + ' when replayed', 'target': target, 'file': os.path.basename(path), 'origin': origin})
                continue
            if sig.startswith('leak-system:'):
                self.inconclusive.append({'what': 'leak wholly inside a system library (ignored): ' + sig, 'target': target,
                                          'file': os.path.basename(path), 'origin': origin})
                continue
            groups.setdefault((target, sig), []).append((path, origin))
        to_judge = []
        for (target, sig), files in groups.items():
            files.sort(key=lambda f: (os.path.getsize(f[0]), f[0]))
            rec = self.signatures.setdefault(sig, {'count': 0, 'known': None, 'targets': [], 'origins': []})
            rec['count'] += len(files)
            if self.t_campaign is not None:
                seen = [os.path.getmtime(f) - self.t_campaign for f, o in files if o in ('empty', 'seeded')]
                if seen:
                    rec['first_seen_s'] = round(min([rec.get('first_seen_s', 1e9)] + seen), 1)
            if target not in rec['targets']:
                rec['targets'].append(target)
            for _, o in files:
                if o not in rec['origins']:
                    rec['origins'].append(o)
            m = self.known.match_any(sig)
            if m:
                rec['known'] = m['id']
                self.known_seen[m['id']] = m
                continue
            if sig.startswith('leak-harness:'):
                self.inconclusive.append({'what': 'leak allocated by the fuzz target itself (harness defect, please report): ' + sig,
                                          'target': target, 'file': os.path.basename(files[0][0])})
                continue
            if 'violation' not in rec and 'flaky' not in rec and not rec.get('judging'):
                rec['judging'] = True
                to_judge.append((target, sig, files[0][0], rec))
        # unknown signatures are judged in parallel (each: one minimization of at most 20 s and four replays)
        list(self.pool.map(lambda a: self.judge(*a), to_judge[:24]))
        for target, sig, path, rec in to_judge[24:]:
            self.inconclusive.append({'what': 'more than 24 unknown signatures in one batch; not judged: ' + sig, 'target': target, 'file': os.path.basename(path)})

    def judge(self, target, sig, path, rec):
        """unknown signature: minimize, replay three times, record a violation or a flaky item"""
        best = path
        if not sig.startswith('leak'):
            mind = os.path.join(self.run_dir, 'min')
            os.makedirs(mind, exist_ok=True)
            outp = os.path.join(mind, 'min-' + os.path.basename(path))
            run([os.path.join(BIN, target), '-minimize_crash=1', '-max_total_time=20', '-timeout=10', '-rss_limit_mb=2048',
                 '-exact_artifact_path=' + outp, path], target_env({'TMPDIR': self.run_dir}), 50)
            if os.path.exists(outp) and os.path.getsize(outp) <= os.path.getsize(path):
                s2, _, _ = replay(target, outp)
                if s2 == sig:
                    best = outp
        sigs = [replay(target, best)[0] for _ in range(3)]
        if sigs.count(sig) == 3:
            d = os.path.join(VERIF, 'replays', PROP, target)
            os.makedirs(d, exist_ok=True)
            name = re.sub(r'[^A-Za-z0-9]+', '-', sig)[:60].strip('-') + '-' + hashlib.sha1(open(best, 'rb').read()).hexdigest()[:10]
            dest = os.path.join(d, name)
            shutil.copyfile(best, dest)
            rec['violation'] = dest
            self.violations.append((sig, dest, target))
        else:
            rec['flaky'] = sigs
            self.flaky.append({'signature': sig, 'target': target, 'replays': sigs})


# ------------------------------------------------------------------------------------------------ main modes
def cmd_replay(path):
    target = target_of(path)
    if not target or not os.path.exists(path):
        log('cannot tell the target of %s (expected a /<target>/ path component or env C03_TARGET)' % path)
        return 2
    known = load_findings()
    hang = target in HANG_IS_FAILURE
    sig, text, secs = replay(target, path, timeout_s=60)
    if sig == 'pass':
        log('PASS %s (%s, %.1f s)' % (path, target, secs))
        return 0
    if sig in ('timeout', 'oom') and not (sig == 'timeout' and hang):
        log('INCONCLUSIVE %s: %s' % (path, sig))
        return 0
    if sig == 'timeout':
        sig = 'hang:' + target
    if sig.startswith('leak-system:'):
        log('PASS %s (leak wholly inside a system library, ignored: %s)' % (path, sig))
        return 0
    log('signature: ' + sig)
    m = known.match_any(sig)
    if m:
        log('KNOWN-FINDING: property=%s %s' % (m.get('property', PROP), m['what']))
        return 0
    sys.stdout.write(text[-6000:] + '\n')
    log('VIOLATION property=%s replay=%s' % (PROP, path))
    return 1


def cmd_campaign(tier):
    t_start = time.time()
    budget = int(os.environ.get('C03_BUDGET') or (60 if tier == 'quick' else 1000))
    for t in TARGETS:
        if not os.access(os.path.join(BIN, t), os.X_OK):
            log('missing target binary %s/%s' % (BIN, t))
            return 2
    run_dir = os.path.join(VERIF, '.scratch', 'c03', str(os.getpid()))
    shutil.rmtree(run_dir, ignore_errors=True)
    os.makedirs(run_dir)
    tmp = SHM_ROOT
    shutil.rmtree(tmp, ignore_errors=True)
    os.makedirs(tmp)
    known = load_findings()
    pool = ThreadPoolExecutor(max_workers=WORKERS)
    tri = Triage(known, pool, run_dir)
    rc = 2
    try:
        rc = campaign(tier, budget, run_dir, tmp, known, pool, tri, t_start)
    finally:
        kill_all()
        pool.shutdown(wait=False)
        shutil.rmtree(tmp, ignore_errors=True)
        if os.environ.get('C03_KEEP') != '1':
            shutil.rmtree(run_dir, ignore_errors=True)
            try:
                os.rmdir(os.path.dirname(run_dir))
            except OSError:
                pass
    return rc


def campaign(tier, budget, run_dir, tmp, known, pool, tri, t_start):
    seeds_root = os.path.join(run_dir, 'seeds')
    nseeds = mkseed.seeds(seeds_root)
    phases = collections.OrderedDict()
    mark = [time.time()]

    def phase(name):
        phases[name] = round(time.time() - mark[0], 1)
        mark[0] = time.time()

    # ---- 1. regression tier
    reg_items, reg_expect = [], {}
    for t in TARGETS:
        for f in sorted(glob.glob(os.path.join(REGRESS, t, '*'))):
            if os.path.isfile(f):
                reg_items.append((t, f))
    reg_results = list(pool.map(lambda it: (it, replay(it[0], it[1])[0]), reg_items))
    regress = {'files': len(reg_items), 'passed': 0, 'known_still_failing': 0, 'known_now_passing': [], 'failed': []}
    reg_fail_items = []
    for (t, f), sig in reg_results:
        base = os.path.basename(f)
        if sig == 'timeout' and t in HANG_IS_FAILURE:
            sig = 'hang:' + t
        if base.startswith('known-'):
            m = known.match_any(sig) if sig not in ('pass', 'timeout', 'oom') else None
            if m:
                regress['known_still_failing'] += 1
                tri.known_seen[m['id']] = m
                rec = tri.signatures.setdefault(sig, {'count': 0, 'known': m['id'], 'targets': [t], 'origins': []})
                rec['count'] += 1
                if 'regress' not in rec['origins']:
                    rec['origins'].append('regress')
            elif sig == 'pass':
                regress['known_now_passing'].append('%s/%s' % (t, base))
            elif sig in ('timeout', 'oom'):
                tri.inconclusive.append({'what': sig + ' in the regression tier', 'target': t, 'file': base})
            else:
                reg_fail_items.append((t, f, 'regress'))  # fails, but differently from every open finding
        elif sig == 'pass':
            regress['passed'] += 1
        elif sig in ('timeout', 'oom'):
            tri.inconclusive.append({'what': sig + ' in the regression tier', 'target': t, 'file': base})
        else:
            regress['failed'].append('%s/%s' % (t, base))
            reg_fail_items.append((t, f, 'regress'))
    if reg_fail_items:
        tri.digest(reg_fail_items)
    for n in regress['known_now_passing']:
        log('NOTE: regress/%s/%s no longer fails (finding fixed? update known_findings.jsonl)' % (PROP, n))

    phase('regression_tier')
    # ---- 2. seed triage: every seed must pass; one that does not is judged like an artifact and leaves the corpus
    seed_items = [(t, f) for t in TARGETS for f in sorted(glob.glob(os.path.join(seeds_root, t, '*')))]
    bad_seeds = []
    for (t, f), sig in pool.map(lambda it: (it, replay(it[0], it[1])[0]), seed_items):
        if sig != 'pass':
            dest = os.path.join(run_dir, 'badseeds', t)
            os.makedirs(dest, exist_ok=True)
            shutil.move(f, os.path.join(dest, os.path.basename(f)))
            bad_seeds.append((t, os.path.join(dest, os.path.basename(f)), 'seed'))
    if bad_seeds:
        tri.digest(bad_seeds)
    phase('seed_triage')
    t_campaign = time.time()
    tri.t_campaign = t_campaign

    # ---- 3. campaigns: all targets at once, each with an empty-start and a seeded-start group of workers
    groups = []
    idx = 1
    for t in TARGETS:
        for start, n in zip(('empty', 'seeded'), PLAN[t]):
            groups.append(Group(run_dir, t, start, n, os.path.join(seeds_root, t), idx))
            idx += n
    deadline = time.time() + budget
    threads = []
    for g in groups:
        for w in range(g.n):
            th = threading.Thread(target=g.worker, args=(w, deadline, tmp), daemon=True)
            th.start()
            threads.append(th)
    for th in threads:
        th.join()
    fuzz_wall = time.time() - t_campaign
    phase('fuzzing')

    # ---- 4. artifacts
    items, kinds = [], {}
    for g in groups:
        k = kinds.setdefault(g.target, collections.Counter())
        for f in sorted(os.listdir(g.art)):
            kind = f.split('-')[0]
            k[kind if kind in ('crash', 'leak', 'timeout', 'oom', 'slow') else 'other'] += 1
            p = os.path.join(g.art, f)
            if kind in ('crash', 'leak'):
                items.append((g.target, p, g.start))
            elif kind == 'timeout' and g.target in HANG_IS_FAILURE:
                items.append((g.target, p, g.start + ':timeout'))
            elif kind in ('timeout', 'oom', 'slow'):
                tri.inconclusive.append({'what': kind + ' artifact (not a verdict for this target)', 'target': g.target, 'file': f, 'origin': g.start,
                                         'input': mkseed.readable(g.target, open(p, 'rb').read(), 300)})
    hang_items = [it for it in items if it[2].endswith(':timeout')]
    tri.digest([it for it in items if not it[2].endswith(':timeout')])
    for t, p, origin in hang_items:
        cmd = [os.path.join(BIN, t), '-timeout=60', '-rss_limit_mb=2048', p]
        rc, text, secs = run(cmd, target_env(), 150)
        if rc == 0:
            tri.inconclusive.append({'what': 'timeout artifact finishes in %.0f s when run alone' % secs, 'target': t, 'file': os.path.basename(p)})
            continue
        sig = signature(text)
        if sig == 'timeout':
            sig = 'hang:' + t
            rec = tri.signatures.setdefault(sig, {'count': 0, 'known': None, 'targets': [t], 'origins': ['timeout']})
            rec['count'] += 1
            m = known.match_any(sig)
            if m:
                rec['known'] = m['id']
                tri.known_seen[m['id']] = m
            elif 'violation' not in rec:
                d = os.path.join(VERIF, 'replays', PROP, t)
                os.makedirs(d, exist_ok=True)
                dest = os.path.join(d, 'hang-' + hashlib.sha1(open(p, 'rb').read()).hexdigest()[:10])
                shutil.copyfile(p, dest)
                rec['violation'] = dest
                tri.violations.append((sig, dest, t))
        else:
            tri.digest([(t, p, origin)])

    phase('artifact_triage')
    # ---- 5. counters, corpus-based distinct counts, samples
    per_target = {}
    hashes = {}
    for g in groups:
        hashes[(g.target, g.start)] = read_hashes(g.stats)
    for t in TARGETS:
        merged = os.path.join(run_dir, t, 'merged')
        os.makedirs(merged)
        for g in groups:
            if g.target == t:
                for f in os.listdir(g.corpus):
                    if not os.path.exists(os.path.join(merged, f)):
                        shutil.copyfile(os.path.join(g.corpus, f), os.path.join(merged, f))
    excluded_total = collections.Counter()
    for t in TARGETS:
        pt = {'rule': RULE[t], 'campaigns': {}, 'artifacts': dict(kinds.get(t, {})), 'excluded_by_filter': {}}
        tot = collections.Counter()
        for g in groups:
            if g.target != t:
                continue
            st = read_stats(g.stats)
            tot.update(st)
            ex = st.get('execs', 0)
            pt['campaigns'][g.start] = {
                'workers': g.n, 'process_starts': g.restarts, 'execs': ex, 'execs_per_s': round(ex / max(fuzz_wall, 1), 1),
                'nontrivial_execs': st.get('nontrivial', 0), 'nontrivial_fraction': round(st.get('nontrivial', 0) / ex, 4) if ex else 0,
                'cov': g.cov, 'ft': g.ft, 'corpus_units_final': len(os.listdir(g.corpus)),
                'distinct_nontrivial': len(hashes[(t, g.start)]),
                'leak_reports_at_exit_without_reproducer': sorted(set(g.leak_at_exit)),
            }
            for x in g.leak_at_exit:
                if not x.startswith('system:'):
                    tri.inconclusive.append({'what': 'LeakSanitizer report at process exit without a reproducing input: ' + x, 'target': t, 'origin': g.start})
        pt['execs'] = tot.get('execs', 0)
        pt['execs_nontrivial'] = {k: v for k, v in sorted(tot.items()) if re.match(r'^(a_|b_|c_|c2_|error_with_message|ok|nontrivial$)', k)}
        pt['other_counters'] = {k: v for k, v in sorted(tot.items())
                                if k not in pt['execs_nontrivial'] and not k.startswith('excluded_by_filter') and k not in ('execs', 'processes', 'distinct_nontrivial_in_process_sum')}
        pt['distinct_nontrivial'] = len(set().union(*[h for (tt, _), h in hashes.items() if tt == t]))
        pt['distinct_nontrivial_how'] = ('size of the union, over all processes of the target, of the 64-bit FNV-1a hashes of the inputs that were non-trivial by the rule; '
                                         'each target appends the hashes it has not seen before to a file next to its counters (conservative: the last <256 iterations '
                                         'of a process that dies are lost, and a process stops recording after 131072 distinct hashes)')
        pt['distinct_nontrivial_in_process_sum'] = tot.get('distinct_nontrivial_in_process_sum', 0)
        for k, v in tot.items():
            if k.startswith('excluded_by_filter:'):
                pt['excluded_by_filter'][k.split(':', 1)[1]] = v
                excluded_total[k.split(':', 1)[1]] += v
        merged = os.path.join(run_dir, t, 'merged')
        names = sorted(os.listdir(merged))
        picks = [names[(i * len(names)) // 5] for i in range(5)] if len(names) >= 5 else names
        pt['samples'] = [mkseed.readable(t, open(os.path.join(merged, n), 'rb').read(), 400) for n in picks]
        per_target[t] = pt

    phase('accounting')
    # ---- 6. verdict
    for fid, m in sorted(tri.known_seen.items()):
        log('KNOWN-FINDING: property=%s %s' % (m.get('property', PROP), m['what']))
    for sig, dest, t in tri.violations:
        r = tri.signatures.get(sig, {})
        log('violation signature: %s (%s; origins %s; first seen %s s into the campaign)' % (sig, t, ','.join(r.get('origins', [])), r.get('first_seen_s', '-')))
        log('VIOLATION property=%s replay=%s' % (PROP, dest))
    for f in tri.flaky:
        log('FLAKY (not a violation): %s on %s reproduced %d/3' % (f['signature'], f['target'], f['replays'].count(f['signature'])))
    wall = time.time() - t_start
    total_execs = sum(p['execs'] for p in per_target.values())
    ev = {
        'property_id': PROP, 'engine': 'libFuzzer (clang-14) + ASan + UBSan + LSan, oracle inside the targets', 'tier': tier, 'seed': SEED,
        'wall_s': round(wall, 1), 'fuzzing_wall_s': round(fuzz_wall, 1), 'budget_s_per_campaign': budget, 'phases_s': phases, 'workers': sum(sum(v) for v in PLAN.values()),
        'seeds_written': nseeds, 'seeds_failing': [os.path.basename(b[1]) for b in bad_seeds], 'regression_tier': regress,
        'evaluations': total_execs, 'distinct_nontrivial': sum(p['distinct_nontrivial'] for p in per_target.values()),
        'targets': per_target,
        'signatures': {s: {k: v for k, v in r.items()} for s, r in sorted(tri.signatures.items())},
        'known_findings_observed': sorted(tri.known_seen), 'violations': [{'signature': s, 'replay': d, 'target': t} for s, d, t in tri.violations],
        'flaky': tri.flaky, 'excluded_by_filter': dict(excluded_total),
        'ignored_system_library_leaks': dict(tri.ignored_system_leaks),
        'inconclusive': tri.inconclusive[:200], 'inconclusive_count': len(tri.inconclusive),
        'reproducibility': 'libFuzzer is only approximately reproducible for a given VERIF_SEED (timing decides how far each process gets and '
                           'what it reloads from the shared corpus); the saved artifact is the reproducible unit',
    }
    edir = os.environ.get('VERIF_EVIDENCE_DIR', os.path.join(VERIF, 'evidence'))
    os.makedirs(edir, exist_ok=True)
    with open(os.path.join(edir, 'C03.fuzz.json'), 'w') as f:
        json.dump(ev, f, indent=1, sort_keys=False, default=str)
        f.write('\n')
    for t in TARGETS:
        p = per_target[t]
        log('%-15s execs=%d nontrivial=%d distinct_nontrivial=%d artifacts=%s excluded=%s' % (
            t, p['execs'], p['execs_nontrivial'].get('nontrivial', 0), p['distinct_nontrivial'], dict(p['artifacts']), p['excluded_by_filter']))
        for s, c in p['campaigns'].items():
            log('   %-7s workers=%d starts=%d execs=%d (%.0f/s) nontrivial=%.1f%% cov=%d ft=%d corpus=%d distinct non-trivial inputs=%d' % (
                s, c['workers'], c['process_starts'], c['execs'], c['execs_per_s'], 100 * c['nontrivial_fraction'], c['cov'], c['ft'],
                c['corpus_units_final'], c['distinct_nontrivial']))
    log('phases (s): ' + ' '.join('%s=%s' % kv for kv in phases.items()))
    log('C03 fuzz %s seed=%d: %d execs, %d signatures (%d known findings observed), %d violations, %d flaky, %d inconclusive, wall %.0f s' % (
        tier, SEED, total_execs, len(tri.signatures), len(tri.known_seen), len(tri.violations), len(tri.flaky), len(tri.inconclusive), wall))
    if total_execs == 0:
        log('no executions at all: infrastructure problem')
        return 2
    return 1 if tri.violations else 0


def main():
    signal.signal(signal.SIGTERM, lambda *a: (kill_all(), shutil.rmtree(SHM_ROOT, ignore_errors=True), os._exit(2)))
    if len(sys.argv) >= 3 and sys.argv[1] == '--replay':
        return cmd_replay(sys.argv[2])
    if len(sys.argv) >= 2 and sys.argv[1] in ('quick', 'thorough'):
        return cmd_campaign(sys.argv[1])
    log(__doc__)
    return 2


if __name__ == '__main__':
    rc = 2
    try:
        rc = main()
    except KeyboardInterrupt:
        kill_all()
    finally:
        shutil.rmtree(SHM_ROOT, ignore_errors=True)
    sys.exit(rc)
