// fuzz_capi: the same job as fuzz_transform, through the C API (XalanCAPI.h), oracle inside.
//
// Byte layout: identical to fuzz_transform (pack with fuzz/mkseed.py):
//   <stylesheet> \\ <sep> <source> \\ <sep> <param name> \\ <sep> <param value .......> optB optA
//   optA  bits 0-2  form   0 XalanTransformToData(files)      1 XalanTransformToHandler(files)   2 XalanTransformToFile(files)
//                          3 CompileStylesheetFromStream + ParseSourceFromStream + ToDataPrebuilt
//                          4 ... FromStream + ToHandlerPrebuilt 5 CompileStylesheet(file) + ParseSource(file) + ToFilePrebuilt
//                          6 as 3, 7 as 0 with the stylesheet named by an xml-stylesheet PI (theXSLFileName == NULL)
//         bit  3    a stylesheet parameter is set     bits 4-5 how: 0 XalanSetStylesheetParam 1 ...UTF 2 ...Number 3 ...UTFNumber
//         bit  6    fresh handle for this input (else the long-lived handle of the process)
//         bit  7    the source is wrapped in 200 levels of <n>
//   optB  bit 0     the parsed source of the job is also passed as a node-set parameter "fzns" (prebuilt forms only)
// The file forms work on real files in a per-process directory on /dev/shm; inc.xsl / doc.xml / ent.dtd exist there too.
#include "fz_common.hpp"

#include <fstream>
#include <sstream>
#include <dirent.h>

#include <xalanc/XalanTransformer/XalanCAPI.h>

using namespace fz;

namespace
{
std::string g_dir;
XalanHandle g_long = 0;
unsigned long g_longUses = 0;
XalanHandle g_classifier = 0;

void writeFile(const std::string& path, const std::string& data)
{
    std::ofstream f(path.c_str(), std::ios::binary | std::ios::trunc);
    f.write(data.data(), data.size());
}
bool readFile(const std::string& path, std::string& data)
{
    std::ifstream f(path.c_str(), std::ios::binary);
    if (!f) return false;
    std::ostringstream ss;
    ss << f.rdbuf();
    data = ss.str();
    return true;
}
void removeDir()
{
    if (g_dir.empty()) return;
    if (DIR* d = opendir(g_dir.c_str()))
    {
        while (dirent* e = readdir(d))
            if (e->d_name[0] != '.') unlink((g_dir + "/" + e->d_name).c_str());
        closedir(d);
    }
    rmdir(g_dir.c_str());
}
struct Sink
{
    std::string data;
    unsigned long flushes;
    Sink() : flushes(0) {}
};
extern "C" CallbackSizeType capiWrite(const char* d, CallbackSizeType n, void* h)
{
    ((Sink*)h)->data.append(d, n);
    return n;
}
extern "C" void capiFlush(void* h) { ((Sink*)h)->flushes++; }

void checkStatus(const char* what, int rc, XalanHandle h, const char* counter = "error_with_message")
{
    const char* err = XalanGetLastError(h);
    if (err == 0) oracleFail(std::string(what) + ": XalanGetLastError() returned a null pointer");
    if (rc != 0)
    {
        if (err[0] == '\0') oracleFail(std::string(what) + ": rc!=0 with empty error message", "rc=" + std::to_string(rc));
        count(counter);
    }
}
std::vector<XalanUTF16Char> utf16(const std::string& s)
{
    xalanc::XalanDOMString d = dom(s);
    std::vector<XalanUTF16Char> v(d.c_str(), d.c_str() + d.length());
    v.push_back(0);
    return v;
}
void followUp(XalanHandle h, const char* after)
{
    XalanClearStylesheetParams(h);
    XalanSetStylesheetParam("fzq", "3+4", h);
    XalanCSSHandle css = 0;
    XalanPSHandle ps = 0;
    int rc = XalanCompileStylesheetFromStream(FOLLOW_XSL, strlen(FOLLOW_XSL), h, &css);
    if (rc == 0) rc = XalanParseSourceFromStream(FOLLOW_XML, strlen(FOLLOW_XML), h, &ps);
    char* out = 0;
    if (rc == 0) rc = XalanTransformToDataPrebuilt(ps, css, &out, h);
    if (rc != 0)
        oracleFail(std::string("transformer unusable after ") + after + ": follow-up transformation failed",
                   std::string("rc=") + std::to_string(rc) + " err=" + (XalanGetLastError(h) ? XalanGetLastError(h) : "<null>"));
    if (out == 0 || strcmp(out, FOLLOW_EXPECT) != 0)
        oracleFail(std::string("transformer unusable after ") + after + ": follow-up transformation gave wrong output", out ? out : "<null>");
    XalanFreeData(out);
    if (XalanDestroyParsedSource(ps, h) != 0 || XalanDestroyCompiledStylesheet(css, h) != 0)
        oracleFail("destroying the follow-up's stylesheet / source failed");
    XalanClearStylesheetParams(h);
}
// known finding pre-filters (see README, "Exclusions"); returns the counter name or 0
const char* excluded(const std::string& xsl, const std::string& xml)
{
    if (filtersOff()) return 0;
    if (filterActive("F-C03-icu-converter-name") && (hasNonAsciiEncodingAttribute(xsl))) return "excluded_by_filter:F-C03-icu-converter-name";
    // F-C03-exslt-padding-nan: str:padding() converts its length argument to an unsigned integer without a range check
    if (filterActive("F-C03-exslt-padding-nan") && (contains(xsl, "padding("))) return "excluded_by_filter:F-C03-exslt-padding-nan";
    // F-C03-assert-nametest-empty-local (Debug-only assertion): xsl:strip-space / preserve-space elements="p:"
    if (filterActive("F-C03-assert-nametest-empty-local") && (hasNameTestEndingInColon(xsl))) return "excluded_by_filter:F-C03-assert-nametest-empty-local";
    // F-C03-assert-indtd (Debug-only assertion): element content reported while the internal DTD subset is still open
    if (filterActive("F-C03-assert-indtd") && (hasUnclosedInternalSubset(xml))) return "excluded_by_filter:F-C03-assert-indtd";
    return 0;
}
}  // namespace

extern "C" int LLVMFuzzerInitialize(int*, char***)
{
    if (XalanInitialize() != 0) { fprintf(stderr, "XalanInitialize failed\n"); _exit(3); }
    const char* base = getenv("C03_TMPDIR");
    g_dir = (base && *base) ? std::string(base) + "/capi." + std::to_string((long)getpid()) : "/dev/shm/c03fz." + std::to_string((long)getpid());
    mkdir(g_dir.c_str(), 0700);
    atexit(removeDir);
    writeFile(g_dir + "/inc.xsl", RES_INC_XSL);
    writeFile(g_dir + "/doc.xml", RES_DOC_XML);
    writeFile(g_dir + "/ent.dtd", RES_ENT_DTD);
    return 0;
}

extern "C" int LLVMFuzzerTestOneInput(const uint8_t* data, size_t size)
{
    beginIteration("fuzz_capi");
    FuzzedDataProvider fdp(data, size);
    const unsigned optA = fdp.ConsumeIntegral<uint8_t>();
    const unsigned optB = fdp.ConsumeIntegral<uint8_t>();
    std::string xsl = fdp.ConsumeRandomLengthString();
    std::string xml = fdp.ConsumeRandomLengthString();
    const std::string pname = stripNul(fdp.ConsumeRandomLengthString());
    const std::string pvalue = stripNul(fdp.ConsumeRemainingBytesAsString());
    const bool bothDefault = xsl.empty() && xml.empty();
    if (xsl.empty()) { xsl = DEFAULT_XSL; count("default_stylesheet"); }
    if (xml.empty()) { xml = DEFAULT_XML; count("default_source"); }
    if (optA & 0x80) xml = nestXml(xml, 200);
    if (const char* why = excluded(xsl, xml)) { count(why); return 0; }

    unsigned form = optA & 7;
    const bool viaPI = form == 7;
    if (form == 6) form = 3;
    if (form == 7) form = 0;
    if (viaPI)
    {
        // the stylesheet is found through the processing instruction; documents with a prolog are left alone
        if (xml.compare(0, 2, "<?") != 0 && xml.compare(0, 2, "<!") != 0)
            xml = "<?xml-stylesheet type='text/xsl' href='main.xsl'?>" + xml;
        count("stylesheet_pi_form");
    }

    XalanHandle h;
    const bool fresh = (optA & 0x40) != 0;
    if (fresh) { h = CreateXalanTransformer(); count("fresh_transformer"); }
    else
    {
        if (g_long != 0 && g_longUses >= 2000) { DeleteXalanTransformer(g_long); g_long = 0; }
        if (g_long == 0) { g_long = CreateXalanTransformer(); g_longUses = 0; }
        ++g_longUses;
        h = g_long;
    }
    if (h == 0) oracleFail("CreateXalanTransformer returned a null handle");

    XalanClearStylesheetParams(h);
    if (optA & 8)
    {
        count("param_set");
        switch ((optA >> 4) & 3)
        {
        case 0: XalanSetStylesheetParam(pname.c_str(), pvalue.c_str(), h); break;
        case 1: { std::vector<XalanUTF16Char> k = utf16(pname), v = utf16(pvalue); XalanSetStylesheetParamUTF(&k[0], &v[0], h); break; }
        case 2: XalanSetStylesheetParamNumber(pname.c_str(), strtod(pvalue.c_str(), 0), h); break;
        default: { std::vector<XalanUTF16Char> k = utf16(pname); XalanSetStylesheetParamUTFNumber(&k[0], strtod(pvalue.c_str(), 0), h); break; }
        }
    }

    const std::string xmlFile = g_dir + "/main.xml", xslFile = g_dir + "/main.xsl", outFile = g_dir + "/out.bin";
    int rc = 0;
    bool wellformed = false, compiled = false, reached = false;
    size_t outSize = 0;
    if (form <= 2)
    {
        writeFile(xmlFile, xml);
        writeFile(xslFile, xsl);
        const char* const xslName = viaPI ? (const char*)0 : xslFile.c_str();
        if (form == 0)
        {
            char* out = 0;
            rc = XalanTransformToData(xmlFile.c_str(), xslName, &out, h);
            checkStatus("XalanTransformToData", rc, h);
            if (rc == 0 && out == 0) oracleFail("XalanTransformToData: rc==0 but no data");
            if (rc == 0) { outSize = strlen(out); XalanFreeData(out); }
        }
        else if (form == 1)
        {
            Sink s;
            rc = XalanTransformToHandler(xmlFile.c_str(), xslFile.c_str(), h, &s, capiWrite, capiFlush);
            checkStatus("XalanTransformToHandler", rc, h);
            outSize = s.data.size();
        }
        else
        {
            unlink(outFile.c_str());
            rc = XalanTransformToFile(xmlFile.c_str(), xslFile.c_str(), outFile.c_str(), h);
            checkStatus("XalanTransformToFile", rc, h);
            std::string o;
            if (rc == 0 && !readFile(outFile, o)) oracleFail("XalanTransformToFile: rc==0 but no output file");
            outSize = o.size();
        }
        if (rc == 0) wellformed = compiled = reached = true;
    }
    else
    {
        XalanCSSHandle css = 0;
        XalanPSHandle ps = 0;
        if (form == 5)
        {
            writeFile(xmlFile, xml);
            writeFile(xslFile, xsl);
            rc = XalanCompileStylesheet(xslFile.c_str(), h, &css);
            checkStatus("XalanCompileStylesheet", rc, h);
        }
        else
        {
            rc = XalanCompileStylesheetFromStream(xsl.data(), xsl.size(), h, &css);
            checkStatus("XalanCompileStylesheetFromStream", rc, h);
        }
        if (rc == 0 && css == 0) oracleFail("XalanCompileStylesheet*: rc==0 but no handle");
        wellformed = rc != -2 && rc != -3;
        compiled = rc == 0;
        if (rc == 0)
        {
            if (form == 5) rc = XalanParseSource(xmlFile.c_str(), h, &ps);
            else rc = XalanParseSourceFromStream(xml.data(), xml.size(), h, &ps);
            checkStatus("XalanParseSource*", rc, h);
            if (rc == 0 && ps == 0) oracleFail("XalanParseSource*: rc==0 but no handle");
        }
        if (rc == 0)
        {
            reached = true;
            if (optB & 1) { XalanSetStylesheetParamNodeset("fzns", ps, h); count("nodeset_param"); }
            if (form == 3)
            {
                char* out = 0;
                rc = XalanTransformToDataPrebuilt(ps, css, &out, h);
                checkStatus("XalanTransformToDataPrebuilt", rc, h);
                if (rc == 0 && out == 0) oracleFail("XalanTransformToDataPrebuilt: rc==0 but no data");
                if (rc == 0) { outSize = strlen(out); XalanFreeData(out); }
            }
            else if (form == 4)
            {
                Sink s;
                rc = XalanTransformToHandlerPrebuilt(ps, css, h, &s, capiWrite, capiFlush);
                checkStatus("XalanTransformToHandlerPrebuilt", rc, h);
                outSize = s.data.size();
            }
            else
            {
                unlink(outFile.c_str());
                rc = XalanTransformToFilePrebuilt(ps, css, outFile.c_str(), h);
                checkStatus("XalanTransformToFilePrebuilt", rc, h);
                std::string o;
                if (rc == 0 && !readFile(outFile, o)) oracleFail("XalanTransformToFilePrebuilt: rc==0 but no output file");
                outSize = o.size();
            }
            XalanClearStylesheetParams(h);  // the node-set parameter must not outlive the parsed source
        }
        if (ps && XalanDestroyParsedSource(ps, h) != 0) oracleFail("XalanDestroyParsedSource failed for a handle the API returned");
        if (css && XalanDestroyCompiledStylesheet(css, h) != 0) oracleFail("XalanDestroyCompiledStylesheet failed for a handle the API returned");
    }

    // ---- counters (exact: a failed file-form call is classified on a separate handle)
    if (form <= 2 && rc != 0)
    {
        if (g_classifier == 0) g_classifier = CreateXalanTransformer();
        XalanCSSHandle css = 0;
        XalanPSHandle ps = 0;
        // the PI form may name any stylesheet: classify with the one it would normally find
        const int c = XalanCompileStylesheet(xslFile.c_str(), g_classifier, &css);
        checkStatus("XalanCompileStylesheet", c, g_classifier, "classifier_errors");
        wellformed = c != -2 && c != -3;
        compiled = c == 0;
        if (c == 0)
        {
            const int p = XalanParseSource(xmlFile.c_str(), g_classifier, &ps);
            checkStatus("XalanParseSource", p, g_classifier, "classifier_errors");
            reached = p == 0;
        }
        if (ps) XalanDestroyParsedSource(ps, g_classifier);
        if (css) XalanDestroyCompiledStylesheet(css, g_classifier);
    }
    if (wellformed) count("a_stylesheet_wellformed_xml");
    if (compiled) count("b_stylesheet_compiled");
    if (reached) count("c_reached_execution");
    if (reached && !bothDefault) nontrivial(data, size);  // THE non-triviality rule of this target
    if (rc == 0) count("ok");
    if (rc == 0 && outSize != 0) count("ok_nonempty_output");

    followUp(h, rc == 0 ? "a successful call" : "a failed call");
    if (fresh) DeleteXalanTransformer(h);
    return 0;
}

extern "C" size_t LLVMFuzzerCustomMutator(uint8_t* data, size_t size, size_t maxSize, unsigned int seed)
{
    return fz::mutateInsideMarkup(data, size, maxSize, seed, 2);
}
