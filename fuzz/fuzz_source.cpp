// fuzz_source: document bytes -> every way of handing a source document to XalanTransformer, then a fixed
// identity-ish stylesheet over it when parsing succeeded.  Oracle inside.
//
// Byte layout (pack with fuzz/mkseed.py):   <document bytes ........> opt
//   opt is the LAST byte.  low 3 bits, modulo 6: the source form
//        0 parseSource(native source tree)          1 parseSource(useXercesDOM = true)
//        2 XercesDOMParser + XercesDOMWrapperParsedSource      3 XalanSourceTreeParserLiaison + XalanSourceTreeWrapperParsedSource
//        4 SAX2 reader feeding a XalanDocumentBuilder           5 transform(stream, compiled stylesheet) without a parsed source
//   bit 3: fresh XalanTransformer   bit 4: wrap the document in 200 levels of <n>   bit 5: validation on (setUseValidation)
//   bit 6: the second fixed stylesheet (keys, ids, sorting, numbering, strip-space) instead of the identity one
#include "fz_transform_common.hpp"

#include <memory>

#include <xercesc/parsers/XercesDOMParser.hpp>
#include <xercesc/sax/SAXException.hpp>
#include <xercesc/sax/SAXParseException.hpp>
#include <xercesc/sax2/SAX2XMLReader.hpp>
#include <xercesc/sax2/XMLReaderFactory.hpp>
#include <xercesc/dom/DOMException.hpp>
#include <xercesc/util/XMLException.hpp>
#include <xercesc/util/XMLUni.hpp>

#include <xalanc/PlatformSupport/XSLException.hpp>
#include <xalanc/XalanDOM/XalanDOMException.hpp>
#include <xalanc/XalanTransformer/XalanDocumentBuilder.hpp>
#include <xalanc/XalanTransformer/XercesDOMWrapperParsedSource.hpp>
#include <xalanc/XalanTransformer/XalanSourceTreeWrapperParsedSource.hpp>
#include <xalanc/XalanSourceTree/XalanSourceTreeDocument.hpp>
#include <xalanc/XalanSourceTree/XalanSourceTreeDOMSupport.hpp>
#include <xalanc/XalanSourceTree/XalanSourceTreeParserLiaison.hpp>
#include <xalanc/XercesParserLiaison/XercesDOMSupport.hpp>
#include <xalanc/XercesParserLiaison/XercesParserLiaison.hpp>

using namespace xalanc;
using namespace fz;

namespace
{
const char* const XSL_IDENTITY =
    "<xsl:stylesheet version='1.0' xmlns:xsl='http://www.w3.org/1999/XSL/Transform'>"
    "<xsl:template match='@*|node()'><xsl:copy><xsl:apply-templates select='@*|node()'/></xsl:copy></xsl:template>"
    "<xsl:template match='/'><r n='{count(//node())}' a='{count(//@*)}' ns='{count(//namespace::*)}'><xsl:apply-templates/></r></xsl:template>"
    "</xsl:stylesheet>";
const char* const XSL_RICH =
    "<xsl:stylesheet version='1.0' xmlns:xsl='http://www.w3.org/1999/XSL/Transform'>"
    "<xsl:output method='xml' indent='yes' cdata-section-elements='c'/><xsl:strip-space elements='*'/>"
    "<xsl:key name='k' match='*' use='name()'/><xsl:key name='a' match='@*' use='.'/>"
    "<xsl:template match='/'><r><xsl:for-each select='(//*)[position() &lt; 25]'><xsl:sort select='name()'/><xsl:sort select='string-length(.)' data-type='number'/>"
    "<e n='{name()}' u='{namespace-uri()}' g='{generate-id()=generate-id(key(\"k\",name())[1])}' l='{lang(\"en\")}'>"
    "<xsl:number level='multiple' count='*' format='1.1'/><xsl:value-of select='count(id(@*))'/></e></xsl:for-each>"
    "<c><xsl:value-of select='normalize-space(.)'/></c><xsl:copy-of select='(//comment()|//processing-instruction()|//text())[position() &lt; 9]'/>"
    "<xsl:value-of select='count(key(\"a\",string(//@*[1])))'/><xsl:value-of select='unparsed-entity-uri(name(/*))'/></r></xsl:template>"
    "</xsl:stylesheet>";

MemResolver* g_resolver = 0;
XalanTransformer* g_long = 0;
unsigned long g_longUses = 0;
const XalanCompiledStylesheet* g_longCss[2] = { 0, 0 };

XalanTransformer* newTransformer()
{
    XalanTransformer* t = new XalanTransformer;
    t->setWarningStream(0);
    t->setEntityResolver(g_resolver);
    return t;
}
const XalanCompiledStylesheet* compile(XalanTransformer& t, const char* text)
{
    std::istringstream s(text);
    XSLTInputSource in(&s);
    const XalanCompiledStylesheet* c = 0;
    if (t.compileStylesheet(in, c) != 0 || c == 0) oracleFail("the fixed stylesheet of fuzz_source does not compile", t.getLastError());
    return c;
}
// the wrapper / builder forms are driven by the harness with Xerces directly: failures of THAT step surface as the
// documented Xerces / Xalan exception kinds
template <class F> bool parseStep(F fn)
{
    try { fn(); return true; }
    catch (const XSLException&) { count("wrapper_parse_error"); }
    catch (const xercesc::SAXException&) { count("wrapper_parse_error"); }
    catch (const xercesc::XMLException&) { count("wrapper_parse_error"); }
    catch (const xercesc::DOMException&) { count("wrapper_parse_error"); }
    catch (const XalanDOMException&) { count("wrapper_parse_error"); }
    return false;
}
struct ThrowingHandler : public xercesc::ErrorHandler
{
    virtual void warning(const xercesc::SAXParseException&) {}
    virtual void error(const xercesc::SAXParseException& e) { throw xercesc::SAXParseException(e); }
    virtual void fatalError(const xercesc::SAXParseException& e) { throw xercesc::SAXParseException(e); }
    virtual void resetErrors() {}
};
const char* excluded(unsigned form, const std::string& xml)
{
    if (filtersOff()) return 0;
    // F-C03-xerces-dom-xmlversion: parseSource(useXercesDOM) lets xercesc::DOMException escape for <?xml version="1.5"?>
    if (filterActive("F-C03-xerces-dom-xmlversion") && (form == 1 && hasOddXmlVersion(xml))) return "excluded_by_filter:F-C03-xerces-dom-xmlversion";
    // F-C03-assert-indtd (Debug-only assertion in the native source tree builder): internal DTD subset never closed
    if (filterActive("F-C03-assert-indtd") && (form != 1 && form != 2 && hasUnclosedInternalSubset(xml))) return "excluded_by_filter:F-C03-assert-indtd";
    return 0;
}
}  // namespace

extern "C" int LLVMFuzzerInitialize(int*, char***)
{
    xercesc::XMLPlatformUtils::Initialize();
    XalanTransformer::initialize();
    g_resolver = new MemResolver;
    return 0;
}

extern "C" int LLVMFuzzerTestOneInput(const uint8_t* data, size_t size)
{
    beginIteration("fuzz_source");
    const unsigned opt = size ? data[size - 1] : 0;
    std::string xml((const char*)data, size ? size - 1 : 0);
    if (opt & 0x10) xml = nestXml(xml, 200);
    const unsigned form = (opt & 7) % 6;
    if (const char* why = excluded(form, xml)) { count(why); return 0; }

    std::unique_ptr<XalanTransformer> freshHolder;
    XalanTransformer* t;
    const XalanCompiledStylesheet* css;
    const unsigned which = (opt & 0x40) ? 1 : 0;
    if (opt & 8)
    {
        freshHolder.reset(newTransformer());
        t = freshHolder.get();
        css = compile(*t, which ? XSL_RICH : XSL_IDENTITY);
        count("fresh_transformer");
    }
    else
    {
        if (g_long != 0 && g_longUses >= 2000) { delete g_long; g_long = 0; }
        if (g_long == 0)
        {
            g_long = newTransformer();
            g_longUses = 0;
            g_longCss[0] = compile(*g_long, XSL_IDENTITY);
            g_longCss[1] = compile(*g_long, XSL_RICH);
        }
        ++g_longUses;
        t = g_long;
        css = g_longCss[which];
    }
    t->setUseValidation((opt & 0x20) != 0);

    const char* const sysId = "file:///vmem/main.xml";
    std::istringstream xmlStream(xml);
    XSLTInputSource xmlIn(&xmlStream);
    xmlIn.setSystemId(dom(sysId).c_str());
    std::ostringstream out;
    int rc = 0;
    bool parsed = false;

    // support objects of the wrapper forms must outlive the transformation
    ThrowingHandler thrower;
    std::unique_ptr<xercesc::XercesDOMParser> xparser;
    std::unique_ptr<XercesParserLiaison> xliaison;
    std::unique_ptr<XercesDOMSupport> xsupport;
    std::unique_ptr<XalanSourceTreeDOMSupport> ssupport;
    std::unique_ptr<XalanSourceTreeParserLiaison> sliaison;
    std::unique_ptr<XalanParsedSource> wrapper;

    if (form == 0 || form == 1)
    {
        const XalanParsedSource* ps = 0;
        rc = t->parseSource(xmlIn, ps, form == 1);
        checkStatus("parseSource", rc, t->getLastError());
        if (rc != 0 && ps != 0) oracleFail("parseSource: rc!=0 but a source object was returned");
        if (rc == 0 && ps == 0) oracleFail("parseSource: rc==0 but no source object");
        if (rc == 0)
        {
            parsed = true;
            rc = t->transform(*ps, css, XSLTResultTarget(out));
            checkStatus("transform(parsed,compiled)", rc, t->getLastError());
            if (t->destroyParsedSource(ps) != 0) oracleFail("destroyParsedSource failed for an object the transformer returned");
        }
    }
    else if (form == 2)
    {
        parsed = parseStep([&]() {
            xparser.reset(new xercesc::XercesDOMParser);
            xparser->setDoNamespaces(true);
            xparser->setEntityResolver(g_resolver);
            xparser->setErrorHandler(&thrower);
            xparser->setCreateEntityReferenceNodes(false);
            xercesc::MemBufInputSource is((const XMLByte*)xml.data(), xml.size(), sysId);
            xparser->parse(is);
            xliaison.reset(new XercesParserLiaison);
            xsupport.reset(new XercesDOMSupport(*xliaison));
            wrapper.reset(new XercesDOMWrapperParsedSource(xparser->getDocument(), *xliaison, *xsupport, dom(sysId)));
        });
    }
    else if (form == 3)
    {
        parsed = parseStep([&]() {
            sliaison.reset(new XalanSourceTreeParserLiaison);
            ssupport.reset(new XalanSourceTreeDOMSupport(*sliaison));
            sliaison->setEntityResolver(g_resolver);
            xercesc::MemBufInputSource is((const XMLByte*)xml.data(), xml.size(), sysId);
            XalanDocument* d = sliaison->parseXMLStream(is, dom(sysId));
            XalanSourceTreeDocument* sd = sliaison->mapDocument(d);
            if (sd == 0) oracleFail("XalanSourceTreeParserLiaison::mapDocument does not know the document it just parsed");
            wrapper.reset(new XalanSourceTreeWrapperParsedSource(sd, *sliaison, *ssupport, dom(sysId)));
        });
    }
    else if (form == 4)
    {
        XalanDocumentBuilder* builder = t->createDocumentBuilder(dom(sysId));
        if (builder == 0) oracleFail("createDocumentBuilder returned null");
        parsed = parseStep([&]() {
            std::unique_ptr<xercesc::SAX2XMLReader> rd(xercesc::XMLReaderFactory::createXMLReader());
            rd->setFeature(xercesc::XMLUni::fgSAX2CoreNameSpaces, true);
            rd->setFeature(xercesc::XMLUni::fgSAX2CoreNameSpacePrefixes, true);
            rd->setFeature(xercesc::XMLUni::fgSAX2CoreValidation, false);
            rd->setFeature(xercesc::XMLUni::fgXercesDynamic, false);
            rd->setFeature(xercesc::XMLUni::fgXercesSchema, false);
            rd->setContentHandler(builder->getContentHandler());
            rd->setDTDHandler(builder->getDTDHandler());
            rd->setLexicalHandler(builder->getLexicalHandler());
            rd->setEntityResolver(g_resolver);
            rd->setErrorHandler(&thrower);
            xercesc::MemBufInputSource is((const XMLByte*)xml.data(), xml.size(), sysId);
            rd->parse(is);
        });
        if (parsed)
        {
            rc = t->transform(*builder, css, XSLTResultTarget(out));
            checkStatus("transform(builder,compiled)", rc, t->getLastError());
        }
        t->destroyDocumentBuilder(builder);
    }
    else
    {
        rc = t->transform(xmlIn, css, XSLTResultTarget(out));
        checkStatus("transform(stream,compiled)", rc, t->getLastError());
        parsed = rc == 0;  // a failure here is a parse failure or a run-time error; only success is counted as parsed
    }
    if (wrapper.get() != 0)
    {
        rc = t->transform(*wrapper, css, XSLTResultTarget(out));
        checkStatus("transform(wrapper,compiled)", rc, t->getLastError());
    }
    wrapper.reset();

    if (parsed) { count("a_source_parsed"); nontrivial(data, size); }  // THE non-triviality rule of this target
    if (parsed && rc == 0) count("c_transformed_ok");
    if (parsed && rc == 0 && !out.str().empty()) count("c2_transformed_nonempty_output");
    if (parsed && rc == 0 && out.str().empty()) oracleFail("identity transformation of a parsed document succeeded with EMPTY output");

    t->setUseValidation(false);
    followUp(*t, rc == 0 ? "a successful call" : "a failed call");
    if (opt & 8) { if (t->destroyStylesheet(css) != 0) oracleFail("destroyStylesheet failed"); }
    return 0;
}

extern "C" size_t LLVMFuzzerCustomMutator(uint8_t* data, size_t size, size_t maxSize, unsigned int seed)
{
    return fz::mutateInsideMarkup(data, size, maxSize, seed, 1);
}
