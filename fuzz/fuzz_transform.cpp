// fuzz_transform: bytes -> (options, stylesheet, source, parameter) -> XalanTransformer (C++ API), oracle inside.
//
// Byte layout (FuzzedDataProvider; pack with fuzz/mkseed.py):
//   <stylesheet> \\ <sep> <source> \\ <sep> <param name> \\ <sep> <param value .......> optB optA
//   * the three leading sections are ConsumeRandomLengthString(): a backslash followed by a byte other than a
//     backslash ends the section (both bytes are dropped), "\\\\" is one literal backslash;
//   * the parameter value is everything that is left; optA is the LAST byte, optB the one before it.
//   An empty stylesheet / source section means "use the built-in default" (identity stylesheet / rich document).
//   optA  bits 0-1  API form   0 transform(stream, stream, ostream)            1 compileStylesheet + parseSource(native) + transform
//                              2 compileStylesheet + parseSource(Xerces DOM)    3 transform(stream, stream, callback)
//         bit  2    fresh XalanTransformer for this input (else the long-lived one of the process)
//         bit  3    a stylesheet parameter is set        bits 4-5 how: 0 (DOMString,DOMString expr) 1 (char*,char* expr)
//                                                                      2 (char*,double) 3 (DOMString,double)
//         bit  6    a counting TraceListener is attached
//         bit  7    the result goes to a FormatterListener (output method override, xsl:output is ignored):
//   optB  bits 0-1  setIndent: 0 leave, 1 -> 0, 2 -> 2, 3 -> 20   bits 2-3 setOutputEncoding: 0 leave 1 UTF-16 2 ISO-8859-1 3 US-ASCII
//         bits 4-5  listener for optA bit 7: 0 FormatterToText 1 FormatterToHTML 2 FormatterToXML 3 XML 1.1 factory serializer
//         bit  6    setEscapeURLs(No) + setOmitMETATag(Yes), and the input streams carry the system ids "file:main.xsl" /
//                   "file:main.xml" (no directory part; or none at all when optA bit 6 is set too) instead of file:///vmem/main.xsl: relative hrefs
//                   then resolve against a base URI without directory part
//         bit  7    the source is wrapped in 200 levels of <n> (deep nesting amplifier)
#include "fz_transform_common.hpp"

#include <memory>

#include <xalanc/PlatformSupport/XalanOutputStreamPrintWriter.hpp>
#include <xalanc/PlatformSupport/XalanStdOutputStream.hpp>
#include <xalanc/XMLSupport/FormatterToHTML.hpp>
#include <xalanc/XMLSupport/FormatterToText.hpp>
#include <xalanc/XMLSupport/FormatterToXML.hpp>
#include <xalanc/XMLSupport/XalanXMLSerializerFactory.hpp>
#include <xalanc/XSLT/TraceListener.hpp>

using namespace xalanc;
using namespace fz;

namespace
{
class CountingTrace : public TraceListener
{
public:
    unsigned long traced, selected_, generated_;
    CountingTrace() : traced(0), selected_(0), generated_(0) {}
    virtual void trace(const TracerEvent&) { ++traced; }
    virtual void selected(const SelectionEvent&) { ++selected_; }
    virtual void generated(const GenerateEvent&) { ++generated_; }
};

MemResolver* g_resolver = 0;
XalanTransformer* g_long = 0;        // the long-lived transformer under test
unsigned long g_longUses = 0;
XalanTransformer* g_classifier = 0;  // only classifies failed stream-form inputs for the counters

XalanTransformer* newTransformer()
{
    XalanTransformer* t = new XalanTransformer;
    t->setWarningStream(0);
    t->setEntityResolver(g_resolver);
    return t;
}

// known finding pre-filters (see README, "Exclusions"); returns the finding id or 0
const char* excluded(unsigned form, const std::string& xsl, const std::string& xml)
{
    if (filtersOff()) return 0;
    // F-C03-assert-clone-cdata: a CDATA section in a Xerces-DOM backed source reaches XSLTEngineImpl::cloneToResultTree
    // with nodeType TEXT_NODE while the node says CDATA_SECTION_NODE (Debug-only assertion)
    if (filterActive("F-C03-assert-clone-cdata") && (form == 2 && contains(xml, "<![CDATA["))) return "excluded_by_filter:F-C03-assert-clone-cdata";
    // F-C03-xerces-dom-xmlversion: parseSource(useXercesDOM) lets xercesc::DOMException escape for <?xml version="1.5"?>
    if (filterActive("F-C03-xerces-dom-xmlversion") && (form == 2 && hasOddXmlVersion(xml))) return "excluded_by_filter:F-C03-xerces-dom-xmlversion";
    // F-C03-icu-converter-name: an output encoding name that is not plain ASCII overflows a stack buffer in ICU's ucnv_openU
    if (filterActive("F-C03-icu-converter-name") && (hasNonAsciiEncodingAttribute(xsl))) return "excluded_by_filter:F-C03-icu-converter-name";
    // F-C03-exslt-padding-nan: str:padding() converts its length argument to an unsigned integer without a range check
    if (filterActive("F-C03-exslt-padding-nan") && (contains(xsl, "padding("))) return "excluded_by_filter:F-C03-exslt-padding-nan";
    // F-C03-assert-nametest-empty-local (Debug-only assertion): xsl:strip-space / preserve-space elements="p:"
    if (filterActive("F-C03-assert-nametest-empty-local") && (hasNameTestEndingInColon(xsl))) return "excluded_by_filter:F-C03-assert-nametest-empty-local";
    // F-C03-assert-indtd (Debug-only assertion): element content reported while the internal DTD subset is still open
    if (filterActive("F-C03-assert-indtd") && (hasUnclosedInternalSubset(xml))) return "excluded_by_filter:F-C03-assert-indtd";
    return 0;
}

struct ListenerTarget
{
    std::ostringstream os;
    XalanStdOutputStream stream;
    XalanOutputStreamPrintWriter pw;
    FormatterListener* fl;
    MemoryManager& mm;
    ListenerTarget(unsigned kind, bool indent)
        : stream(os), pw(stream), fl(0), mm(XalanMemMgrs::getDefaultXercesMemMgr())
    {
        const XalanDOMString empty, v10("1.0"), v11("1.1"), utf8("UTF-8");
        switch (kind)
        {
        case 0: fl = FormatterToText::create(mm, pw, utf8); break;
        case 1: fl = FormatterToHTML::create(mm, pw, utf8, empty, empty, empty, indent, 2, true, false); break;
        case 2: fl = FormatterToXML::create(mm, pw, v10, indent, 2, utf8, empty, empty, empty, true, empty); break;
        default: fl = XalanXMLSerializerFactory::create(mm, pw, v11, indent, 2, utf8, empty, empty, empty, true, empty); break;
        }
    }
    ~ListenerTarget()
    {
        if (fl) { fl->~FormatterListener(); mm.deallocate(fl); }
    }
};
}  // namespace

extern "C" int LLVMFuzzerInitialize(int*, char***)
{
    xercesc::XMLPlatformUtils::Initialize();
    XalanTransformer::initialize();
    g_resolver = new MemResolver;
    return 0;
}

extern "C" int LLVMFuzzerTestOneInput(const uint8_t* data, size_t size)
{
    beginIteration("fuzz_transform");
    FuzzedDataProvider fdp(data, size);
    const unsigned optA = fdp.ConsumeIntegral<uint8_t>();
    const unsigned optB = fdp.ConsumeIntegral<uint8_t>();
    std::string xsl = fdp.ConsumeRandomLengthString();
    std::string xml = fdp.ConsumeRandomLengthString();
    const std::string pname = stripNul(fdp.ConsumeRandomLengthString());
    const std::string pvalue = stripNul(fdp.ConsumeRemainingBytesAsString());
    const bool bothDefault = xsl.empty() && xml.empty();
    if (xsl.empty()) { xsl = DEFAULT_XSL; count("default_stylesheet"); }
    if (xml.empty()) { xml = DEFAULT_XML; count("default_source"); }
    if (optB & 0x80) xml = nestXml(xml, 200);

    const unsigned form = optA & 3;
    if (const char* why = excluded(form, xsl, xml)) { count(why); return 0; }

    const bool fresh = (optA & 4) != 0;
    XalanTransformer* t;
    std::unique_ptr<XalanTransformer> freshHolder;
    if (fresh)
    {
        freshHolder.reset(newTransformer());
        t = freshHolder.get();
        count("fresh_transformer");
    }
    else
    {
        if (g_long != 0 && g_longUses >= 2000)
        {
            delete g_long;  // destruction after a long history is part of the property
            g_long = 0;
        }
        if (g_long == 0) { g_long = newTransformer(); g_longUses = 0; }
        ++g_longUses;
        t = g_long;
    }

    // ---- settings
    switch (optB & 3) { case 1: t->setIndent(0); break; case 2: t->setIndent(2); break; case 3: t->setIndent(20); break; default: t->setIndent(-1); }
    switch ((optB >> 2) & 3)
    {
    case 1: t->setOutputEncoding(XalanDOMString("UTF-16")); break;
    case 2: t->setOutputEncoding(XalanDOMString("ISO-8859-1")); break;
    case 3: t->setOutputEncoding(XalanDOMString("US-ASCII")); break;
    default: t->setOutputEncoding(XalanDOMString()); break;
    }
    if (optB & 0x40) { t->setEscapeURLs(XalanTransformer::eEscapeURLsNo); t->setOmitMETATag(XalanTransformer::eOmitMETATagYes); }
    else { t->setEscapeURLs(XalanTransformer::eEscapeURLsDefault); t->setOmitMETATag(XalanTransformer::eOmitMETATagDefault); }
    t->clearStylesheetParams();
    if (optA & 8)
    {
        count("param_set");
        switch ((optA >> 4) & 3)
        {
        case 0: t->setStylesheetParam(dom(pname), dom(pvalue)); break;
        case 1: t->setStylesheetParam(pname.c_str(), pvalue.c_str()); break;
        case 2: t->setStylesheetParam(pname.c_str(), strtod(pvalue.c_str(), 0)); break;
        default: t->setStylesheetParam(dom(pname), strtod(pvalue.c_str(), 0)); break;
        }
    }
    CountingTrace trace;
    const bool traced = (optA & 0x40) != 0;
    if (traced) t->addTraceListener(&trace);

    // ---- the call under test
    std::istringstream xslStream(xsl), xmlStream(xml);
    XSLTInputSource xslIn(&xslStream), xmlIn(&xmlStream);
    if (!(optB & 0x40))
    {
        xslIn.setSystemId(dom("file:///vmem/main.xsl").c_str());
        xmlIn.setSystemId(dom("file:///vmem/main.xml").c_str());
    }
    else if (!(optA & 0x40))
    {
        xslIn.setSystemId(dom("file:main.xsl").c_str());
        xmlIn.setSystemId(dom("file:main.xml").c_str());
    }
    std::ostringstream out;
    Sink sink;
    std::unique_ptr<ListenerTarget> lt;
    if (optA & 0x80) { lt.reset(new ListenerTarget((optB >> 4) & 3, (optB & 3) >= 2)); count("listener_target"); }

    int rc = 0;
    bool wellformed = false, compiled = false, reached = false;
    size_t outSize = 0;
    if (form == 0 || form == 3)
    {
        if (form == 3 && !lt.get()) rc = t->transform(xmlIn, xslIn, &sink, fzSinkWrite, fzSinkFlush);
        else if (lt.get()) rc = t->transform(xmlIn, xslIn, XSLTResultTarget(*lt->fl));
        else rc = t->transform(xmlIn, xslIn, XSLTResultTarget(out));
        checkStatus("transform(stream,stream)", rc, t->getLastError());
        if (rc == 0) wellformed = compiled = reached = true;
        outSize = form == 3 && !lt.get() ? sink.data.size() : lt.get() ? (lt->pw.flush(), lt->os.str().size()) : out.str().size();
    }
    else
    {
        const XalanCompiledStylesheet* css = 0;
        const XalanParsedSource* ps = 0;
        rc = t->compileStylesheet(xslIn, css);
        checkStatus("compileStylesheet", rc, t->getLastError());
        if (rc != 0 && css != 0) oracleFail("compileStylesheet: rc!=0 but a stylesheet object was returned");
        if (rc == 0 && css == 0) oracleFail("compileStylesheet: rc==0 but no stylesheet object");
        wellformed = rc != -2 && rc != -3;
        compiled = rc == 0;
        if (rc == 0)
        {
            rc = t->parseSource(xmlIn, ps, form == 2);
            checkStatus("parseSource", rc, t->getLastError());
            if (rc == 0 && ps == 0) oracleFail("parseSource: rc==0 but no source object");
            if (rc == 0)
            {
                reached = true;
                if (lt.get()) rc = t->transform(*ps, css, XSLTResultTarget(*lt->fl));
                else rc = t->transform(*ps, css, XSLTResultTarget(out));
                checkStatus("transform(parsed,compiled)", rc, t->getLastError());
                outSize = lt.get() ? (lt->pw.flush(), lt->os.str().size()) : out.str().size();
            }
        }
        if (ps && t->destroyParsedSource(ps) != 0) oracleFail("destroyParsedSource failed for an object the transformer returned");
        if (css && t->destroyStylesheet(css) != 0) oracleFail("destroyStylesheet failed for an object the transformer returned");
    }
    if (traced)
    {
        if (!t->removeTraceListener(&trace)) oracleFail("removeTraceListener did not find the listener that was added");
        if (trace.traced) count("trace_events_fired");
    }

    // ---- counters (exact: a failed stream-form call is classified on a separate transformer)
    if ((form == 0 || form == 3) && rc != 0)
    {
        if (g_classifier == 0) g_classifier = newTransformer();
        std::istringstream x2(xsl), d2(xml);
        XSLTInputSource xi(&x2), di(&d2);
        xi.setSystemId(dom("file:///vmem/main.xsl").c_str());
        di.setSystemId(dom("file:///vmem/main.xml").c_str());
        const XalanCompiledStylesheet* css = 0;
        const XalanParsedSource* ps = 0;
        const int c = g_classifier->compileStylesheet(xi, css);
        checkStatus("compileStylesheet", c, g_classifier->getLastError(), "classifier_errors");
        wellformed = c != -2 && c != -3;
        compiled = c == 0;
        if (c == 0)
        {
            const int p = g_classifier->parseSource(di, ps, false);
            checkStatus("parseSource", p, g_classifier->getLastError(), "classifier_errors");
            reached = p == 0;
        }
        if (ps) g_classifier->destroyParsedSource(ps);
        if (css) g_classifier->destroyStylesheet(css);
    }
    if (wellformed) count("a_stylesheet_wellformed_xml");
    if (compiled) count("b_stylesheet_compiled");
    if (reached) count("c_reached_execution");
    if (reached && !bothDefault) nontrivial(data, size);  // THE non-triviality rule of this target
    if (rc == 0) count("ok");
    if (rc == 0 && outSize != 0) count("ok_nonempty_output");

    // ---- the transformer must stay usable
    followUp(*t, rc == 0 ? "a successful call" : "a failed call");
    return 0;
}

extern "C" size_t LLVMFuzzerCustomMutator(uint8_t* data, size_t size, size_t maxSize, unsigned int seed)
{
    return fz::mutateInsideMarkup(data, size, maxSize, seed, 2);
}
