// fuzz_xpath: expression bytes -> XPathEvaluator entry points (and the XPath C API) over a fixed, rich document.
//
// Byte layout (FuzzedDataProvider; pack with fuzz/mkseed.py):
//   <expression> \\ <sep> <encoding name for the C API.....> ctx entry
//   * expression: ConsumeRandomLengthString() (a backslash followed by a non-backslash byte ends it, "\\\\" is a backslash)
//   * entry is the LAST byte, ctx the one before it.
//   entry  low 3 bits: 0 selectNodeList(string)  1 selectSingleNode(string)  2 evaluate(string) + str/num/boolean
//                      3 createXPath + evaluate/selectNodeList/selectSingleNode(compiled) + destroyXPath
//                      4 evaluate(string) AND evaluate(compiled): both must give the same type and string value
//                      5 C API: XalanCreateXPath + XalanEvaluateXPathAsBoolean + XalanEvaluateXPathExpressionAsBoolean
//                      6,7 as 2 / 3 with a PrefixResolver object instead of a namespace node
//          bit 3: fresh XPathEvaluator for this input (else the long-lived one)   bit 4: expression wrapped in 150 levels of ( )
//   ctx    index (modulo the number of nodes) into the document's nodes in document order: root, elements, attributes,
//          text, comments, processing instructions
// Errors must surface as XSLException (XPathParserException, XalanXPathException, ...) from the C++ entry points and as a
// non-zero status from the C API; they are caught here and counted.  Anything else ends the process.
#include "fz_common.hpp"

#include <memory>
#include <strings.h>

#include <xercesc/util/PlatformUtils.hpp>

#include <xalanc/PlatformSupport/XSLException.hpp>
#include <xalanc/XalanDOM/XalanDocument.hpp>
#include <xalanc/XalanDOM/XalanElement.hpp>
#include <xalanc/XalanDOM/XalanNamedNodeMap.hpp>
#include <xalanc/XPath/NodeRefList.hpp>
#include <xalanc/PlatformSupport/PrefixResolver.hpp>
#include <xalanc/XPath/XObject.hpp>
#include <xalanc/XPath/XPath.hpp>
#include <xalanc/XPath/XPathEvaluator.hpp>
#include <xalanc/XPath/XPathExecutionContext.hpp>
#include <xalanc/XalanSourceTree/XalanSourceTreeDOMSupport.hpp>
#include <xalanc/XalanSourceTree/XalanSourceTreeParserLiaison.hpp>
#include <xalanc/XPathCAPI/XPathCAPI.h>

using namespace xalanc;
using namespace fz;

namespace
{
const char* const DOC =
    "<?xml version='1.0'?>\n<!DOCTYPE doc [<!ATTLIST item id ID #IMPLIED><!ATTLIST q id ID #IMPLIED>]>\n"
    "<?top target?><!--before-->"
    "<doc xmlns='urn:d' xmlns:p='urn:p' xmlns:q='urn:q' xml:lang='en' a='1' p:b='2'>"
    "<item id='i1' n='10' p:k='v'>alpha<sub>1</sub><sub xml:lang='de-AT'>2</sub></item>"
    "<item id='i2' n='-2.5'>beta<!--inner--><?pi data?></item>"
    "<item id='i3' n='1e3' xmlns=''>  <e/> 3 </item>"
    "<p:q id='i4' xml:space='preserve'> <![CDATA[<&>]]> <q:r q:a='x' a='y'/></p:q>"
    "<empty/><num>0012.50</num><num>-0</num><num>NaN</num>"
    "text\xc3\xa9\xe2\x82\xac\xf0\x9f\x98\x80"
    "</doc><!--after-->";

class MapResolver : public PrefixResolver
{
public:
    XalanDOMString p, q, d, uri, nsP, nsQ, nsD;
    MapResolver() : p("p"), q("q"), d("d"), nsP("urn:p"), nsQ("urn:q"), nsD("urn:d") {}
    virtual const XalanDOMString* getNamespaceForPrefix(const XalanDOMString& prefix) const
    {
        if (prefix == p) return &nsP;
        if (prefix == q) return &nsQ;
        if (prefix == d) return &nsD;
        return 0;
    }
    virtual const XalanDOMString& getURI() const { return uri; }
};

struct World
{
    XalanSourceTreeDOMSupport dom;
    XalanSourceTreeParserLiaison liaison;
    XalanDocument* doc;
    std::vector<XalanNode*> nodes;
    const XalanElement* root;
    MapResolver resolver;
    World() : liaison(dom), doc(0), root(0)
    {
        dom.setParserLiaison(&liaison);
        xercesc::MemBufInputSource is((const XMLByte*)DOC, strlen(DOC), "file:///vmem/xpath-doc.xml");
        doc = liaison.parseXMLStream(is);
        walk(doc);
        root = doc->getDocumentElement();
    }
    void walk(XalanNode* n)
    {
        nodes.push_back(n);
        if (n->getNodeType() == XalanNode::ELEMENT_NODE)
            if (const XalanNamedNodeMap* m = n->getAttributes())
                for (XalanSize_t k = 0; k < m->getLength(); ++k) nodes.push_back(m->item(k));
        for (XalanNode* c = n->getFirstChild(); c; c = c->getNextSibling()) walk(c);
    }
};
World* g_world = 0;
XPathEvaluator* g_long = 0;
unsigned long g_longUses = 0;
XalanXPathEvaluatorHandle g_capi = 0;

std::string describe(const XSLException& e)
{
    XalanDOMString s;
    e.defaultFormat(s);
    return narrow(s);
}
// value of a result as (type, string); conversions may throw XSLException like evaluation itself
std::string render(const XObjectPtr& r, XPathExecutionContext& ctx)
{
    if (r.null()) oracleFail("evaluate returned a null XObjectPtr without throwing");
    std::string s = std::to_string((int)r->getType()) + ":";
    s += narrow(r->str(ctx));
    (void)r->num(ctx);
    (void)r->boolean(ctx);
    return s;
}

// known finding pre-filters (see README, "Exclusions")
// F-C03-assert-namespace-axis-qname: "namespace::" followed by a name test that has a prefix (namespace::p:q, namespace::p:*)
bool hasPrefixedNamespaceAxisTest(const std::string& e)
{
    size_t pos = 0;
    while ((pos = e.find("namespace", pos)) != std::string::npos)
    {
        size_t i = pos + 9;
        pos = i;
        while (i < e.size() && isspace((unsigned char)e[i])) ++i;
        if (e.compare(i, 2, "::") != 0) continue;
        i += 2;
        while (i < e.size() && isspace((unsigned char)e[i])) ++i;
        while (i < e.size() && (isalnum((unsigned char)e[i]) || e[i] == '_' || e[i] == '-' || e[i] == '.' || (unsigned char)e[i] >= 0x80)) ++i;
        while (i < e.size() && isspace((unsigned char)e[i])) ++i;
        if (i < e.size() && e[i] == ':' && (i + 1 >= e.size() || e[i + 1] != ':')) return true;
    }
    return false;
}
const char* excluded(unsigned entry, const std::string& encoding, const std::string& expr)
{
    if (filtersOff()) return 0;
    if (filterActive("F-C03-assert-namespace-axis-qname") && (hasPrefixedNamespaceAxisTest(expr))) return "excluded_by_filter:F-C03-assert-namespace-axis-qname";
    // F-C03-icu-converter-name: XalanCreateXPath hands the encoding name to ICU's ucnv_openU unchecked
    if (filterActive("F-C03-icu-converter-name") && (entry == 5 && hasNonAscii(encoding))) return "excluded_by_filter:F-C03-icu-converter-name";
    // F-C03-utf16-transcoder-overread: XalanUTF16Transcoder::transcode(bytes -> UTF-16) reads past the end of its source
    if (entry == 5 && (strcasecmp(encoding.c_str(), "UTF-16") == 0 || strcasecmp(encoding.c_str(), "UTF-16LE") == 0 ||
                       strcasecmp(encoding.c_str(), "UTF-16BE") == 0))
        return "excluded_by_filter:F-C03-utf16-transcoder-overread";
    return 0;
}
}  // namespace

extern "C" int LLVMFuzzerInitialize(int*, char***)
{
    // the C API initializes Xerces, XPath and the source tree; the C++ entry points below share that state
    if (XalanXPathAPIInitialize() != XALAN_XPATH_API_SUCCESS) { fprintf(stderr, "XalanXPathAPIInitialize failed\n"); _exit(3); }
    g_world = new World;
    if (XalanCreateXPathEvaluator(&g_capi) != XALAN_XPATH_API_SUCCESS) { fprintf(stderr, "XalanCreateXPathEvaluator failed\n"); _exit(3); }
    return 0;
}

extern "C" int LLVMFuzzerTestOneInput(const uint8_t* data, size_t size)
{
    beginIteration("fuzz_xpath");
    FuzzedDataProvider fdp(data, size);
    const unsigned entryByte = fdp.ConsumeIntegral<uint8_t>();
    const unsigned ctxByte = fdp.ConsumeIntegral<uint8_t>();
    std::string expr = stripNul(fdp.ConsumeRandomLengthString());
    std::string encoding = stripNul(fdp.ConsumeRemainingBytesAsString());
    if (encoding.size() > 40) encoding.resize(40);
    if (entryByte & 0x10) expr = std::string(150, '(') + expr + std::string(150, ')');
    if (const char* why = excluded(entryByte & 7, encoding, expr)) { count(why); return 0; }

    World& w = *g_world;
    XalanNode* const ctxNode = w.nodes[ctxByte % w.nodes.size()];
    unsigned entry = entryByte & 7;
    const bool useResolver = entry >= 6;
    if (entry == 6) entry = 2;
    if (entry == 7) entry = 3;

    std::unique_ptr<XPathEvaluator> freshHolder;
    XPathEvaluator* ev;
    if (entryByte & 8) { freshHolder.reset(new XPathEvaluator); ev = freshHolder.get(); count("fresh_evaluator"); }
    else
    {
        if (g_long != 0 && g_longUses >= 5000) { delete g_long; g_long = 0; }
        if (g_long == 0) { g_long = new XPathEvaluator; g_longUses = 0; }
        ++g_longUses;
        ev = g_long;
    }
    const XalanDOMString xexpr = dom(expr);
    bool compiledOk = false, evaluated = false, nonEmpty = false;
    // F-C03-xpathevaluator-exception-unsafe: an exception thrown while an expression is EXECUTED leaves the evaluator's
    // execution context pointing at a destroyed stack object (XPathEvaluator::evaluate is not exception safe), and the
    // next evaluate() calls through it.  Exclusion by construction: such an evaluator is discarded, not reused.
    bool inCreate = false, poisoned = false;

    if (entry == 5)
    {
        count("capi");
        if (expr.empty()) expr = ".";
        const char* const enc = encoding.empty() ? (const char*)0 : encoding.c_str();
        XalanXPathHandle xp = 0;
        int rc = XalanCreateXPath(g_capi, expr.c_str(), enc, &xp);
        if (rc == XALAN_XPATH_API_SUCCESS)
        {
            if (xp == 0) oracleFail("XalanCreateXPath: success but no handle");
            compiledOk = true;
            int result = -1;
            rc = XalanEvaluateXPathAsBoolean(g_capi, xp, DOC, &result);
            if (rc == XALAN_XPATH_API_SUCCESS)
            {
                if (result != 0 && result != 1) oracleFail("XalanEvaluateXPathAsBoolean: success but the result was not stored");
                evaluated = true;
                nonEmpty = result == 1;
                int result2 = -1;
                const int rc2 = XalanEvaluateXPathExpressionAsBoolean(g_capi, expr.c_str(), enc, DOC, &result2);
                if (rc2 != XALAN_XPATH_API_SUCCESS || result2 != result)
                    oracleFail("XPath C API: compiled and string form of one expression disagree",
                               "rc2=" + std::to_string(rc2) + " result=" + std::to_string(result) + " result2=" + std::to_string(result2));
            }
            else { count("error_with_message"); poisoned = rc != XALAN_XPATH_API_ERROR_BAD_XML; }
            if (XalanDestroyXPath(g_capi, xp) != XALAN_XPATH_API_SUCCESS) oracleFail("XalanDestroyXPath failed for a handle the API returned");
        }
        else
        {
            if (xp != 0) oracleFail("XalanCreateXPath: error status but a handle was stored");
            count("error_with_message");
        }
        if (poisoned && filterActive("F-C03-xpathevaluator-exception-unsafe"))
        {
            count("excluded_by_filter:F-C03-xpathevaluator-exception-unsafe");
            if (XalanDestroyXPathEvaluator(g_capi) != XALAN_XPATH_API_SUCCESS || XalanCreateXPathEvaluator(&g_capi) != XALAN_XPATH_API_SUCCESS)
                oracleFail("XPath C API: cannot replace the evaluator");
        }
    }
    else
    {
        XPath* xp = 0;
        try
        {
            XPathExecutionContext& ctx = ev->getExecutionContext();
            switch (entry)
            {
            case 0:
            {
                NodeRefList l;
                if (useResolver) ev->selectNodeList(l, w.dom, ctxNode, xexpr.c_str(), w.resolver);
                else ev->selectNodeList(l, w.dom, ctxNode, xexpr.c_str(), w.root);
                compiledOk = evaluated = true;
                nonEmpty = l.getLength() != 0;
                for (NodeRefList::size_type i = 0; i < l.getLength(); ++i)
                    if (l.item(i) == 0) oracleFail("selectNodeList: null node in the result");
                break;
            }
            case 1:
            {
                XalanNode* n = ev->selectSingleNode(w.dom, ctxNode, xexpr.c_str(), w.root);
                compiledOk = evaluated = true;
                nonEmpty = n != 0;
                if (n) (void)n->getNodeType();
                break;
            }
            case 2:
            {
                const XObjectPtr r = useResolver ? ev->evaluate(w.dom, ctxNode, xexpr.c_str(), w.resolver)
                                                 : ev->evaluate(w.dom, ctxNode, xexpr.c_str(), w.root);
                compiledOk = evaluated = true;
                nonEmpty = render(r, ctx).size() > 2;
                break;
            }
            case 3:
            {
                inCreate = true;
                xp = useResolver ? ev->createXPath(xexpr.c_str(), w.resolver) : ev->createXPath(xexpr.c_str(), w.dom, w.root);
                inCreate = false;
                if (xp == 0) oracleFail("createXPath returned null without throwing");
                compiledOk = true;
                bool isNodeSet;
                {
                    // a result belongs to the evaluator's object factory and must be released before the next evaluation
                    const XObjectPtr r = useResolver ? ev->evaluate(w.dom, ctxNode, *xp, w.resolver) : ev->evaluate(w.dom, ctxNode, *xp, w.root);
                    evaluated = true;
                    nonEmpty = render(r, ctx).size() > 2;
                    isNodeSet = r->getType() == XObject::eTypeNodeSet;
                }
                if (isNodeSet)
                {
                    NodeRefList l;
                    ev->selectNodeList(l, w.dom, ctxNode, *xp, w.root);
                    XalanNode* n = ev->selectSingleNode(w.dom, ctxNode, *xp, w.root);
                    if ((n == 0) != (l.getLength() == 0)) oracleFail("selectSingleNode and selectNodeList disagree about emptiness");
                    if (n != 0 && n != l.item(0)) oracleFail("selectSingleNode is not the first node of selectNodeList");
                }
                break;
            }
            default:  // 4
            {
                std::string a;
                {
                    const XObjectPtr r = ev->evaluate(w.dom, ctxNode, xexpr.c_str(), w.root);
                    compiledOk = evaluated = true;
                    a = render(r, ctx);
                }
                inCreate = true;
                xp = ev->createXPath(xexpr.c_str(), w.dom, w.root);
                inCreate = false;
                const XObjectPtr r2 = ev->evaluate(w.dom, ctxNode, *xp, w.root);
                const std::string b = render(r2, ctx);
                nonEmpty = a.size() > 2;
                if (a != b) oracleFail("evaluate(string) and evaluate(compiled XPath) give different values", a + " <> " + b);
                break;
            }
            }
        }
        catch (const XSLException& e)
        {
            if (describe(e).empty()) oracleFail("XSLException with empty message");
            count("error_with_message");
            poisoned = !inCreate;  // the string entry points parse and execute in one call: assume the worst
        }
        if (xp != 0 && !ev->destroyXPath(xp)) oracleFail("destroyXPath failed for an object the evaluator returned");
        if (poisoned && filterActive("F-C03-xpathevaluator-exception-unsafe"))
        {
            count("excluded_by_filter:F-C03-xpathevaluator-exception-unsafe");
            // replaced at once (not lazily by the next input): an input that only allocates would look like a leak to libFuzzer
            if (ev == g_long) { delete g_long; g_long = new XPathEvaluator; g_longUses = 0; }
            freshHolder.reset();
            ev = 0;
        }
    }
    if (compiledOk) count("b_expression_compiled");
    if (evaluated) { count("c_evaluated"); nontrivial(data, size); }  // THE non-triviality rule of this target
    if (nonEmpty) count("c2_evaluated_nonempty_result");

    // ---- the evaluator must stay usable
    if (entry != 5 && ev != 0)
    {
        try
        {
            static const XalanDOMString follow("count(//*) * 2 + string-length(//@id[. = 'i4'])");
            const XObjectPtr r = ev->evaluate(w.dom, w.doc, follow.c_str(), w.root);
            const double v = r->num(ev->getExecutionContext());
            if (v != 28.0) oracleFail("evaluator unusable: follow-up expression gave a wrong value", std::to_string(v));
        }
        catch (const XSLException& e)
        {
            oracleFail("evaluator unusable: follow-up expression threw", describe(e));
        }
    }
    return 0;
}

// one mutation in three starts from a valid seed expression (C03_SEED_DIR, seeded-start campaigns only), see fz_common.hpp
extern "C" size_t LLVMFuzzerCustomMutator(uint8_t* data, size_t size, size_t maxSize, unsigned int seed)
{
    const std::vector<std::string>& tpl = fz::seedTemplates();
    const uint32_t r = seed * 2654435761u + 12345u;
    if (!tpl.empty() && (r >> 16) % 3 == 0)
    {
        const std::string& t = tpl[(r >> 3) % tpl.size()];
        if (t.size() <= maxSize)
        {
            memcpy(data, t.data(), t.size());
            size = t.size();
            fz::count("mutations_from_seed_template");
        }
    }
    return fz::LLVMFuzzerMutate(data, size, maxSize);
}
