// Shared pieces of the C03 libFuzzer targets: counters flushed to a per-process file, the oracle trap,
// the textual pre-filters that belong to open known findings, an in-memory entity resolver, strings.
#ifndef FZ_COMMON_HPP
#define FZ_COMMON_HPP

#include <cstdint>
#include <cstdio>
#include <cstdlib>
#include <cstring>
#include <string>
#include <vector>
#include <dirent.h>
#include <fcntl.h>
#include <unistd.h>
#include <sys/stat.h>

#include <fuzzer/FuzzedDataProvider.h>

#include <xercesc/framework/MemBufInputSource.hpp>
#include <xercesc/sax/EntityResolver.hpp>
#include <xercesc/sax/InputSource.hpp>

#include <xalanc/Include/PlatformDefinitions.hpp>
#include <xalanc/XalanDOM/XalanDOMString.hpp>

namespace fz
{
// ------------------------------------------------------------------ counters
struct Counter
{
    const char* name;
    uint64_t value;
};
struct Stats
{
    const char* target;
    std::vector<Counter> counters;
    // open-addressing set of input hashes in static storage: the harness must not allocate per input, or libFuzzer's
    // "more mallocs than frees" heuristic would run the expensive LeakSanitizer pass on every non-trivial input
    enum { kSlots = 1 << 18 };
    uint64_t* slots;
    uint64_t distinct;
    uint64_t pending[256];  // hashes of non-trivial inputs not yet appended to <stats>.hashes.bin
    unsigned npending;
    uint64_t iters;
    std::string path;
    Stats() : target("?"), slots(0), distinct(0), npending(0), iters(0) {}
    uint64_t& at(const char* name)
    {
        for (size_t i = 0; i < counters.size(); ++i)
            if (counters[i].name == name || strcmp(counters[i].name, name) == 0) return counters[i].value;
        Counter c = { name, 0 };
        counters.push_back(c);
        return counters.back().value;
    }
};
inline Stats& stats()
{
    static Stats* s = new Stats;  // never destroyed: used from atexit
    return *s;
}
inline void count(const char* name, uint64_t n = 1) { stats().at(name) += n; }

inline void flushHashes()
{
    Stats& s = stats();
    if (s.path.empty() || s.npending == 0) { s.npending = 0; return; }
    const std::string hp = s.path + ".hashes.bin";
    int fd = open(hp.c_str(), O_WRONLY | O_CREAT | O_APPEND, 0644);
    if (fd >= 0)
    {
        ssize_t w = write(fd, s.pending, s.npending * sizeof(uint64_t));
        (void)w;
        close(fd);
    }
    s.npending = 0;
}
inline void flushStats()
{
    Stats& s = stats();
    if (s.path.empty()) return;
    flushHashes();
    std::string body = "{\"target\":\"";
    body += s.target;
    body += "\",\"pid\":" + std::to_string((long)getpid()) + ",\"iters\":" + std::to_string((unsigned long long)s.iters) +
            ",\"distinct_nontrivial_in_process\":" + std::to_string((unsigned long long)s.distinct) + ",\"counters\":{";
    for (size_t i = 0; i < s.counters.size(); ++i)
    {
        if (i) body += ",";
        body += "\"";
        body += s.counters[i].name;
        body += "\":" + std::to_string((unsigned long long)s.counters[i].value);
    }
    body += "}}\n";
    const std::string tmp = s.path + ".tmp";
    int fd = open(tmp.c_str(), O_WRONLY | O_CREAT | O_TRUNC, 0644);
    if (fd < 0) return;
    ssize_t w = write(fd, body.data(), body.size());
    (void)w;
    close(fd);
    rename(tmp.c_str(), s.path.c_str());
}
inline uint64_t fnv(const uint8_t* d, size_t n)
{
    uint64_t h = 1469598103934665603ull;
    for (size_t i = 0; i < n; ++i) { h ^= d[i]; h *= 1099511628211ull; }
    return h;
}
// called once per LLVMFuzzerTestOneInput, before anything that may crash
inline void beginIteration(const char* target)
{
    Stats& s = stats();
    if (s.iters == 0)
    {
        s.target = target;
        s.slots = (uint64_t*)calloc(Stats::kSlots, sizeof(uint64_t));
        s.counters.reserve(64);
        const char* dir = getenv("C03_STATS_DIR");
        if (dir && *dir) s.path = std::string(dir) + "/" + target + "." + std::to_string((long)getpid()) + ".stats.json";
        atexit(flushStats);
    }
    ++s.iters;
    count("execs");
    static const bool everyTime = getenv("C03_STATS_EVERY") != 0;  // counting mode: nothing may be lost if a unit crashes
    if (everyTime || (s.iters & 255) == 0) flushStats();
}
inline void nontrivial(const uint8_t* d, size_t n)
{
    count("nontrivial");
    Stats& s = stats();
    if (s.slots == 0 || s.distinct >= Stats::kSlots / 2) return;
    uint64_t h = fnv(d, n);
    if (h == 0) h = 1;
    for (uint64_t i = h & (Stats::kSlots - 1);; i = (i + 1) & (Stats::kSlots - 1))
    {
        if (s.slots[i] == h) return;
        if (s.slots[i] == 0)
        {
            s.slots[i] = h;
            ++s.distinct;
            if (s.npending == 256) flushHashes();
            s.pending[s.npending++] = h;
            return;
        }
    }
}

// ------------------------------------------------------------------ oracle
// The reason is printed first so that the runner can build the signature "oracle:<reason>" from stderr.
[[noreturn]] inline void oracleFail(const std::string& reason, const std::string& detail = std::string())
{
    fprintf(stderr, "\nORACLE: %s\n", reason.c_str());
    if (!detail.empty()) fprintf(stderr, "ORACLE-DETAIL: %.2000s\n", detail.c_str());
    fflush(stderr);
    flushStats();
    __builtin_trap();
}

// ------------------------------------------------------------------ pre-filters of open known findings
// Each filter recognises the trigger of ONE open known finding textually and makes the target skip the input.
// They are listed in fuzz/README.md; the number of skipped inputs is reported as excluded_by_filter.
// C03_NO_FILTER=1 switches all of them off (used to show that the finding is still there).
inline bool filtersOff()
{
    static int off = -1;
    if (off < 0) { const char* e = getenv("C03_NO_FILTER"); off = (e && *e == '1') ? 1 : 0; }
    return off == 1;
}
// A filter is active only while its finding is OPEN: the runner exports the ids of the open findings (known_findings.jsonl and
// regress/C03/PROPOSED_FINDINGS.jsonl) as a comma-separated list in C03_OPEN_FINDINGS; run by hand without that variable, all
// filters are active.  Once a finding is fixed its inputs are fuzzed again.
inline bool filterActive(const char* id)
{
    if (filtersOff()) return false;
    static const char* open = getenv("C03_OPEN_FINDINGS");
    if (open == 0) return true;
    const std::string hay = std::string(",") + open + ",";
    return hay.find(std::string(",") + id + ",") != std::string::npos;
}
inline bool contains(const std::string& hay, const char* needle) { return hay.find(needle) != std::string::npos; }
inline bool hasNonAscii(const std::string& s)
{
    for (size_t i = 0; i < s.size(); ++i) if ((unsigned char)s[i] >= 0x80) return true;
    return false;
}
// F-C03-icu-converter-name: true when some attribute named `encoding` in `text` has a value that is not plain ASCII
// (non-ASCII bytes or a character reference), i.e. a converter name that Xalan hands to ICU's ucnv_openU unchecked
inline bool hasNonAsciiEncodingAttribute(const std::string& text)
{
    size_t pos = 0;
    while ((pos = text.find("encoding", pos)) != std::string::npos)
    {
        size_t i = pos + 8;
        pos = i;
        while (i < text.size() && isspace((unsigned char)text[i])) ++i;
        if (i >= text.size() || text[i] != '=') continue;
        ++i;
        while (i < text.size() && isspace((unsigned char)text[i])) ++i;
        if (i >= text.size() || (text[i] != '"' && text[i] != '\'')) continue;
        const char q = text[i++];
        for (; i < text.size() && text[i] != q; ++i)
            if ((unsigned char)text[i] >= 0x80 || text[i] == '&') return true;
    }
    return false;
}
// F-C03-assert-nametest-empty-local: an `elements` attribute (xsl:strip-space / xsl:preserve-space) with a token ending in ':'
inline bool hasNameTestEndingInColon(const std::string& xsl)
{
    size_t pos = 0;
    while ((pos = xsl.find("elements", pos)) != std::string::npos)
    {
        size_t i = pos + 8;
        pos = i;
        while (i < xsl.size() && (isspace((unsigned char)xsl[i]) || xsl[i] == '=')) ++i;
        if (i >= xsl.size() || (xsl[i] != '"' && xsl[i] != '\'')) continue;
        const char q = xsl[i++];
        for (; i < xsl.size() && xsl[i] != q; ++i)
            if (xsl[i] == ':' && (i + 1 >= xsl.size() || xsl[i + 1] == q || isspace((unsigned char)xsl[i + 1]) || xsl[i + 1] == '&')) return true;
    }
    return false;
}
// F-C03-assert-indtd: a document type declaration with an internal subset that is never closed by "]>"
inline bool hasUnclosedInternalSubset(const std::string& xml)
{
    const size_t d = xml.find("<!DOCTYPE");
    if (d == std::string::npos) return false;
    const size_t b = xml.find('[', d);
    return b != std::string::npos && xml.find("]>", b) == std::string::npos;
}
// F-C03-xerces-dom-xmlversion: true when the document starts with an XML declaration whose version is neither 1.0 nor 1.1
inline bool hasOddXmlVersion(const std::string& xml)
{
    size_t i = 0;
    if (xml.compare(0, 3, "\xef\xbb\xbf") == 0) i = 3;
    if (xml.compare(i, 5, "<?xml") != 0) return false;
    const size_t end = xml.find("?>", i);
    const std::string decl = xml.substr(i, end == std::string::npos ? std::string::npos : end - i);
    const size_t v = decl.find("version");
    if (v == std::string::npos) return false;
    size_t j = v + 7;
    while (j < decl.size() && (isspace((unsigned char)decl[j]) || decl[j] == '=')) ++j;
    if (j >= decl.size() || (decl[j] != '"' && decl[j] != '\'')) return false;
    const std::string val = decl.substr(j + 1, 4);
    return !(val == std::string("1.0") + decl[j] || val == std::string("1.1") + decl[j]);
}

// ------------------------------------------------------------------ strings
inline void toDom(const std::string& in, xalanc::XalanDOMString& out)
{
    out.clear();
    const unsigned char* p = (const unsigned char*)in.data();
    size_t n = in.size(), i = 0;
    while (i < n)
    {
        uint32_t c = p[i];
        if (c < 0x80) { i += 1; }
        else if ((c & 0xE0) == 0xC0 && i + 1 < n) { c = ((c & 0x1F) << 6) | (p[i + 1] & 0x3F); i += 2; }
        else if ((c & 0xF0) == 0xE0 && i + 2 < n) { c = ((c & 0x0F) << 12) | ((p[i + 1] & 0x3F) << 6) | (p[i + 2] & 0x3F); i += 3; }
        else if ((c & 0xF8) == 0xF0 && i + 3 < n) { c = ((c & 0x07) << 18) | ((p[i + 1] & 0x3F) << 12) | ((p[i + 2] & 0x3F) << 6) | (p[i + 3] & 0x3F); i += 4; }
        else { c = 0xFFFD; i += 1; }
        if (c == 0) c = 0xFFFD;  // XalanDOMString contents handed to char*/XalanDOMChar* APIs must not hold NUL
        if (c >= 0x110000) c = 0xFFFD;
        if (c >= 0x10000)
        {
            c -= 0x10000;
            out.append(1, xalanc::XalanDOMChar(0xD800 + (c >> 10)));
            out.append(1, xalanc::XalanDOMChar(0xDC00 + (c & 0x3FF)));
        }
        else out.append(1, xalanc::XalanDOMChar(c));
    }
}
inline xalanc::XalanDOMString dom(const std::string& s)
{
    xalanc::XalanDOMString r;
    toDom(s, r);
    return r;
}
inline std::string narrow(const xalanc::XalanDOMChar* s, size_t n)
{
    std::string r;
    for (size_t i = 0; i < n; ++i)
    {
        uint32_t c = s[i];
        if (c < 0x80) r += char(c);
        else if (c < 0x800) { r += char(0xC0 | (c >> 6)); r += char(0x80 | (c & 0x3F)); }
        else { r += char(0xE0 | (c >> 12)); r += char(0x80 | ((c >> 6) & 0x3F)); r += char(0x80 | (c & 0x3F)); }
    }
    return r;
}
inline std::string narrow(const xalanc::XalanDOMString& s) { return narrow(s.c_str(), s.length()); }
inline std::string stripNul(std::string s)
{
    for (size_t i = 0; i < s.size(); ++i) if (s[i] == '\0') s[i] = ' ';
    return s;
}

// ------------------------------------------------------------------ in-memory resources
// Imports / includes / document() / external entities never leave the process: a few fixed resources are
// served by base name, everything else resolves to an empty stream (-> an ordinary parse error).
static const char* const RES_INC_XSL =
    "<xsl:stylesheet version='1.0' xmlns:xsl='http://www.w3.org/1999/XSL/Transform'>"
    "<xsl:template match='inc' name='inc'><inc><xsl:value-of select='.'/></inc></xsl:template>"
    "<xsl:variable name='incv' select='42'/>"
    "</xsl:stylesheet>";
static const char* const RES_DOC_XML = "<ext id='e1'><item k='1'>one</item><item k='2'>two</item><!--c--><?p d?></ext>";
static const char* const RES_ENT_DTD = "<!ELEMENT doc ANY><!ATTLIST item id ID #IMPLIED><!ENTITY e 'entity-text'>";

class MemResolver : public xercesc::EntityResolver
{
public:
    unsigned long asked;
    MemResolver() : asked(0) {}
    virtual xercesc::InputSource* resolveEntity(const XMLCh* const, const XMLCh* const systemId)
    {
        ++asked;
        std::string id;
        for (const XMLCh* p = systemId; p && *p; ++p) id += (*p < 0x80 ? char(*p) : '?');
        size_t s = id.find_last_of('/');
        const std::string base = s == std::string::npos ? id : id.substr(s + 1);
        const char* data = "";
        if (base == "inc.xsl") data = RES_INC_XSL;
        else if (base == "doc.xml") data = RES_DOC_XML;
        else if (base == "ent.dtd") data = RES_ENT_DTD;
        const std::string sys = "file:///vmem/" + (base.empty() || base.size() > 40 ? std::string("x") : base);
        return new xercesc::MemBufInputSource((const XMLByte*)data, strlen(data), sys.c_str());
    }
};

// ------------------------------------------------------------------ the known-good follow-up
static const char* const FOLLOW_XSL =
    "<xsl:stylesheet version='1.0' xmlns:xsl='http://www.w3.org/1999/XSL/Transform'>"
    "<xsl:output method='xml' omit-xml-declaration='yes' encoding='UTF-8' indent='no'/>"
    "<xsl:param name='fzq' select='0'/>"
    "<xsl:key name='k' match='b' use='@n'/>"
    "<xsl:variable name='v' select='count(//*)'/>"
    "<xsl:template match='/'><ok q='{$fzq}' c='{$v}'><xsl:for-each select='a/b'><xsl:sort select='@n' data-type='number' order='descending'/>"
    "<xsl:value-of select='@n'/></xsl:for-each>|<xsl:value-of select='key(\"k\",\"2\")/@t'/>|<xsl:value-of select='format-number(1234.5,\"#,##0.00\")'/></ok></xsl:template>"
    "</xsl:stylesheet>";
static const char* const FOLLOW_XML = "<a><b n='1' t='x'/><b n='3' t='z'/><b n='2' t='y'/></a>";
static const char* const FOLLOW_EXPECT = "<ok q=\"7\" c=\"4\">321|y|1,234.50</ok>";

// default inputs used when a section of the fuzz input is empty
static const char* const DEFAULT_XML =
    "<?xml version='1.0'?>\n<!DOCTYPE doc [<!ATTLIST item id ID #IMPLIED>]>\n"
    "<doc xmlns:p='urn:p' xml:lang='en' a='1'><item id='i1' p:k='v' n='10'>alpha<sub>s</sub></item><item id='i2' n='-2.5'>beta</item>"
    "<!--comment--><?pi data?><p:q xml:space='preserve'> <![CDATA[<&>]]> </p:q><e/>\xc3\xa9\xf0\x9f\x98\x80</doc>";
static const char* const DEFAULT_XSL =
    "<xsl:stylesheet version='1.0' xmlns:xsl='http://www.w3.org/1999/XSL/Transform'>"
    "<xsl:template match='@*|node()'><xsl:copy><xsl:apply-templates select='@*|node()'/></xsl:copy></xsl:template>"
    "</xsl:stylesheet>";

// ------------------------------------------------------------------ structure-aware mutation
// Four times out of five only ONE quoted string ('..' or "..") or ONE run of character data (>..<) of the input is
// mutated (with libFuzzer's own mutators), so that the markup around it stays well-formed and the mutation lands in
// an XPath expression, a pattern, an attribute value template, a format string or text.  Otherwise: plain mutation.
// When the environment names a directory of valid seeds (C03_SEED_DIR, set by the runner for the seeded-start campaigns
// only), one mutation in three starts from one of THOSE instead of the corpus unit libFuzzer chose: the corpus fills
// up with inputs that are broken at the XML level (they are what adds coverage), and mutants of broken inputs stay broken.
extern "C" size_t LLVMFuzzerMutate(uint8_t* data, size_t size, size_t maxSize);
inline std::vector<std::string>& seedTemplates()
{
    static std::vector<std::string>* v = 0;
    if (v == 0)
    {
        v = new std::vector<std::string>;
        const char* dir = getenv("C03_SEED_DIR");
        if (dir && *dir)
            if (DIR* d = opendir(dir))
            {
                while (dirent* e = readdir(d))
                {
                    if (e->d_name[0] == '.') continue;
                    const std::string p = std::string(dir) + "/" + e->d_name;
                    if (FILE* f = fopen(p.c_str(), "rb"))
                    {
                        std::string data;
                        char buf[4096];
                        size_t n;
                        while ((n = fread(buf, 1, sizeof buf, f)) > 0) data.append(buf, n);
                        fclose(f);
                        if (!data.empty() && data.size() <= 6000) v->push_back(data);
                    }
                }
                closedir(d);
            }
    }
    return *v;
}
inline size_t mutateInsideMarkup(uint8_t* data, size_t size, size_t maxSize, unsigned seed, size_t trailerBytes)
{
    uint32_t r = seed * 2654435761u + 12345u;
    const std::vector<std::string>& tpl = seedTemplates();
    if (!tpl.empty() && (r >> 16) % 3 == 0)
    {
        const std::string& t = tpl[(r >> 3) % tpl.size()];
        if (t.size() <= maxSize)
        {
            memcpy(data, t.data(), t.size());
            size = t.size();
            count("mutations_from_seed_template");
        }
    }
    if (size < 12 + trailerBytes || (r >> 8) % 5 == 0) return LLVMFuzzerMutate(data, size, maxSize);
    const size_t body = size - trailerBytes;
    // collect candidate regions [b, e)
    enum { kMax = 512 };
    static size_t rb[kMax], re[kMax];
    size_t n = 0;
    for (size_t i = 0; i < body && n < kMax; ++i)
    {
        const uint8_t c = data[i];
        if (c == '"' || c == '\'' || c == '>')
        {
            const uint8_t close = c == '>' ? '<' : c;
            size_t j = i + 1;
            while (j < body && data[j] != close && j - i < 400) ++j;
            if (j < body && data[j] == close) { rb[n] = i + 1; re[n] = j; ++n; if (c != '>') i = j; }
        }
    }
    if (n == 0) return LLVMFuzzerMutate(data, size, maxSize);
    r = r * 1664525u + 1013904223u;
    const size_t k = (r >> 4) % n;
    const size_t b = rb[k], e = re[k], len = e - b;
    const size_t room = maxSize > size ? maxSize - size : 0;
    static uint8_t buf[1024];
    if (len > 400) return LLVMFuzzerMutate(data, size, maxSize);
    memcpy(buf, data + b, len);
    const size_t cap = len + (room < 200 ? room : 200);
    size_t newLen = LLVMFuzzerMutate(buf, len, cap == 0 ? 1 : cap);
    if (newLen > cap) newLen = cap;
    memmove(data + b + newLen, data + e, size - e);
    memcpy(data + b, buf, newLen);
    return size - len + newLen;
}

// wraps text in `depth` levels of <n>..</n> after a possible XML declaration / doctype (amplifier for deep nesting)
inline std::string nestXml(const std::string& xml, unsigned depth)
{
    if (depth == 0) return xml;
    // only documents without prolog are wrapped; others are left alone
    if (xml.compare(0, 2, "<?") == 0 || xml.compare(0, 2, "<!") == 0) return xml;
    std::string r;
    r.reserve(xml.size() + depth * 7);
    for (unsigned i = 0; i < depth; ++i) r += "<n>";
    r += xml;
    for (unsigned i = 0; i < depth; ++i) r += "</n>";
    return r;
}
}  // namespace fz
#endif
