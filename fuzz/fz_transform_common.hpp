// Pieces shared by fuzz_transform / fuzz_source / fuzz_capi
#ifndef FZ_TRANSFORM_COMMON_HPP
#define FZ_TRANSFORM_COMMON_HPP
#include "fz_common.hpp"

#include <sstream>

#include <xercesc/util/PlatformUtils.hpp>
#include <xalanc/XalanTransformer/XalanTransformer.hpp>
#include <xalanc/XalanTransformer/XalanCompiledStylesheet.hpp>
#include <xalanc/XalanTransformer/XalanParsedSource.hpp>
#include <xalanc/XSLT/XSLTInputSource.hpp>
#include <xalanc/XSLT/XSLTResultTarget.hpp>

namespace fz
{
struct Sink
{
    std::string data;
    unsigned long flushes;
    Sink() : flushes(0) {}
};
extern "C" inline CallbackSizeType fzSinkWrite(const char* d, CallbackSizeType n, void* h)
{
    ((Sink*)h)->data.append(d, n);
    return n;
}
extern "C" inline void fzSinkFlush(void* h) { ((Sink*)h)->flushes++; }

// rc / message contract of every XalanTransformer call that returns a status
inline void checkStatus(const char* what, int rc, const char* err, const char* counter = "error_with_message")
{
    if (err == 0) oracleFail(std::string(what) + ": getLastError() returned a null pointer");
    if (rc != 0)
    {
        if (err[0] == '\0') oracleFail(std::string(what) + ": rc!=0 with empty error message", "rc=" + std::to_string(rc));
        count(counter);
    }
}

// the transformer must still produce the expected bytes for a known-good job
inline void followUp(xalanc::XalanTransformer& t, const char* after)
{
    t.clearStylesheetParams();
    t.setIndent(-1);
    t.setOutputEncoding(xalanc::XalanDOMString());
    t.setEscapeURLs(xalanc::XalanTransformer::eEscapeURLsDefault);
    t.setOmitMETATag(xalanc::XalanTransformer::eOmitMETATagDefault);
    t.setStylesheetParam(xalanc::XalanDOMString("fzq"), xalanc::XalanDOMString("3+4"));
    std::istringstream xsl(FOLLOW_XSL), xml(FOLLOW_XML);
    std::ostringstream out;
    xalanc::XSLTInputSource xs(&xsl), ds(&xml);
    xs.setSystemId(dom("file:///vmem/follow.xsl").c_str());
    ds.setSystemId(dom("file:///vmem/follow.xml").c_str());
    const int rc = t.transform(ds, xs, xalanc::XSLTResultTarget(out));
    if (rc != 0)
        oracleFail(std::string("transformer unusable after ") + after + ": follow-up transformation failed",
                   std::string("rc=") + std::to_string(rc) + " err=" + (t.getLastError() ? t.getLastError() : "<null>"));
    if (out.str() != FOLLOW_EXPECT)
        oracleFail(std::string("transformer unusable after ") + after + ": follow-up transformation gave wrong output", out.str());
    t.clearStylesheetParams();
}
}  // namespace fz
#endif
