#!/usr/bin/env python3
"""Packs / unpacks inputs of the C03 fuzz targets in their own byte layout (see the head comment of each
fuzz_*.cpp) and writes the seed corpora.

  mkseed.py pack   <target> --opt A[,B] [--xsl FILE|-t TEXT] [--xml FILE] [--pname N --pvalue V] [--expr E] -o OUT
  mkseed.py unpack <target> FILE          -> JSON with the decoded sections
  mkseed.py seeds  <outdir>               -> writes <outdir>/<target>/* (hand-written seeds + /repo/samples)

Layouts (all via FuzzedDataProvider: integral options are taken from the END of the input, last byte first):
  fuzz_transform, fuzz_capi : xsl \\x source \\x pname \\x pvalue... optB optA
  fuzz_xpath                : expr \\x encoding... ctx entry
  fuzz_source               : document bytes... opt
A section read with ConsumeRandomLengthString ends at a backslash followed by a non-backslash byte; a literal
backslash is doubled.
"""
import argparse, glob, json, os, sys

SEP = b'\\\n'


def esc(b):
    return b.replace(b'\\', b'\\\\')


def consume_rls(data, pos):
    out = bytearray()
    n = len(data)
    while pos < n:
        c = data[pos]
        pos += 1
        if c == 0x5c and pos < n:
            c2 = data[pos]
            pos += 1
            if c2 != 0x5c:
                break
            out.append(0x5c)
            continue
        out.append(c)
    return bytes(out), pos


def b(x):
    return x if isinstance(x, bytes) else x.encode('utf-8')


def pack_transform(xsl=b'', xml=b'', pname=b'', pvalue=b'', optA=0, optB=0):
    return esc(b(xsl)) + SEP + esc(b(xml)) + SEP + esc(b(pname)) + SEP + b(pvalue) + bytes([optB & 255, optA & 255])


def pack_xpath(expr, encoding=b'', entry=0, ctx=0):
    return esc(b(expr)) + SEP + b(encoding) + bytes([ctx & 255, entry & 255])


def pack_source(doc, opt=0):
    return b(doc) + bytes([opt & 255])


def unpack(target, data):
    if target in ('fuzz_transform', 'fuzz_capi'):
        optA = data[-1] if len(data) >= 1 else 0
        optB = data[-2] if len(data) >= 2 else 0
        body = data[:-2] if len(data) >= 2 else b''
        xsl, p = consume_rls(body, 0)
        xml, p = consume_rls(body, p)
        pname, p = consume_rls(body, p)
        return {'optA': optA, 'optB': optB, 'stylesheet': xsl, 'source': xml, 'param_name': pname, 'param_value': body[p:]}
    if target == 'fuzz_xpath':
        entry = data[-1] if len(data) >= 1 else 0
        ctx = data[-2] if len(data) >= 2 else 0
        body = data[:-2] if len(data) >= 2 else b''
        expr, p = consume_rls(body, 0)
        return {'entry': entry, 'ctx': ctx, 'expression': expr, 'encoding': body[p:]}
    if target == 'fuzz_source':
        return {'opt': data[-1] if data else 0, 'document': data[:-1]}
    raise SystemExit('unknown target ' + target)


def readable(target, data, limit=400):
    d = unpack(target, data)
    out = {}
    for k, v in d.items():
        if isinstance(v, bytes):
            s = v.decode('utf-8', 'replace')
            if k in ('stylesheet', 'source') and not s:
                s = '<built-in default>'
            out[k] = s[:limit] + ('...[+%d]' % (len(s) - limit) if len(s) > limit else '')
        else:
            out[k] = v
    return out


XSLNS = "xmlns:xsl='http://www.w3.org/1999/XSL/Transform'"


def ss(body, attrs=''):
    return "<xsl:stylesheet version='1.0' %s %s>%s</xsl:stylesheet>" % (XSLNS, attrs, body)


SRC = ("<doc xmlns:p='urn:p' a='1'><item id='i1' p:k='v' n='10'>alpha<sub>s</sub></item><item id='i2' n='-2.5'>beta</item>"
       "<!--c--><?pi d?><p:q> <![CDATA[<&>]]> </p:q><e/>é\U0001F600</doc>")

HAND = [
    # (name, stylesheet, source, pname, pvalue)
    ('valueof', ss("<xsl:template match='/'><o><xsl:value-of select='sum(//@n) div 3'/></o></xsl:template>"), SRC, '', ''),
    ('param', ss("<xsl:param name='p' select='1'/><xsl:template match='/'><o><xsl:value-of select='$p * 2'/>"
                 "<xsl:value-of select='string($p)'/></o></xsl:template>"), SRC, 'p', "9223372036854775807 + 1e308"),
    ('foreach-sort', ss("<xsl:template match='/'><xsl:for-each select='//item'><xsl:sort select='@n' data-type='number' order='descending'/>"
                        "<xsl:sort select='.' lang='en' case-order='upper-first'/><i><xsl:value-of select='position()'/>:<xsl:value-of select='.'/></i></xsl:for-each></xsl:template>"), SRC, '', ''),
    ('choose-if', ss("<xsl:template match='item'><xsl:choose><xsl:when test='@n &gt; 0'>pos</xsl:when><xsl:otherwise>neg</xsl:otherwise></xsl:choose>"
                     "<xsl:if test='not(sub)'>nosub</xsl:if></xsl:template>"), SRC, '', ''),
    ('calltemplate', ss("<xsl:template name='r'><xsl:param name='n' select='3'/><xsl:if test='$n &gt; 0'>x<xsl:call-template name='r'>"
                        "<xsl:with-param name='n' select='$n - 1'/></xsl:call-template></xsl:if></xsl:template>"
                        "<xsl:template match='/'><xsl:call-template name='r'/></xsl:template>"), SRC, '', ''),
    ('key-id', ss("<xsl:key name='k' match='item' use='@n'/><xsl:template match='/'><xsl:value-of select='key(\"k\",10)'/>"
                  "<xsl:value-of select='id(\"i2\")'/><xsl:value-of select='generate-id(//e)=generate-id(//e[1])'/></xsl:template>"),
     "<!DOCTYPE doc [<!ATTLIST item id ID #IMPLIED>]>" + SRC, '', ''),
    ('number', ss("<xsl:template match='item'><xsl:number level='any' count='item|sub' format='1.a.I'/><xsl:number value='position()*1000' "
                  "grouping-separator=',' grouping-size='3' format='i'/></xsl:template>"), SRC, '', ''),
    ('formatnumber', ss("<xsl:decimal-format name='d' decimal-separator=',' grouping-separator='.' NaN='nan' infinity='inf' minus-sign='-'/>"
                        "<xsl:template match='/'><xsl:value-of select='format-number(1234567.891, \"#.##0,00\", \"d\")'/>"
                        "<xsl:value-of select='format-number(-1 div 0, \"#,##0.00;(#)\")'/><xsl:value-of select='format-number(0.5, \"00%\")'/></xsl:template>"), SRC, '', ''),
    ('copy-attr', ss("<xsl:template match='@*|node()'><xsl:copy><xsl:apply-templates select='@*|node()'/></xsl:copy></xsl:template>"
                     "<xsl:template match='e'><xsl:element name='{name()}x' namespace='urn:z'><xsl:attribute name='p:a' namespace='urn:q'>v</xsl:attribute>"
                     "<xsl:comment>c</xsl:comment><xsl:processing-instruction name='t'>d</xsl:processing-instruction><xsl:copy-of select='/doc/item[1]'/></xsl:element></xsl:template>"), SRC, '', ''),
    ('output-html', ss("<xsl:output method='html' indent='yes' encoding='ISO-8859-1' doctype-public='-//W3C//DTD HTML 4.0//EN'/>"
                       "<xsl:template match='/'><html><head><title>t</title><script>a &lt; b</script></head><body><a href='x yé'>l</a><br/>"
                       "<xsl:value-of select='//p:q' xmlns:p='urn:p' disable-output-escaping='yes'/></body></html></xsl:template>"), SRC, '', ''),
    ('output-text-cdata', ss("<xsl:output method='xml' cdata-section-elements='c' standalone='yes' doctype-system='x.dtd' encoding='UTF-16'/>"
                             "<xsl:strip-space elements='*'/><xsl:preserve-space elements='p:q' xmlns:p='urn:p'/>"
                             "<xsl:template match='/'><c>]]&gt;<xsl:value-of select='.'/></c><xsl:text>&#10;</xsl:text></xsl:template>"), SRC, '', ''),
    ('variables-rtf', ss("<xsl:variable name='g'><a>1</a><a>2</a></xsl:variable><xsl:template match='/'><xsl:variable name='l' select='//item'/>"
                         "<xsl:copy-of select='$g'/><xsl:value-of select='count($l)'/><xsl:value-of select='string-length($g)'/>"
                         "<xsl:for-each xmlns:x='http://xml.apache.org/xalan' select='x:nodeset($g)/a'><xsl:value-of select='.'/></xsl:for-each></xsl:template>"), SRC, '', ''),
    ('import-include-doc', ss("<xsl:import href='inc.xsl'/><xsl:template match='/'><xsl:value-of select='$incv'/><xsl:call-template name='inc'/>"
                              "<xsl:value-of select='document(\"doc.xml\")//item[@k=2]'/><xsl:apply-imports/><xsl:message>m</xsl:message></xsl:template>"), SRC, '', ''),
    ('relative-hrefs', ss("<xsl:include href='../inc.xsl'/><xsl:template match='/'><xsl:value-of select='document(\"../doc.xml\")//item[@k=1]'/>"
                          "<xsl:value-of select='document(\"./x/../../../doc.xml\")//item[@k=2]'/><xsl:value-of select='document(\"a/b/../../doc.xml#f?q\")/*/@id'/>"
                          "<xsl:value-of select='count(document(\"\"))'/></xsl:template>"), SRC, '', ''),
    ('modes-priority', ss("<xsl:template match='item' mode='m' priority='2'>A</xsl:template><xsl:template match='item[1]' mode='m'>B</xsl:template>"
                          "<xsl:template match='/'><xsl:apply-templates select='//item' mode='m'><xsl:with-param name='w' select='1'/></xsl:apply-templates></xsl:template>"), SRC, '', ''),
    ('attrsets-alias', ss("<xsl:attribute-set name='s'><xsl:attribute name='k'>v</xsl:attribute></xsl:attribute-set>"
                          "<xsl:namespace-alias stylesheet-prefix='o' result-prefix='xsl'/>"
                          "<xsl:template match='/'><o:template xsl:use-attribute-sets='s' match='{name(*)}'/><xsl:fallback/></xsl:template>", "xmlns:o='urn:o' exclude-result-prefixes='o'"), SRC, '', ''),
    ('strings', ss("<xsl:template match='/'><xsl:value-of select='translate(substring(normalize-space(//item), 2, 3), \"abc\", \"AB\")'/>"
                   "<xsl:value-of select='concat(substring-before(\"a-b\",\"-\"), substring-after(\"a-b\",\"-\"), string-length(\"\U0001F600\"))'/>"
                   "<xsl:value-of select='starts-with(name(//*[last()]), \"e\") and contains(\"ab\",\"b\") or lang(\"en\")'/>"
                   "<xsl:value-of select='floor(-1.5) + ceiling(1.2) + round(2.5) + number(\"1e3\") mod 7 - -0'/></xsl:template>"), SRC, '', ''),
    ('exslt', ss("<xsl:template match='/'><xsl:value-of select='m:max(//@n)'/><xsl:value-of select='s:align(\"abc\",\"------\",\"right\")'/>"
                 "<xsl:value-of select='count(t:distinct(//item/@n))'/><xsl:value-of select='d:evaluate(\"1+1\")'/></xsl:template>",
                 "xmlns:m='http://exslt.org/math' xmlns:s='http://exslt.org/strings' xmlns:t='http://exslt.org/sets' xmlns:d='http://exslt.org/dynamic'"), SRC, '', ''),
    ('bignum', ss("<xsl:template match='/'><xsl:value-of select='1" + "0" * 89 + "'/>|<xsl:value-of select='-0." + "0" * 60 + "1'/>|"
                  "<xsl:value-of select='format-number(1" + "0" * 40 + ", \"#,###.00\")'/>|<xsl:number value='1" + "0" * 25 + "' format='I'/>|"
                  "<xsl:number value='9223372036854775807' format='a'/>|<xsl:value-of select='substring(\"abc\", 2, 9223372036854775808)'/></xsl:template>"), SRC, '', ''),
    ('lre-simplified', "<out xsl:version='1.0' %s a='{1+1}{{x}}'><xsl:value-of select='count(//node())'/></out>" % XSLNS, SRC, '', ''),
]

XPATHS = [
    "/doc/item[@n > 0]/sub", "//p:q | //item[last()]", "count(//node()) + sum(//@n)", "string(//item[2])", "id('i1 i2')/@n",
    "ancestor-or-self::*[1]/following-sibling::node()[position() < 3]", "preceding::comment() | //processing-instruction('pi')",
    "translate(normalize-space(.), 'ab', 'AB')", "substring('12345', 1.5, 2.6)", "1 div 0 = -1 div -0", "namespace::* | @*",
    "//*[lang('en')][not(self::e)]", "boolean(//item) and not(false()) or 1 = 2", "floor(-0.5) * ceiling(2.1) mod 3 - round(1e308)",
    "concat('a', 'b', name(/*), local-name(//@p:k), namespace-uri(//@p:k))", "..//text()[contains(., 'a')][string-length() >= 1]",
    "9223372036854775807 + 1", "(//item)[1]/child::node()/descendant-or-self::text()", "self::node()/parent::*/attribute::n",
    "starts-with(substring-after('a-b', '-'), substring-before('b-c', '-'))", "string(1" + "0" * 89 + ") = string(-1" + "0" * 400 + ")",
    "string(0." + "0" * 330 + "1)", "round(" + "9" * 30 + ".5) mod 7", "substring('abc', -1" + "0" * 40 + ", 1 div 0)", "number('  12  ') != number('x')", "-(-(1))", "/",
]

DOCS = [
    SRC,
    "<?xml version='1.0' encoding='ISO-8859-1'?><a>\xe9</a>".encode('latin-1'),
    "<!DOCTYPE d [<!ENTITY e 'x'><!ELEMENT d ANY><!ATTLIST d i ID #IMPLIED k CDATA 'dflt'>]><d i='z'>&e;&#x10FFFF;&lt;<![CDATA[]]]]><![CDATA[>]]></d>",
    "<?xml version='1.1'?><a xmlns='urn:d' xmlns:b='urn:b' b:c='&#1;'><b:x/>\u0085 </a>",
    "<!DOCTYPE doc SYSTEM 'ent.dtd'><doc><item id='q'>&e;</item></doc>",
    "<a xml:space='preserve' xml:lang='x'> <b> </b>\t<?p?><!----></a><!--t--><?t t?>",
    "﻿<a/>".encode('utf-16-le'),
    "<a" + " ".join(" a%d='v'" % i for i in range(40)) + "/>",
]


def write(path, data):
    os.makedirs(os.path.dirname(path), exist_ok=True)
    with open(path, 'wb') as f:
        f.write(data)


def seeds(outdir, samples='/repo/samples'):
    n = 0
    # hand-written: each in a few option combinations so that every API form starts with valid inputs
    for i, (name, xsl, xml, pn, pv) in enumerate(HAND):
        for optA, optB in ((0, 0), (1, 0), (2, 0), (3, 0)):
            # fuzz_transform: bit 6 = trace listener; form 2 (Xerces DOM) seeds carry no CDATA section (pre-filter F-C03-assert-clone-cdata)
            a = optA | (8 if pn else 0) | (0x40 if i % 3 == 0 else 0)
            x = xml.replace('<![CDATA[<&>]]>', '&lt;&amp;') if optA == 2 else xml
            write('%s/fuzz_transform/hand-%s-%d' % (outdir, name, optA), pack_transform(xsl, x, pn, pv, a, optB))
            # fuzz_capi: forms 0..5, bit 6 = fresh handle
            for form in (optA, optA + 4 if optA < 2 else optA):
                a = form | (8 if pn else 0) | (0x40 if i % 4 == 0 else 0)
                write('%s/fuzz_capi/hand-%s-%d' % (outdir, name, form), pack_transform(xsl, xml, pn, pv, a, i & 1))
            n += 2
    for t in ('fuzz_transform', 'fuzz_capi'):
        write('%s/%s/hand-default-fresh' % (outdir, t), pack_transform('', '', '', '', 4, 0))
        write('%s/%s/hand-listener-html' % (outdir, t), pack_transform(HAND[9][1], SRC, '', '', 0x80, 0x10 | 2))
        write('%s/%s/hand-listener-text-nest' % (outdir, t), pack_transform('', "<r>t</r>", '', '', 0x81, 0x80))
        write('%s/%s/hand-enc-utf16-indent' % (outdir, t), pack_transform(HAND[8][1], SRC, '', '', 0, 2 | 4))
        write('%s/%s/hand-enc-ascii' % (outdir, t), pack_transform(HAND[15][1], SRC, '', '', 2, 12 | 0x40))
        write('%s/%s/hand-param-number' % (outdir, t), pack_transform(HAND[1][1], SRC, 'p', '1e89', 8 | 0x20, 0))
        write('%s/%s/hand-param-cstr' % (outdir, t), pack_transform(HAND[1][1], SRC, 'p', "'a''b'", 8 | 0x10 | 1, 0))
    rel = [h for h in HAND if h[0] == 'relative-hrefs'][0]
    write('%s/fuzz_transform/hand-relative-hrefs-nosysid' % outdir, pack_transform(rel[1], SRC, '', '', 0, 0x40))
    write('%s/fuzz_transform/hand-relative-hrefs-nosysid-compiled' % outdir, pack_transform(rel[1], SRC, '', '', 1, 0x40))
    # samples from the source tree: stylesheet + the foo.xml / birds.xml next to it (small ones only)
    for xsl in sorted(glob.glob(samples + '/*/*.xsl')):
        d = os.path.dirname(xsl)
        xmls = sorted(glob.glob(d + '/*.xml'))
        if not xmls:
            continue
        xs = open(xsl, 'rb').read()
        xm = open(xmls[0], 'rb').read()
        if len(xs) + len(xm) > 6000:
            continue
        tag = os.path.basename(d) + '-' + os.path.basename(xsl)[:-4]
        pn, pv = (b'param1', b"'hello'") if b'param1' in xs else (b'', b'')
        for optA in (0, 1):
            for t in ('fuzz_transform', 'fuzz_capi'):
                write('%s/%s/sample-%s-%d' % (outdir, t, tag, optA), pack_transform(xs, xm, pn, pv, optA | (8 if pn else 0), 0))
                n += 1
    for i, e in enumerate(XPATHS):
        for entry in range(6):
            if (i + entry) % 3 == 0 or entry == 0:
                write('%s/fuzz_xpath/hand-%02d-%d' % (outdir, i, entry), pack_xpath(e, b'' if entry != 5 or i % 2 else b'UTF-8', entry, i * 7 % 23))
                n += 1
    for i, d in enumerate(DOCS):
        for opt in range(5):
            write('%s/fuzz_source/hand-%02d-%d' % (outdir, i, opt), pack_source(d, opt))
            n += 1
    for xml in sorted(glob.glob(samples + '/*/*.xml')):
        data = open(xml, 'rb').read()
        if len(data) > 1000:
            continue
        tag = os.path.basename(os.path.dirname(xml)) + '-' + os.path.basename(xml)[:-4]
        write('%s/fuzz_source/sample-%s' % (outdir, tag), pack_source(data, len(tag) % 5))
        n += 1
    return n


def main():
    ap = argparse.ArgumentParser()
    sub = ap.add_subparsers(dest='cmd', required=True)
    p = sub.add_parser('pack')
    p.add_argument('target')
    p.add_argument('--opt', default='0,0')
    p.add_argument('--xsl'); p.add_argument('--xml'); p.add_argument('--pname', default=''); p.add_argument('--pvalue', default='')
    p.add_argument('--expr'); p.add_argument('--encoding', default=''); p.add_argument('--doc')
    p.add_argument('-o', required=True)
    u = sub.add_parser('unpack')
    u.add_argument('target'); u.add_argument('file')
    s = sub.add_parser('seeds')
    s.add_argument('outdir')
    a = ap.parse_args()

    def text_or_file(v):
        if v is None:
            return b''
        if os.path.isfile(v):
            return open(v, 'rb').read()
        return v.encode()

    if a.cmd == 'pack':
        o = [int(x, 0) for x in a.opt.split(',')] + [0]
        if a.target in ('fuzz_transform', 'fuzz_capi'):
            data = pack_transform(text_or_file(a.xsl), text_or_file(a.xml), a.pname, a.pvalue, o[0], o[1])
        elif a.target == 'fuzz_xpath':
            data = pack_xpath(text_or_file(a.expr), a.encoding, o[0], o[1])
        else:
            data = pack_source(text_or_file(a.doc or a.xml), o[0])
        write(os.path.abspath(a.o), data)
    elif a.cmd == 'unpack':
        print(json.dumps(readable(a.target, open(a.file, 'rb').read(), 100000), indent=1, ensure_ascii=False))
    else:
        print('%d seeds written to %s' % (seeds(a.outdir), a.outdir))


if __name__ == '__main__':
    main()
