#!/bin/bash
# Sensitivity study of the C03 fuzz engine (results: fuzz/README.md, "Sensitivity").
# Applies one realistic defect at a time to a scratch git worktree of /repo OUTSIDE /repo and /verif, builds it and
# runs `bin/check-c03-fuzz quick` against it.  Usage: fuzz/sensitivity.sh [mutant ...]   (default: all)
# The worktree and its build are removed at the end.  /verif/evidence/C03.fuzz.json and /verif/replays/C03 are
# overwritten / filled by these runs: re-run the check on the real tree afterwards.
set -u
W=/var/tmp/c03mut
OUT=${C03_SENS_OUT:-/verif/.scratch/sens}
mkdir -p "$OUT"
[ -d "$W" ] || git -C /repo worktree add "$W" HEAD > /dev/null 2>&1 || { echo "cannot create worktree"; exit 2; }
export VERIF_REPO=$W VERIF_BUILD=$W/vbuild
T=$W/src/xalanc

apply_mutant() {
  case $1 in
    M1-empty-error-message)   # (i) doTransform maps XSLException to -1 but leaves m_errorMessage empty
      python3 - "$T/XalanTransformer/XalanTransformer.cpp" <<'E'
import sys
p = sys.argv[1]; s = open(p).read()
old = "        TranscodeToLocalCodePage(theErrorMessage, m_errorMessage, true);\n\n        theResult = -1;\n"
i = s.rfind(old); assert i > 0
s = s[:i] + "        theResult = -1;\n" + s[i + len(old):]
open(p, 'w').write(s)
E
      ;;
    M2-tokenizer-bound)       # (ii) XPath tokenizer: no end-of-input check while scanning a '...' literal
      sed -i "s/for(++i; i < nChars \&\& (c = pat\[i\]) != XalanUnicode::charApostrophe; ++i);/for(++i; (c = pat[i]) != XalanUnicode::charApostrophe; ++i);/" "$T/XPath/XPathProcessorImpl.cpp"
      grep -q "for(++i; (c = pat\[i\]) != XalanUnicode::charApostrophe" "$T/XPath/XPathProcessorImpl.cpp" ;;
    M3-revert-af79dae)        # (iii) number-to-string: int64 cast, 101-byte stack buffer
      git -C /repo show af79dae | git -C "$W" apply -R ;;
    M4-leak-stylesheet)       # (iv) destroyStylesheet forgets to destroy the object
      python3 - "$T/XalanTransformer/XalanTransformer.cpp" <<'E'
import sys
p = sys.argv[1]; s = open(p).read()
old = "        XalanDestroy(\n            m_memoryManager,\n            const_cast<XalanCompiledStylesheet*>(theStylesheet));\n"
assert s.count(old) == 1
open(p, 'w').write(s.replace(old, ""))
E
      ;;
    M5-revert-55ce543)        # (v) CDATA look-ahead past the end of the character array
      git -C /repo show 55ce543 | git -C "$W" apply -R ;;
    M6-no-reset)              # transformer state is not reset after a transformation
      python3 - "$T/XalanTransformer/XalanTransformer.cpp" <<'E'
import sys
p = sys.argv[1]; s = open(p).read()
i = s.index("XalanTransformer::EnsureReset::~EnsureReset()")
j = s.index("}\n\n\n\nint\nXalanTransformer::doTransform", i)
s = s[:i] + "XalanTransformer::EnsureReset::~EnsureReset()\n{\n" + s[j:]
old2 = "        m_stylesheetExecutionContext->reset();\n\n// JIRA-451"
assert s.count(old2) == 1
open(p, 'w').write(s.replace(old2, "\n// JIRA-451"))
E
      ;;
    M7-uri-underflow)         # (ii') XalanParsedURI::resolve: "../" at the start of a path steps below index 0
      python3 - "$T/PlatformSupport/XalanParsedURI.cpp" <<'E'
import sys
p = sys.argv[1]; s = open(p).read()
old = "                            if (index > 0) --index;\n                            for ( ; index > 0 && m_path[index-1] != XalanUnicode::charSolidus; index--) \n"
assert s.count(old) >= 1
open(p, 'w').write(s.replace(old, "                            --index;\n                            for ( ; index > 0 && m_path[index-1] != XalanUnicode::charSolidus; index--) \n", 1))
E
      ;;
    M8-capi-null-error)       # C API: XalanGetLastError returns an empty string after an XML parse failure of the source
      python3 - "$T/XalanTransformer/XalanTransformer.cpp" <<'E'
import sys
p = sys.argv[1]; s = open(p).read()
old = "    catch(const SAXParseException&  e)\n    {\n        FormatSAXParseException(\n"
i = s.find(old); assert i > 0   # the parseSource() handler
j = s.find("theResult = -2;", i)
s = s[:i] + "    catch(const SAXParseException&  e)\n    {\n        (void)e;\n        " + s[j:]
open(p, 'w').write(s)
E
      ;;
    *) echo "unknown mutant $1"; return 1 ;;
  esac
}

ALL="M1-empty-error-message M2-tokenizer-bound M3-revert-af79dae M4-leak-stylesheet M5-revert-55ce543 M6-no-reset M7-uri-underflow M8-capi-null-error"
for m in ${@:-$ALL}; do
  git -C "$W" checkout -q -- . || exit 2
  apply_mutant "$m" || { echo "$m: cannot apply"; continue; }
  git -C "$W" diff --stat | tail -1
  t0=$(date +%s)
  ( cd /verif && bin/check-c03-fuzz quick ) > "$OUT/$m.log" 2>&1
  rc=$?
  echo "== $m rc=$rc total $(( $(date +%s) - t0 )) s"
  grep -E "^violation signature|^FLAKY|^C03 fuzz" "$OUT/$m.log" | cut -c1-260
  cp /verif/evidence/C03.fuzz.json "$OUT/$m.json" 2>/dev/null
done
git -C "$W" checkout -q -- .
if [ "${C03_SENS_KEEP:-0}" != 1 ]; then
  git -C /repo worktree remove --force "$W"
fi
