"""Client for the xdrv driver process (DESIGN 2.3)."""
import os, struct, subprocess, tempfile, shutil, signal

VERIF = os.path.dirname(os.path.dirname(os.path.dirname(os.path.abspath(__file__))))
BROOT = os.environ.get('VERIF_BUILD', os.path.join(VERIF, 'build'))


class DriverCrash(Exception):
    def __init__(self, stderr, returncode):
        Exception.__init__(self, 'driver died rc=%s' % returncode)
        self.stderr = stderr
        self.returncode = returncode


def enc(v):
    if isinstance(v, bytes):
        return v
    if isinstance(v, str):
        return v.encode('utf-8', 'surrogatepass')
    if isinstance(v, bool):
        return b'1' if v else b'0'
    return str(v).encode()


def dec(b):
    return b.decode('utf-8', 'surrogatepass')


class Resp(object):
    """ordered list of (key, bytes) with convenience accessors"""

    def __init__(self, fields):
        self.fields = fields

    def get(self, k, default=None):
        for a, b in self.fields:
            if a == k:
                return b
        return default

    def gets(self, k, default=None):
        v = self.get(k)
        return default if v is None else dec(v)

    def all(self, k):
        return [b for a, b in self.fields if a == k]

    def has(self, k):
        return self.get(k) is not None

    def asdict(self):
        d = {}
        for a, b in self.fields:
            try:
                s = b.decode('utf-8')
            except UnicodeDecodeError:
                s = repr(b)
            d.setdefault(a, []).append(s)
        return d


class Driver(object):
    def __init__(self, flavor='asan', exe='xdrv', env=None, full_exit=False):
        self.path = os.path.join(BROOT, flavor, 'drv', exe)
        self.proc = None
        self.tmpdir = tempfile.mkdtemp(prefix='xdrv.', dir='/dev/shm')
        self.errpath = os.path.join(self.tmpdir, 'stderr.txt')
        self.extra_env = env or {}
        self.full_exit = full_exit
        self.restarts = 0

    def start(self):
        env = dict(os.environ)
        env.setdefault('ASAN_OPTIONS', 'detect_leaks=0:abort_on_error=0:allocator_may_return_null=1:detect_stack_use_after_return=0:malloc_context_size=12')  # RSS is bounded by the watchdog in _readn
        env.setdefault('UBSAN_OPTIONS', 'print_stacktrace=1:halt_on_error=1')
        env['XDRV_TMPDIR'] = os.path.join(self.tmpdir, 'files')
        env['LC_ALL'] = 'C'
        env['TZ'] = 'UTC'
        if self.full_exit:
            env['XDRV_FULL_EXIT'] = '1'
        env.update(self.extra_env)
        os.makedirs(env['XDRV_TMPDIR'], exist_ok=True)
        self.errf = open(self.errpath, 'wb')
        self.proc = subprocess.Popen([self.path], stdin=subprocess.PIPE, stdout=subprocess.PIPE,
                                     stderr=self.errf, env=env, bufsize=0)

    def close(self):
        if self.proc:
            try:
                self.proc.stdin.close()
                self.proc.wait(timeout=10)
            except Exception:
                self.proc.kill()
                self.proc.wait()
            self.proc = None
            self.errf.close()
        shutil.rmtree(self.tmpdir, ignore_errors=True)

    CALL_TIMEOUT = float(os.environ.get("XDRV_CALL_TIMEOUT", "20"))
    RSS_LIMIT_KB = 1024 * 1024

    def _rss_kb(self):
        try:
            with open('/proc/%d/statm' % self.proc.pid) as f:
                return int(f.read().split()[1]) * 4
        except Exception:
            return 0

    def _readn(self, n):
        import select, time
        buf = b''
        end = time.time() + self.CALL_TIMEOUT
        while len(buf) < n:
            left = end - time.time()
            if left <= 0:
                self.hung = 'no answer within %.0f s' % self.CALL_TIMEOUT
                self.proc.kill()
                return None
            r, _, _ = select.select([self.proc.stdout], [], [], min(left, 0.5))
            if not r:
                if self._rss_kb() > self.RSS_LIMIT_KB:
                    self.hung = 'resident set above %d MB' % (self.RSS_LIMIT_KB // 1024)
                    self.proc.kill()
                    return None
                continue
            c = self.proc.stdout.read(n - len(buf))
            if not c:
                return None
            buf += c
        return buf

    def stderr_text(self):
        try:
            self.errf.flush()
            with open(self.errpath, 'rb') as f:
                return f.read()[-20000:].decode('utf-8', 'replace')
        except Exception:
            return ''

    def call(self, cmd, fields=(), **kw):
        """fields: iterable of (key, value); kw: additional single-valued fields.
        Raises DriverCrash if the driver dies (the driver is restarted on next call)."""
        if self.proc is None:
            self.start()
        items = [('cmd', cmd)] + list(kw.items()) + list(fields)
        parts = []
        for k, v in items:
            kb = enc(k)
            vb = enc(v)
            parts.append(struct.pack('<I', len(kb)) + kb + struct.pack('<I', len(vb)) + vb)
        body = b''.join(parts)
        if os.environ.get('XDRV_DUMP_REQ'):
            # triage aid: append every framed request to a file that can be fed to `xdrv < file` under gdb
            with open(os.environ['XDRV_DUMP_REQ'], 'ab') as f:
                f.write(struct.pack('<I', len(body)) + body)
        try:
            self.proc.stdin.write(struct.pack('<I', len(body)) + body)
            self.proc.stdin.flush()
            hdr = self._readn(4)
        except (BrokenPipeError, OSError):
            hdr = None
        if hdr is None:
            return self._crashed()
        total = struct.unpack('<I', hdr)[0]
        data = self._readn(total) if total else b''
        if data is None:
            return self._crashed()
        out = []
        off = 0
        vals = []
        while off + 4 <= len(data):
            l = struct.unpack_from('<I', data, off)[0]
            off += 4
            vals.append(data[off:off + l])
            off += l
        for i in range(0, len(vals) - 1, 2):
            out.append((vals[i].decode('utf-8', 'replace'), vals[i + 1]))
        return Resp(out)

    def _crashed(self):
        try:
            rc = self.proc.wait(timeout=30)
        except Exception:
            self.proc.kill()
            rc = self.proc.wait()
        err = self.stderr_text()
        if getattr(self, 'hung', None):
            err += '\nXDRV-HANG: %s\n' % self.hung
            self.hung = None
        self.proc = None
        self.errf.close()
        self.restarts += 1
        # truncate stderr for the next incarnation
        open(self.errpath, 'wb').close()
        raise DriverCrash(err, rc)


def crash_signature(stderr):
    """sanitizer kind + first in-library frame, or 'assert file:line' (DESIGN 2.7)"""
    import re
    m = re.search(r"([\w./+-]+):(\d+): .*Assertion `(.*)' failed", stderr)
    if m:
        # the assertion's text identifies it; the line number moves whenever the file is edited
        return 'assert %s `%s`' % (os.path.basename(m.group(1)), re.sub(r'\s+', ' ', m.group(3))[:70])
    kind = None
    m = re.search(r'ERROR: AddressSanitizer: ([\w-]+)', stderr)
    if m:
        kind = 'asan:' + m.group(1)
    else:
        m = re.search(r'runtime error: (.*)', stderr)
        if m:
            kind = 'ubsan:' + re.sub(r'[0-9.e+-]{6,}', 'N', m.group(1))[:80]
            m2 = re.search(r'([\w./+-]+\.(?:cpp|hpp)):(\d+):\d+: runtime error', stderr)
            if m2:
                return '%s @%s:%s' % (kind, os.path.basename(m2.group(1)), m2.group(2))
    if kind is None and 'XDRV-HANG' in stderr:
        return 'hang-or-runaway-allocation'
    if kind is None:
        if 'terminate called' in stderr or 'terminating' in stderr:
            kind = 'terminate'
        else:
            kind = 'died'
    frame = None
    for m in re.finditer(r'#\d+ 0x[0-9a-f]+ in (\S.*?) (/\S+?):(\d+)', stderr):
        fn, path, line = m.group(1), m.group(2), m.group(3)
        if '/src/xalanc/' in path:
            frame = '%s:%s' % (os.path.basename(path), line)
            break
    return '%s @%s' % (kind, frame)
