"""known_findings.jsonl: committed list of genuine defects (DESIGN 2.8).  Never written at run time.
Each line: {id, property, status: open|fixed, what, signature_re, repro, commit?}
An *open* entry suppresses exactly the failures whose signature matches signature_re (full match);
a *fixed* entry suppresses nothing."""
import json, os, re

VERIF = os.path.dirname(os.path.dirname(os.path.dirname(os.path.abspath(__file__))))


class Findings(object):
    def __init__(self, entries):
        self.entries = entries
        for e in entries:
            e['_re'] = re.compile(e['signature_re']) if e.get('signature_re') else None

    def match(self, prop, signature):
        for e in self.entries:
            if e.get('status') != 'open' or e.get('property') != prop or e['_re'] is None:
                continue
            if e['_re'].fullmatch(signature):
                return {k: v for k, v in e.items() if k != '_re'}
        return None

    def match_any(self, signature):
        """open entry of ANY property whose signature matches (used for Debug-only assertion findings, which
        are the same root cause whichever property's check runs into them)"""
        for e in self.entries:
            if e.get('status') == 'open' and e['_re'] is not None and e['_re'].fullmatch(signature):
                return {k: v for k, v in e.items() if k != '_re'}
        return None

    def by_id(self, i):
        for e in self.entries:
            if e['id'] == i:
                return {k: v for k, v in e.items() if k != '_re'}
        return None

    def open_for(self, prop):
        return [e for e in self.entries if e.get('status') == 'open' and e.get('property') == prop]


def load():
    path = os.path.join(VERIF, 'known_findings.jsonl')
    entries = []
    if os.path.exists(path):
        with open(path) as f:
            for line in f:
                line = line.strip()
                if line and not line.startswith('#'):
                    entries.append(json.loads(line))
    return Findings(entries)
