"""Result-tree generator shared by C04 / C08 / C14: strings weighted towards the serializers' mechanisms
(DESIGN C04) and small trees of elements/attributes/text/CDATA/comments/PIs.

Tree representation (JSON-able):
  element: {'t':'e', 'n': qname, 'a': [[qname, value], ...], 'c': [children]}
  text:    {'t':'t', 'v': str}     cdata: {'t':'d', 'v': str}
  comment: {'t':'c', 'v': str}     pi: {'t':'p', 'n': target, 'v': data}
xmlns declarations are ordinary attributes ('xmlns:p' / 'xmlns').
"""
from hypothesis import strategies as st

XML_NS = 'http://www.w3.org/XML/1998/namespace'

SPECIAL = ['<', '&', '>', '"', "'", '\t', '\r', '\n', ']]>', ']]', ']', '\r\n', '\x85', '\u2028', ' ', '  ']
MULTI = ['\xe9', '\xff', '\u0100', '\u20ac', '\u4e2d', '\ud7ff', '\ue000', '\ufffd', '\U00010000', '\U0001F600', '\U0010FFFF']
C1 = ['\x7f', '\x80', '\x84', '\x86', '\x9f', '\xa0']
FORBIDDEN = ['\x01', '\x08', '\x0b', '\x0c', '\x0e', '\x1f', '\ufffe', '\uffff', '\ud800', '\udbff', '\udc00', '\udfff', '\ud83d', '\ude00']

NEAR = [n for base in (512, 1024, 1536, 2048) for n in range(base - 60, base + 8)]


@st.composite
def text(draw, allow_forbidden=True, max_segments=6, allow_pad=True, profile='all'):
    """a string built from pads (lengths near the 512-unit writer buffers) and special characters"""
    n = draw(st.integers(1, max_segments))
    parts = []
    kinds = {'clean': ['plain', 'markup', 'markup', 'multi', 'pad', 'ws'],
             'controls': ['plain', 'special', 'special', 'multi', 'pad', 'c1', 'ws'],
             'all': ['plain', 'special', 'special', 'multi', 'pad', 'c1', 'forbidden', 'ws']}[profile]
    for _ in range(n):
        k = draw(st.sampled_from(kinds))
        if k == 'markup':
            parts.append(draw(st.sampled_from(['<', '&', '>', '"', "'", ']]>', ']]', ']', '\n', '\t'])))
            continue
        if k == 'plain':
            parts.append(draw(st.text('abcxyz019 ', min_size=1, max_size=8)))
        elif k == 'special':
            parts.append(draw(st.sampled_from(SPECIAL)))
        elif k == 'multi':
            parts.append(draw(st.sampled_from(MULTI)))
        elif k == 'pad':
            if allow_pad:
                ln = draw(st.one_of(st.sampled_from(NEAR), st.integers(1, 40)))
                parts.append(draw(st.sampled_from(['x', 'x', '\xe9', '\u4e2d'])) * ln)
            else:
                parts.append('xx')
        elif k == 'c1':
            parts.append(draw(st.sampled_from(C1)))
        elif k == 'ws':
            parts.append(draw(st.sampled_from([' ', '\n', '\t', '\n  ', ' \n'])))
        elif allow_forbidden:
            parts.append(draw(st.sampled_from(FORBIDDEN)))
        else:
            parts.append('y')
    return ''.join(parts)


_module_text = text

LOCALS = ['a', 'b', 'c', 'd', 'long-name_1', '\xe9l', '\u4e2d', 'x.y']
PREFIXES = ['p', 'q', 'p']


@st.composite
def trees(draw, max_depth=3, max_children=4, allow_forbidden=True, cdata=True, allow_pad=True, nonascii_names=True):
    uris = {'p': 'urn:p', 'q': 'urn:q'}
    # one profile per tree, so that a good share of trees is free of control / forbidden characters
    profile = draw(st.sampled_from(['clean', 'clean', 'controls', 'controls', 'all']))
    if not allow_forbidden and profile == 'all':
        profile = 'controls'

    def text(allow_forbidden=True, max_segments=6, allow_pad=True):
        return _module_text(allow_forbidden, max_segments, allow_pad, profile)

    def name(prefixes):
        loc = draw(st.sampled_from(LOCALS if nonascii_names else LOCALS[:5]))
        if prefixes and draw(st.integers(0, 3)) == 0:
            return draw(st.sampled_from(sorted(prefixes))) + ':' + loc
        return loc

    def element(depth, prefixes, top=False):
        attrs = []
        prefixes = set(prefixes)
        if top or draw(st.integers(0, 5)) == 0:
            for p in ('p', 'q'):
                if draw(st.booleans()):
                    attrs.append(['xmlns:' + p, uris[p] + ('' if top else draw(st.sampled_from(['', '2'])))])
                    prefixes.add(p)
            if draw(st.integers(0, 3)) == 0:
                attrs.append(['xmlns', draw(st.sampled_from(['urn:d', 'urn:d', '']))])
        n = name(prefixes)
        seen = set()
        for _ in range(draw(st.integers(0, 3))):
            an = name(prefixes)
            if an in seen or an.startswith('xmlns'):
                continue
            seen.add(an)
            attrs.append([an, draw(text(allow_forbidden, 3, allow_pad))])
        kids = []
        if depth < max_depth:
            for _ in range(draw(st.integers(0, max_children))):
                k = draw(st.sampled_from(['e', 'e', 't', 't', 'd' if cdata else 't', 'c', 'p']))
                if k == 'e':
                    kids.append(element(depth + 1, prefixes))
                elif k == 't':
                    kids.append({'t': 't', 'v': draw(text(allow_forbidden, 6, allow_pad))})
                elif k == 'd':
                    kids.append({'t': 'd', 'v': draw(text(allow_forbidden, 5, allow_pad))})
                elif k == 'c':
                    kids.append({'t': 'c', 'v': draw(text(allow_forbidden, 3, allow_pad))})
                else:
                    kids.append({'t': 'p', 'n': draw(st.sampled_from(['pi', 'target', 'x-y', '\xe9'] if nonascii_names else ['pi', 'target', 'x-y'])),
                                 'v': draw(text(allow_forbidden, 3, allow_pad))})
        return {'t': 'e', 'n': n, 'a': attrs, 'c': kids}

    top = []
    for _ in range(draw(st.integers(0, 1))):
        top.append({'t': 'c', 'v': draw(text(False, 2, False))})
    top.append(element(0, set(), True))
    for _ in range(draw(st.integers(0, 1))):
        top.append({'t': 'p', 'n': 'after', 'v': draw(text(False, 2, False))})
    return top


# ---------------------------------------------------------------------------------- helpers
def events_of(top):
    """linearise to the driver's event fields"""
    ev = [('SD', '')]

    def walk(n):
        t = n['t']
        if t == 'e':
            s = n['n']
            for an, av in n['a']:
                s += '\0' + an + '\0' + av
            ev.append(('SE', s))
            for c in n['c']:
                walk(c)
            ev.append(('EE', n['n']))
        elif t == 't':
            if n['v']:
                ev.append(('CH', n['v']))
        elif t == 'd':
            if n['v']:
                ev.append(('CD', n['v']))
        elif t == 'c':
            ev.append(('CM', n['v']))
        elif t == 'p':
            ev.append(('PI', n['n'] + '\0' + n['v']))
    for n in top:
        walk(n)
    ev.append(('ED', ''))
    return ev


def expected_tree(top):
    """expanded-name tree: ('E',(uri,local),{(uri,local):value},[children]) | ('T',s) | ('C',s) | ('P',target,data);
    adjacent text/cdata merged, empty text dropped.  Raises KeyError for an unbound prefix."""
    def conv(n, scope):
        t = n['t']
        if t == 'e':
            scope = dict(scope)
            for an, av in n['a']:
                if an == 'xmlns':
                    scope[''] = av
                elif an.startswith('xmlns:'):
                    scope[an[6:]] = av
            attrs = {}
            for an, av in n['a']:
                if an == 'xmlns' or an.startswith('xmlns:'):
                    continue
                if ':' in an:
                    p, l = an.split(':', 1)
                    attrs[(XML_NS if p == 'xml' else scope[p], l)] = av
                else:
                    attrs[('', an)] = av
            if ':' in n['n']:
                p, l = n['n'].split(':', 1)
                nm = (scope[p], l)
            else:
                nm = (scope.get('', ''), n['n'])
            return ('E', nm, attrs, merge([conv(c, scope) for c in n['c']]))
        if t in ('t', 'd'):
            return ('T', n['v'])
        if t == 'c':
            return ('C', n['v'])
        return ('P', n['n'], n['v'])
    return merge([conv(n, {}) for n in top])


def merge(kids):
    out = []
    for k in kids:
        if k[0] == 'T':
            if k[1] == '':
                continue
            if out and out[-1][0] == 'T':
                out[-1] = ('T', out[-1][1] + k[1])
                continue
        out.append(k)
    return out


def all_strings(top):
    """yield (where, string) for every string of the tree; where in text|cdata|attr|comment|pi|name"""
    def walk(n):
        t = n['t']
        if t == 'e':
            yield ('name', n['n'])
            for an, av in n['a']:
                yield ('name', an)
                yield ('attr', av)
            for c in n['c']:
                for x in walk(c):
                    yield x
        elif t == 't':
            yield ('text', n['v'])
        elif t == 'd':
            yield ('cdata', n['v'])
        elif t == 'c':
            yield ('comment', n['v'])
        else:
            yield ('name', n['n'])
            yield ('pi', n['v'])
    for n in top:
        for x in walk(n):
            yield x


def tree_diff(a, b, path=''):
    """first difference between two expected_tree-style lists, or None"""
    if len(a) != len(b):
        return '%s: %d children vs %d: %r vs %r' % (path, len(a), len(b), [x[:2] for x in a][:6], [x[:2] for x in b][:6])
    for i, (x, y) in enumerate(zip(a, b)):
        p = '%s/%d' % (path, i)
        if x[0] != y[0]:
            return '%s: kind %s vs %s' % (p, x[0], y[0])
        if x[0] == 'E':
            if x[1] != y[1]:
                return '%s: name %r vs %r' % (p, x[1], y[1])
            if x[2] != y[2]:
                return '%s: attrs %r vs %r' % (p, sorted(x[2].items())[:6], sorted(y[2].items())[:6])
            d = tree_diff(x[3], y[3], p)
            if d:
                return d
        elif x != y:
            return '%s: %r vs %r' % (p, _short(x), _short(y))
    return None


def _short(t):
    return tuple((s if len(s) < 60 else s[:25] + '...(%d)...' % len(s) + s[-25:]) if isinstance(s, str) else s for s in t)
