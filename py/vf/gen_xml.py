"""Source-document generator (DESIGN 2.6): 1-40 nodes, depth <= 6, names from a small pool so that name tests
hit and miss, 0-3 namespaces (prefixed and default, re-declared at depth), attributes incl. namespaced / xml:lang /
ID-typed, text (whitespace-only, mixed, numeric, entity-needing, non-ASCII), comments, PIs (also outside the
document element), CDATA next to text.

A document case is the XML *text* (str).  features(xml) recomputes what it contains.
"""
from hypothesis import strategies as st

ELEMS = ['a', 'b', 'c', 'd']
ODD_ELEMS = ['div', 'mod', 'and', 'or', 'a-b', 'x.1', '_u']
ATTRS = ['i', 'j', 'k']
PFX = {'p': 'urn:p', 'q': 'urn:q'}
TEXTS = ['x', 'y', 'ab', 'a b', ' lead', 'trail ', '1', '2', '10', '2.5', '-3', '007', '1e2', 'NaN', '', 'x&y', 'a<b', '"q"', "it's",
         'é', '中文', 'k1', 'k2', 'k1 k2', 'en', 'true', 'false', 'A', 'aB', 'zz']
WS = [' ', '\n', '\n  ', '\t', ' \n ', '\r\n']
# long whitespace-only runs (deep indentation, blank lines): around 64 and beyond 1 KiB, where a pooled / chunked / "scan only short text"
# treatment of whitespace would change (wave 5: long-whitespace-run-not-flagged was missed with runs of <= 3 characters only)
WS_LONG = ['\n' + ' ' * 62, '\n' + ' ' * 63, ' ' * 65, '\n\n\n' + '\t' * 130, '\n' + ' ' * 1030]
WS_RICH = WS + WS + WS_LONG
ASTRAL = ['\U0001F600', 'a\U00010000b']


def esc_text(s):
    return s.replace('&', '&amp;').replace('<', '&lt;').replace('>', '&gt;').replace('\r', '&#13;')


def esc_attr(s):
    return esc_text(s).replace('"', '&quot;').replace('\n', '&#10;').replace('\t', '&#9;')


@st.composite
def documents(draw, max_nodes=40, max_depth=5, namespaces=True, ids=True, astral=False, cdata=True, ws_rich=False,
              odd_names=True, prolog_misc=True, min_children=0):
    budget = [draw(st.integers(3, max_nodes))]
    use_ns = namespaces and draw(st.integers(0, 2)) > 0
    use_default = use_ns and draw(st.integers(0, 3)) == 0
    use_ids = ids and draw(st.integers(0, 3)) == 0
    lang_rate = draw(st.sampled_from([7, 7, 7, 1]))    # a quarter of the documents carry xml:lang on every other element (nested, differing values)
    idvals = ['k1', 'k2', 'k3', 'k4', 'k5']
    used_ids = []
    elem_pool = list(ELEMS)
    if odd_names and draw(st.integers(0, 5)) == 0:
        elem_pool += ODD_ELEMS

    def text_piece():
        if ws_rich and draw(st.integers(0, 1)) == 0:
            return draw(st.sampled_from(WS_RICH))
        k = draw(st.integers(0, 9))
        if k <= 5:
            return esc_text(draw(st.sampled_from(TEXTS)))
        if k == 6:
            return draw(st.sampled_from(WS))
        if k == 7 and cdata:
            return '<![CDATA[' + draw(st.sampled_from(['c<d', 'x', ' ', ']]', 'a&b'])) + ']]>'
        if k == 8 and astral:
            return draw(st.sampled_from(ASTRAL))
        return esc_text(draw(st.sampled_from(TEXTS))) + draw(st.sampled_from(['', ' ', '\n']))

    def element(depth, scope):
        budget[0] -= 1
        scope = dict(scope)
        decls = []
        if use_ns and (depth == 0 or draw(st.integers(0, 6)) == 0):
            for p in ('p', 'q'):
                if draw(st.booleans()):
                    uri = PFX[p] if depth == 0 or draw(st.integers(0, 2)) else PFX[p] + '2'
                    decls.append('xmlns:%s="%s"' % (p, uri))
                    scope[p] = uri
            if use_default and draw(st.booleans()):
                uri = draw(st.sampled_from(['urn:d', 'urn:d', ''])) if depth else 'urn:d'
                decls.append('xmlns="%s"' % uri)
                scope[''] = uri
        prefixes = [p for p in scope if p]
        loc = draw(st.sampled_from(elem_pool))
        name = loc
        if prefixes and draw(st.integers(0, 3)) == 0:
            name = draw(st.sampled_from(sorted(prefixes))) + ':' + loc
        attrs = []
        seen = set()
        for _ in range(draw(st.integers(0, 3))):
            an = draw(st.sampled_from(ATTRS))
            if prefixes and draw(st.integers(0, 4)) == 0:
                p = draw(st.sampled_from(sorted(prefixes)))
                key = (scope[p], an)
                an = p + ':' + an
            else:
                key = ('', an)
            if key in seen:
                continue
            seen.add(key)
            attrs.append('%s="%s"' % (an, esc_attr(draw(st.sampled_from(TEXTS)))))
        if draw(st.integers(0, lang_rate)) == 0:
            attrs.append('xml:lang="%s"' % draw(st.sampled_from(['en', 'en-US', 'EN', 'fr', 'de'])))
        if use_ids and draw(st.integers(0, 2)) == 0:
            free = [v for v in idvals if v not in used_ids]
            if free:
                v = draw(st.sampled_from(free))
                used_ids.append(v)
                attrs.append('id="%s"' % v)
        kids = []
        if depth < max_depth:
            n = draw(st.integers(min_children, 5))
            for _ in range(n):
                if budget[0] <= 0:
                    break
                k = draw(st.integers(0, 9))
                if ws_rich and draw(st.integers(0, 2)) > 0:
                    kids.append(draw(st.sampled_from(WS_RICH)))   # whitespace-only text between the children
                if k <= 4:
                    kids.append(element(depth + 1, scope))
                elif k <= 7:
                    budget[0] -= 1
                    kids.append(text_piece())
                elif k == 8:
                    budget[0] -= 1
                    kids.append('<!--%s-->' % draw(st.sampled_from(['c', ' note ', '1', '', 'x y'])))
                else:
                    budget[0] -= 1
                    kids.append('<?%s %s?>' % (draw(st.sampled_from(['pi', 'xx', 'a'])), draw(st.sampled_from(['data', '', 'v="1"', '1']))))
        head = '<' + ' '.join([name] + decls + attrs)
        if not kids and draw(st.booleans()):
            return head + '/>'
        return head + '>' + ''.join(kids) + '</' + name + '>'

    body = element(0, {})
    pre = ''
    post = ''
    if prolog_misc:
        for _ in range(draw(st.integers(0, 2))):
            if draw(st.integers(0, 3)) == 0:
                pre += draw(st.sampled_from(['<!--pre-->', '<?pre p?>', '\n']))
        for _ in range(draw(st.integers(0, 2))):
            if draw(st.integers(0, 3)) == 0:
                post += draw(st.sampled_from(['<!--post-->', '<?post?>', '\n']))
    doctype = ''
    if use_ids:
        root_name = body[1:].split()[0].split('>')[0].split('/')[0]
        decl = ''.join('<!ATTLIST %s id ID #IMPLIED>' % e for e in sorted(set(elem_pool)))
        if use_ns:
            decl += ''.join('<!ATTLIST %s:%s id ID #IMPLIED>' % (p, e) for p in ('p', 'q') for e in sorted(set(elem_pool)))
        doctype = '<!DOCTYPE %s [%s]>' % (root_name, decl)
    return doctype + pre + body + post


def features(xml):
    f = set()
    if 'xmlns' in xml:
        f.add('ns')
    if 'xmlns=' in xml:
        f.add('default-ns')
    if '<![CDATA[' in xml:
        f.add('cdata')
    if '<!DOCTYPE' in xml:
        f.add('ids')
    if '<!--' in xml:
        f.add('comment')
    if '<?' in xml:
        f.add('pi')
    if 'xml:lang' in xml:
        f.add('lang')
    if any(ord(c) > 0xFFFF for c in xml):
        f.add('astral')
    return f
