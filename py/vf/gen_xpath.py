"""Typed recursive XPath 1.0 expression generator (DESIGN 2.6).

Expressions are produced as token lists and joined with generated optional whitespace.  Four non-terminals
(node-set / number / string / boolean); every production of the XPath grammar and every core function is
reachable.  The vocabulary matches gen_xml (elements a b c d, attributes i j k id, prefixes p q).

FLAGS (set by the property modules from the open entries of known_findings.jsonl) remove, by construction, the
productions that trigger a confirmed finding; each suppression is counted in COUNTS.
"""
from collections import Counter

from hypothesis import strategies as st

FLAGS = set()
COUNTS = Counter()

ELEMS = ['a', 'b', 'c', 'd']
ATTRS = ['i', 'j', 'k', 'id']
NS = {'p': 'urn:p', 'q': 'urn:q'}
FWD_AXES = ['child', 'descendant', 'descendant-or-self', 'following', 'following-sibling', 'self', 'attribute']
REV_AXES = ['parent', 'ancestor', 'ancestor-or-self', 'preceding', 'preceding-sibling']
VARS = {'n1': 'n', 'n2': 'n', 's1': 's', 's2': 's', 'b1': 'b', 'ns1': 'ns', 'ns2': 'ns', 'ns3': 'ns'}

STR_LITS = ["''", "'x'", "'a b'", "'1'", "'2.5'", "' 10 '", "'k1'", "'k1 k3'", "'en'", "'abc'", '"it\'s"', "'-'", "'NaN'", "'x y  z'", "'ab'", "'b'",
            "'\xe9'", "'1e2'", "'007'", "'true'", "''"]
NUM_LITS = ['0', '1', '2', '3', '4', '10', '2.5', '.5', '5.', '0.1', '1.50', '100', '1000000', '0.000001', '9007199254740992', '12345.678901', '-1', '007']


def flag(name):
    if name in FLAGS:
        COUNTS[name] += 1
        return True
    return False


@st.composite
def name_test(draw, axis):
    k = draw(st.integers(0, 9))
    if axis == 'attribute':
        pool = ATTRS
    else:
        pool = ELEMS
    if k <= 4:
        return [draw(st.sampled_from(pool))]
    if k == 5:
        return ['*']
    if k == 6:
        return [draw(st.sampled_from(['p', 'q'])) + ':' + draw(st.sampled_from(pool))]
    if k == 7:
        return [draw(st.sampled_from(['p', 'q'])) + ':*']
    if k == 8:
        if axis == 'attribute' and flag('no_attr_node_test'):
            return ['*']
        return [draw(st.sampled_from(['node', 'text', 'comment', 'processing-instruction'])), '(', ')']
    if axis == 'attribute' and flag('no_attr_node_test'):
        return ['*']
    return draw(st.sampled_from([['node', '(', ')'], ['text', '(', ')'], ['processing-instruction', '(', "'pi'", ')'], ['*'], ['div'], ['mod'], ['and'], ['or']]))


@st.composite
def predicate(draw, d):
    k = draw(st.integers(0, 11))
    if k <= 1:
        body = [draw(st.sampled_from(['1', '2', '3', '1', '2', '0', '1.5', '10']))]
    elif k == 2:
        body = ['last', '(', ')']
    elif k == 3:
        body = ['last', '(', ')', '-', draw(st.sampled_from(['1', '2']))]
    elif k == 4:
        body = ['position', '(', ')', draw(st.sampled_from(['=', '!=', '<', '<=', '>', '>='])), draw(st.sampled_from(['1', '2', '3', 'last()']))]
        if body[-1] == 'last()':
            body = body[:-1] + ['last', '(', ')']
    elif k == 5:
        if draw(st.booleans()):
            body = ['position', '(', ')', 'mod', '2', '=', draw(st.sampled_from(['0', '1']))]
        else:
            # boolean predicates over last() WITHOUT position(): the context size must come from the step, not from the caller
            body = draw(st.sampled_from([['last', '(', ')', '=', '1'], ['last', '(', ')', '>', '2'], ['last', '(', ')', '!=', '1'], ['last', '(', ')', 'mod', '2', '=', '0'],
                                         ['not', '(', 'last', '(', ')', '=', '2', ')'], ['last', '(', ')', '<', '3', 'and', '@i'], ['count', '(', '*', ')', '<', 'last', '(', ')']]))
    elif k <= 7 and d > 0:
        body = draw(boolean(d - 1))
    elif k == 8 and d > 0:
        body = draw(nodeset(d - 1))
    elif k == 9 and d > 0:
        body = draw(number(d - 1))
    elif k == 10 and d > 0:
        body = draw(string(d - 1))
    else:
        body = draw(st.sampled_from([['@i'], ['@j', '=', "'x'"], ['.', '=', "'x'"], ['b'], ['not', '(', '*', ')'], ['@id'], ['text', '(', ')'],
                                     ['string-length', '(', ')', '>', '1'], ['@i', '>', '1'], ['count', '(', '*', ')', '=', '1']]))
    return ['['] + body + [']']


@st.composite
def step(draw, d, allow_ns_axis=False):
    k = draw(st.integers(0, 9))
    if k == 0:
        return [draw(st.sampled_from(['.', '..', '.', '..']))]
    if k <= 3:
        # abbreviated child / attribute
        if draw(st.integers(0, 3)) == 0:
            toks = ['@'] + draw(name_test('attribute'))
            # merge '@' with the name to keep '@i' style sometimes separated by whitespace
        else:
            toks = draw(name_test('child'))
    else:
        axis = draw(st.sampled_from(FWD_AXES + REV_AXES + REV_AXES))
        toks = [axis, '::'] + draw(name_test(axis))
    npred = draw(st.sampled_from([0, 0, 0, 1, 1, 2]))
    is_attr = toks[0] in ('@', 'attribute')
    for _ in range(npred):
        p = draw(predicate(d))
        if is_attr and toks[-1] in ('*', ')') or (is_attr and toks[-1].endswith(':*')):
            # relative order of the attributes of one element is implementation-dependent: no positional
            # predicate on a step that can select several attributes (XPath 5.3)
            if _positional(p):
                continue
        toks += p
    return toks


_NUMERIC_FNS = {'position', 'last', 'count', 'sum', 'number', 'floor', 'ceiling', 'round', 'string-length'}


def numeric_valued(ast):
    """can the expression evaluate to a NUMBER (then a predicate [e] means [position() = e])?  Variables n1/n2 are numbers; an
    unknown shape counts as numeric (conservative for the callers, which avoid such predicates where positions are unspecified)"""
    k = ast[0]
    if k == 'num' or k == 'neg':
        return True
    if k == 'bin':
        return ast[1] in ('+', '-', '*', 'div', 'mod')
    if k == 'fn':
        return ast[1] is not None or ast[2] in _NUMERIC_FNS      # extension functions: unknown
    if k == 'var':
        return ast[2] in ('n1', 'n2')
    if k in ('lit', 'path', 'union', 'filter'):
        return False
    return k not in ('path', 'union', 'lit')


def _positional(p):
    """does the predicate (token list incl. the brackets) depend on the context position / size?"""
    s = ' '.join(p)
    if 'position' in s or 'last' in s:
        return True
    from . import ref_xpath
    try:
        return numeric_valued(ref_xpath.parse(' '.join(p[1:-1])))
    except Exception:
        return True


@st.composite
def path(draw, d):
    start = draw(st.sampled_from(['', '', '', '/', '//', '/']))
    n = draw(st.integers(1, 3))
    toks = []
    if start:
        toks.append(start)
    for i in range(n):
        if i:
            toks.append(draw(st.sampled_from(['/', '/', '/', '//'])))
        s = draw(step(d))
        toks += s
        if s[0] in ('@', 'attribute') and i < n - 1:
            # after an attribute step only parent/ancestor/self style steps select anything; keep going anyway
            pass
    return toks


@st.composite
def nodeset(draw, d):
    k = draw(st.integers(0, 13))
    if d <= 0:
        k = k % 5
    if k <= 4:
        return draw(path(d))
    if k == 5:
        a = draw(nodeset(d - 1))
        b = draw(nodeset(d - 1))
        return a + ['|'] + b
    if k == 6:
        inner = draw(nodeset(d - 1))
        toks = ['('] + inner + [')'] + draw(predicate(d - 1))
        if draw(st.booleans()):
            toks += [draw(st.sampled_from(['/', '//']))] + draw(step(d - 1))
        return toks
    if k == 7:
        v = draw(st.sampled_from(['ns1', 'ns2', 'ns3']))
        toks = ['$' + v]
        if draw(st.integers(0, 2)) == 0:
            toks += draw(predicate(d - 1))
        if draw(st.integers(0, 2)) == 0:
            toks += ['/'] + draw(step(d - 1))
        return toks
    if k == 8:
        arg = draw(st.sampled_from([["'k1'"], ["'k2 k1'"], ["' k3  k9 '"], ['@i'], ['//@k'], ['.'], ["''"]]))
        toks = ['id', '('] + arg + [')']
        if draw(st.integers(0, 2)) == 0:
            toks += ['/'] + draw(step(d - 1))
        return toks
    if k == 9:
        return ['/']
    if k == 10:
        return ['('] + draw(nodeset(d - 1)) + [')']
    if k == 11:
        return draw(path(d)) + ['|'] + draw(path(d - 1))
    return draw(path(d))


@st.composite
def ns_axis_value(draw):
    """namespace axis only as a terminal step under a value function (see DESIGN C02 Lim)"""
    nt = draw(st.sampled_from([['*'], ['p'], ['q'], ['xml'], ['node', '(', ')']]))
    fn = draw(st.sampled_from(['count', 'string', 'name', 'local-name', 'boolean', 'namespace-uri']))
    return fn, ['namespace', '::'] + nt


@st.composite
def number(draw, d):
    k = draw(st.integers(0, 15))
    if d <= 0:
        k = k % 6
    if k <= 1:
        return [draw(st.sampled_from(NUM_LITS))]
    if k == 2:
        return ['$' + draw(st.sampled_from(['n1', 'n2']))]
    if k == 3:
        if draw(st.sampled_from([0, 0, 1])):
            # position() / last() of the OUTER context read right after a nested step with a positional predicate has looked at the
            # context node in ANOTHER list (one-entry position caches, context stacks must not leak between the two)
            inner = draw(st.sampled_from([['..', '/', '*', '[', 'position', '(', ')', '<=', '4', ']'], ['..', '/', 'node', '(', ')', '[', 'position', '(', ')', '=', 'last', '(', ')', ']'],
                                          ['self', '::', 'node', '(', ')', '[', 'position', '(', ')', '=', '1', ']'], ['preceding-sibling', '::', '*', '[', 'position', '(', ')', '>', '1', ']'],
                                          ['..', '/', '*', '[', 'last', '(', ')', '-', 'position', '(', ')', '<', '2', ']'], ['ancestor-or-self', '::', '*', '[', 'position', '(', ')', '<', '3', ']']]))
            return ['count', '('] + inner + [')', '*', '0', '+', draw(st.sampled_from(['position', 'last'])), '(', ')']
        return draw(st.sampled_from([['position', '(', ')'], ['last', '(', ')']]))
    if k == 4:
        if draw(st.sampled_from([0, 0, 1])):
            # two node-sets converted to numbers one after the other by function calls (arguments are evaluated to objects, which are
            # recycled): the second conversion must not see anything cached for the first
            ps = [['@i'], ['..', '/', '@i'], ['*', '/', '@i'], ['(', '//', '@i', ')', '[', '1', ']'], ['(', '//', '@i', ')', '[', 'last', '(', ')', ']'],
                  ['//', '*', '[', '@i', ']', '[', '2', ']', '/', '@i'], ['preceding', '::', '*', '[', '@i', ']', '[', '1', ']', '/', '@i'], ['following', '::', '*', '/', '@i']]
            f1 = draw(st.sampled_from(['number', 'floor', 'round', 'ceiling', 'sum']))
            f2 = draw(st.sampled_from(['number', 'floor', 'round', 'sum']))
            return [f1, '('] + draw(st.sampled_from(ps)) + [')', draw(st.sampled_from(['*', '+', '-'])), '10', '+', f2, '('] + draw(st.sampled_from(ps)) + [')']
        return ['count', '('] + draw(nodeset(max(d - 1, 0))) + [')']
    if k == 5:
        return ['string-length', '('] + (draw(string(max(d - 1, 0))) if draw(st.booleans()) else []) + [')']
    if k == 6:
        return ['sum', '('] + draw(nodeset(d - 1)) + [')']
    if k == 7:
        inner = draw(st.one_of(string(d - 1), nodeset(d - 1), boolean(d - 1), st.just([])))
        return ['number', '('] + inner + [')']
    if k <= 11:
        op = draw(st.sampled_from(['+', '-', '*', 'div', 'mod']))
        a = draw(number(d - 1))
        b = draw(number(d - 1))
        if draw(st.integers(0, 3)) == 0:
            a = ['('] + a + [')']
        if draw(st.integers(0, 3)) == 0:
            b = ['('] + b + [')']
        if b and b[0] == '-' and flag('no_double_minus') and op == '-':
            b = ['('] + b + [')']
        return a + [op] + b
    if k == 12:
        inner = draw(number(d - 1))
        if inner and inner[0] == '-' and flag('no_double_minus'):
            inner = ['('] + inner + [')']
        return ['-'] + inner
    if k == 13:
        return [draw(st.sampled_from(['floor', 'ceiling', 'round'])), '('] + draw(number(d - 1)) + [')']
    if k == 14:
        return ['('] + draw(number(d - 1)) + [')']
    fn, toks = draw(ns_axis_value())
    if fn == 'count':
        return ['count', '('] + toks + [')']
    return ['string-length', '(', fn, '('] + toks + [')', ')']


@st.composite
def sarg(draw, d):
    """an argument where a string is expected: usually a string expression, sometimes an expression of another type (the
    argument is converted as if by string(): XPath 3.2) - the implementation's shortcuts must not leak the original type"""
    if draw(st.sampled_from([0, 0, 0, 1])):
        # (a node-set argument is converted through its FIRST node in document order, which is unspecified among the attributes of one
        # element: only node-sets without that choice)
        return draw(st.one_of(number(d), boolean(d), st.sampled_from([['.'], ['..'], ['*'], ['b'], ['@i'], ['//', 'b'], ['text', '(', ')'], ['//', '*', '[', '@i', ']'], ['$ns1']])))
    return draw(string(d))


@st.composite
def string(draw, d):
    k = draw(st.integers(0, 14))
    if d <= 0:
        k = k % 4
    if k <= 1:
        return [draw(st.sampled_from(STR_LITS))]
    if k == 2:
        return ['$' + draw(st.sampled_from(['s1', 's2']))]
    if k == 3:
        fn = draw(st.sampled_from(['name', 'local-name', 'namespace-uri', 'string', 'normalize-space']))
        arg = draw(st.sampled_from([[], ['.'], ['..'], ['*'], ['@*'], ['@i'], ['//b'], ['text', '(', ')'], ['ancestor', '::', '*']]))
        if fn == 'normalize-space' and arg and arg != ['.']:
            arg = ['string', '('] + arg + [')'] if draw(st.booleans()) else arg
        if arg == ['@*'] and fn in ('name', 'local-name', 'namespace-uri', 'string', 'normalize-space'):
            arg = ['@i']   # first attribute in document order is implementation-dependent
        return [fn, '('] + arg + [')']
    if k == 4:
        inner = draw(st.one_of(nodeset(d - 1), number(d - 1), boolean(d - 1)))
        return ['string', '('] + inner + [')']
    if k == 5:
        n = draw(st.integers(2, 3))
        toks = ['concat', '(']
        for i in range(n):
            if i:
                toks.append(',')
            toks += draw(sarg(d - 1))
        return toks + [')']
    if k <= 7:
        toks = ['substring', '('] + draw(sarg(d - 1)) + [','] + draw(st.one_of(number(d - 1), st.sampled_from([['0'], ['1.5'], ['-1'], ['0', 'div', '0'], ['1', 'div', '0'], ['-1', 'div', '0'], ['2']])))
        if draw(st.booleans()):
            toks += [','] + draw(st.one_of(number(d - 1), st.sampled_from([['0'], ['2.6'], ['3'], ['0', 'div', '0'], ['1', 'div', '0']])))
        return toks + [')']
    if k == 8:
        fn = draw(st.sampled_from(['substring-before', 'substring-after']))
        return [fn, '('] + draw(sarg(d - 1)) + [','] + draw(st.one_of(sarg(d - 1), st.just(["''"]))) + [')']
    if k == 9:
        return ['normalize-space', '('] + draw(sarg(d - 1)) + [')']
    if k == 10:
        return ['translate', '('] + draw(sarg(d - 1)) + [',', draw(st.sampled_from(["'abc'", "'aab'", "'xy '", "''", "'a'", "'\xe9b'"])), ',',
                                                          draw(st.sampled_from(["'ABC'", "'X'", "''", "'xyz1'", "'E'"])), ')']
    if k == 11:
        fn = draw(st.sampled_from(['name', 'local-name', 'namespace-uri']))
        return [fn, '('] + draw(nodeset(d - 1)) + [')']
    if k == 12:
        fn, toks = draw(ns_axis_value())
        if fn in ('count', 'boolean'):
            fn = 'string'
        return [fn, '('] + toks + [')']
    return ['('] + draw(string(d - 1)) + [')']


@st.composite
def anyexpr(draw, d):
    return draw(st.one_of(nodeset(d), number(d), string(d), boolean(d)))


@st.composite
def boolean(draw, d):
    k = draw(st.integers(0, 13))
    if d <= 0:
        k = k % 4
    if k == 0:
        return draw(st.sampled_from([['true', '(', ')'], ['false', '(', ')'], ['$b1']]))
    if k == 1:
        return draw(path(0)) + [draw(st.sampled_from(['=', '!=', '<', '>'])), draw(st.sampled_from(["'x'", '1', '2', "'1'", "''"]))]
    if k == 2:
        return ['not', '('] + draw(path(0)) + [')']
    if k == 3:
        return [draw(st.sampled_from(['starts-with', 'contains'])), '(', '.', ',', draw(st.sampled_from(STR_LITS)), ')']
    if k <= 7:
        op = draw(st.sampled_from(['=', '!=', '<', '<=', '>', '>=']))
        a = draw(anyexpr(d - 1))
        b = draw(anyexpr(d - 1))
        if draw(st.integers(0, 4)) == 0:
            # same variable on both sides (identity short-cuts in XObject comparisons)
            v = draw(st.sampled_from(['$n1', '$s1', '$b1', '$ns1', '$n2']))
            a, b = [v], [v]
            if flag('no_self_compare'):
                b = [draw(st.sampled_from(['$n2', '$s2', '$ns2']))]
        return a + [op] + b
    if k <= 9:
        op = draw(st.sampled_from(['and', 'or']))
        return draw(boolean(d - 1)) + [op] + draw(boolean(d - 1))
    if k == 10:
        return ['not', '('] + draw(boolean(d - 1)) + [')']
    if k == 11:
        return ['boolean', '('] + draw(anyexpr(d - 1)) + [')']
    if k == 12:
        fn = draw(st.sampled_from(['starts-with', 'contains']))
        return [fn, '('] + draw(string(d - 1)) + [','] + draw(string(d - 1)) + [')']
    return ['lang', '(', draw(st.sampled_from(["'en'", "'EN'", "'en-US'", "'fr'", "'e'"])), ')']


NAMEISH = set('abcdefghijklmnopqrstuvwxyzABCDEFGHIJKLMNOPQRSTUVWXYZ0123456789_-.:*$')


def render(toks, ws):
    """join tokens; ws is a list of whitespace choices consumed cyclically ('' only where that cannot merge tokens)"""
    out = []
    prev = ''
    i = 0
    for t in toks:
        if prev:
            w = ws[i % len(ws)] if ws else ' '
            i += 1
            if w == '':
                a, b = prev[-1], t[0]
                # tokens that would merge, or change meaning, when written without a separator
                if (a in NAMEISH and b in NAMEISH) or (a == '/' and b == '/') or (a in '<>!' and b == '=') or (a == '-' and b == '-' and False) \
                        or (a in "'\"" and b in "'\"") or (a == '.' and b == '.') or (a in NAMEISH and b in "'\"") or (a == ':' and b == ':') \
                        or (prev == '/' and b == '/') or (a == '*' or b == '*'):
                    w = ' '
            out.append(w)
        out.append(t)
        prev = t
    return ''.join(out)


def fix_bare_slash(toks):
    """known finding: a path consisting of '/' alone is mis-parsed when followed by ']', ')', '|' or an operator.
    Under the flag such a '/' becomes '/.' (same value)."""
    if 'no_bare_slash_operand' not in FLAGS:
        return toks
    out = []
    for i, t in enumerate(toks):
        out.append(t)
        if t == '/' and i + 1 < len(toks):
            nxt = toks[i + 1]
            prev = toks[i - 1] if i else ''
            starts_path = (i == 0) or prev in ('(', '[', ',', '|', '=', '!=', '<', '<=', '>', '>=', '+', '-', '*', 'div', 'mod', 'and', 'or')
            if starts_path and nxt in (']', ')', '|', '=', '!=', '<', '<=', '>', '>=', '+', '-', 'div', 'mod', 'and', 'or', ',', '*'):
                out.append('.')
                COUNTS['no_bare_slash_operand'] += 1
    return out


@st.composite
def expressions(draw, depth=3, kind=None):
    k = kind or draw(st.sampled_from(['ns', 'ns', 'num', 'str', 'bool']))
    toks = draw({'ns': nodeset, 'num': number, 'str': string, 'bool': boolean}[k](depth))
    toks = fix_bare_slash(toks)
    ws = draw(st.lists(st.sampled_from([' ', ' ', '', '', '  ', '\n', '\t']), min_size=1, max_size=5))
    return {'kind': k, 'expr': render(toks, ws), 'ntok': len(toks)}


@st.composite
def bindings(draw):
    """variable bindings; node-set values are index lists resolved against the document by the caller"""
    nums = st.sampled_from([0.0, 1.0, 2.0, -1.0, 2.5, 10.0, float('nan'), float('inf'), -0.0, 1e6, 0.1])
    strs = st.sampled_from(['', 'x', '1', 'a b', 'k1', ' 2 ', 'NaN', 'abc', 'true'])
    return {
        'n1': draw(nums), 'n2': draw(nums), 's1': draw(strs), 's2': draw(strs), 'b1': draw(st.booleans()),
        'ns1': draw(st.lists(st.integers(0, 60), max_size=5)),
        'ns2': draw(st.lists(st.integers(0, 60), max_size=3)),
        'ns3': draw(st.sampled_from([None, None, []])),   # None = alias of ns1 (the same XObject bound twice)
    }


# ---------------------------------------------------------------------------------------------------------
# C11: expressions with a chosen top-level operation (every op code of XPath::executeMore as the root)
TOP_OPS = ['or', 'and', 'eq', 'ne', 'lt', 'le', 'gt', 'ge', 'plus', 'minus', 'mult', 'div', 'mod', 'neg', 'union', 'literal', 'variable-n',
           'variable-s', 'variable-b', 'variable-ns', 'group', 'numberlit', 'path', 'abs-path', 'filter', 'fn:last', 'fn:position', 'fn:count',
           'fn:id', 'fn:local-name', 'fn:namespace-uri', 'fn:name', 'fn:string', 'fn:concat', 'fn:starts-with', 'fn:contains',
           'fn:substring-before', 'fn:substring-after', 'fn:substring', 'fn:string-length', 'fn:normalize-space', 'fn:translate',
           'fn:boolean', 'fn:not', 'fn:true', 'fn:false', 'fn:lang', 'fn:number', 'fn:sum', 'fn:floor', 'fn:ceiling', 'fn:round',
           'fn:string0', 'fn:number0', 'fn:name0', 'fn:local-name0', 'fn:namespace-uri0', 'fn:string-length0', 'fn:normalize-space0', 'ext',
           'xslt:current']


@st.composite
def top_expression(draw, op, d=2):
    A = lambda: draw(anyexpr(d - 1))
    N = lambda: draw(number(d - 1))
    S = lambda: draw(string(d - 1))
    B = lambda: draw(boolean(d - 1))
    NS = lambda: draw(nodeset(d - 1))
    binop = {'or': 'or', 'and': 'and', 'eq': '=', 'ne': '!=', 'lt': '<', 'le': '<=', 'gt': '>', 'ge': '>=',
             'plus': '+', 'minus': '-', 'mult': '*', 'div': 'div', 'mod': 'mod'}
    if op in ('or', 'and'):
        toks = B() + [binop[op]] + B()
    elif op in ('eq', 'ne', 'lt', 'le', 'gt', 'ge'):
        toks = A() + [binop[op]] + A()
    elif op in ('plus', 'minus', 'mult', 'div', 'mod'):
        a, b = draw(st.one_of(number(d - 1), anyexpr(d - 1))), draw(st.one_of(number(d - 1), anyexpr(d - 1)))
        toks = ['('] + a + [')', binop[op], '('] + b + [')']
    elif op == 'neg':
        toks = ['-', '('] + A() + [')']
    elif op == 'union':
        toks = NS() + ['|'] + NS()
    elif op == 'literal':
        toks = [draw(st.sampled_from(STR_LITS))]
    elif op.startswith('variable-'):
        toks = ['$' + draw(st.sampled_from([v for v, t in VARS.items() if t == op.split('-')[1]]))]
    elif op == 'group':
        toks = ['('] + A() + [')']
    elif op == 'numberlit':
        toks = [draw(st.sampled_from(NUM_LITS[:-2]))]
    elif op == 'path':
        toks = draw(path(d))
        if toks and toks[0] in ('/', '//'):
            toks = toks[1:] or ['.']
    elif op == 'abs-path':
        toks = [draw(st.sampled_from(['/', '//']))] + draw(step(d))
    elif op == 'filter':
        toks = ['('] + NS() + [')'] + draw(predicate(d - 1))
    elif op == 'xslt:current':
        # current() is the node the evaluation started from: every entry point has to establish it
        toks = draw(st.sampled_from([['current', '(', ')'], ['count', '(', 'current', '(', ')', '/', '*', ')'], ['name', '(', 'current', '(', ')', ')'],
                                     ['current', '(', ')', '/', '@*'], ['string', '(', 'current', '(', ')', ')'],
                                     ['count', '(', 'current', '(', ')', '/', 'ancestor::*', ')', '+', '1'],
                                     ['*', '[', 'generate-id', '(', '..', ')', '=', 'generate-id', '(', 'current', '(', ')', ')', ']'],
                                     ['sum', '(', 'current', '(', ')', '/', '@*', ')'], ['current', '(', ')', '/', '..', '/', '*', '[', '1', ']']]))
    elif op == 'ext':
        toks = draw(st.sampled_from([['set:distinct', '('] + NS() + [')'], ['math:max', '('] + NS() + [')'], ['str:concat', '('] + NS() + [')'],
                                     ['set:difference', '('] + NS() + [','] + NS() + [')'], ['exsl:object-type', '('] + A() + [')'],
                                     ['math:abs', '('] + N() + [')']]))
    else:
        fn = op[3:]
        zero = fn.endswith('0')
        fn = fn.rstrip('0')
        if zero or fn in ('last', 'position', 'true', 'false'):
            args = []
        elif fn in ('count', 'sum'):
            args = [NS()]
        elif fn == 'id':
            args = [draw(st.one_of(st.sampled_from([["'k1'"], ["'k2 k1'"], ['//@i']]), string(d - 1)))]
        elif fn in ('local-name', 'namespace-uri', 'name'):
            args = [NS()]
        elif fn in ('string', 'boolean', 'number'):
            args = [A()]
        elif fn == 'not':
            args = [draw(st.one_of(boolean(d - 1), anyexpr(d - 1)))]
        elif fn == 'concat':
            args = [A(), A()] + ([A()] if draw(st.booleans()) else [])
        elif fn in ('starts-with', 'contains', 'substring-before', 'substring-after'):
            args = [A(), A()]
        elif fn == 'substring':
            args = [A(), N()] + ([N()] if draw(st.booleans()) else [])
        elif fn in ('string-length', 'normalize-space'):
            args = [A()]
        elif fn == 'translate':
            args = [A(), S(), S()]
        elif fn == 'lang':
            args = [draw(st.one_of(st.sampled_from([["'en'"], ["'fr'"]]), string(d - 1)))]
        else:  # floor ceiling round
            args = [A()]
        toks = [fn, '(']
        for i, a in enumerate(args):
            if i:
                toks.append(',')
            toks += a
        toks.append(')')
    toks = fix_bare_slash(toks)
    return {'kind': 'top:' + op, 'expr': render(toks, [' ']), 'ntok': len(toks), 'op': op}


# ---------------------------------------------------------------------------------------------------------
# XSLT 1.0 section 5.2 patterns
@st.composite
def step_pattern(draw, d):
    k = draw(st.integers(0, 9))
    if k <= 5:
        toks = draw(name_test('child'))
        if draw(st.integers(0, 5)) == 0:
            toks = ['child', '::'] + toks
    elif k <= 8:
        toks = draw(name_test('attribute'))
        toks = (['@'] if draw(st.integers(0, 3)) else ['attribute', '::']) + toks
    else:
        toks = draw(st.sampled_from([['node', '(', ')'], ['text', '(', ')'], ['comment', '(', ')'], ['processing-instruction', '(', ')'],
                                     ['processing-instruction', '(', "'pi'", ')'], ['*']]))
    is_attr = toks[0] in ('@', 'attribute')
    for _ in range(draw(st.sampled_from([0, 0, 0, 1, 1, 2]))):
        p = draw(predicate(d))
        if '$' in ' '.join(p) or any(t.startswith('$') for t in p):
            continue
        if is_attr and _positional(p) and flag('no_positional_on_attr_step'):
            continue
        if is_attr and (toks[-1] in ('*', ')') or toks[-1].endswith(':*')) and _positional(p):
            continue
        toks += p
    return toks


@st.composite
def location_path_pattern(draw, d, allow_key=False):
    head = draw(st.sampled_from(['', '', '', '/', '//', 'id', 'key' if allow_key else '']))
    toks = []
    n = draw(st.integers(1, 3))
    if head == '/':
        toks = ['/']
        if draw(st.integers(0, 5)) == 0:
            return toks
    elif head == '//':
        toks = ['//']
    elif head == 'id':
        toks = ['id', '(', draw(st.sampled_from(["'k1'", "'k2'", "'k1 k2'", "'zz'"])), ')']
        if draw(st.integers(0, 2)) == 0:
            return toks
        toks.append(draw(st.sampled_from(['/', '//'])))
    elif head == 'key':
        toks = ['key', '(', "'kk'", ',', draw(st.sampled_from(["'x'", "'1'", "'k1'", "''"])), ')']
        if draw(st.integers(0, 2)) == 0:
            return toks
        toks.append(draw(st.sampled_from(['/', '//'])))
    prev_node_test = False
    for i in range(n):
        if i:
            sep = draw(st.sampled_from(['/', '/', '//']))
            if sep == '//' and prev_node_test and flag('no_node_test_before_dslash'):
                sep = '/'
            if sep == '//' and head == '/' and flag('no_abs_with_inner_dslash'):
                sep = '/'
            if sep == '//' and (i >= 2 or head in ('id', 'key', '//')) and flag('no_multi_step_before_dslash'):
                sep = '/'
            toks.append(sep)
        sp = draw(step_pattern(d))
        prev_node_test = 'node' in sp and sp[0] not in ('@', 'attribute')
        toks += sp
    return toks


@st.composite
def patterns(draw, depth=1, allow_key=False):
    alts = [draw(location_path_pattern(depth, allow_key)) for _ in range(draw(st.sampled_from([1, 1, 1, 2, 3])))]
    toks = []
    for i, a in enumerate(alts):
        if i:
            toks.append('|')
        toks += a
    ws = draw(st.lists(st.sampled_from([' ', '', '', ' ']), min_size=1, max_size=4))
    return {'pattern': render(toks, ws), 'ntok': len(toks), 'nalt': len(alts)}
