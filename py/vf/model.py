"""XPath 1.0 data model (Rec. section 5) built from XML source text with pyexpat.

Independent of Xalan/Xerces: the only parser used is expat, run WITHOUT its
namespace processing; namespaces are resolved here from the xmlns attributes.

Beyond the specified interface: Node.nsdecls (the xmlns declarations written on
an element, incl. ('', '') for xmlns=""), Node.skey = (doc.docnum, order) for
cross-document ordering, Document.docnum / uri / unparsed_entities.

Implementation-dependent choices (the Recommendation leaves them open):
  * attribute nodes of one element are ordered as expat reports them
    (specified attributes in source order, then defaulted ones);
  * namespace nodes of one element: 'xml' first, then the in-scope bindings in
    the order in which their prefix was first declared walking from the
    outermost ancestor inward (a re-declaration keeps the prefix's slot).
  Nothing in an oracle may depend on either order.

Documents that are well-formed XML 1.0 but not namespace-well-formed
(unbound prefix, 'a:b:c', attributes equal by expanded name, colon in a PI
target, xmlns:p="", re-binding of xml/xmlns) are rejected with ValueError: they
have no XPath data model.  References to external entities / skipped entities
are rejected as well (UnsupportedDocument, a ValueError).
"""
import itertools
import xml.parsers.expat as _expat

XML_NS = 'http://www.w3.org/XML/1998/namespace'
XMLNS_NS = 'http://www.w3.org/2000/xmlns/'

_docnum = itertools.count(1)


class UnsupportedDocument(ValueError):
    pass


class Node(object):
    __slots__ = ('kind', 'parent', 'children', 'attributes', 'namespaces',
                 'uri', 'local', 'prefix', 'qname', 'value', 'doc', 'order',
                 'key', 'skey', 'nsdecls', '_sv', '_nsmap')

    def __init__(self, kind, doc, parent=None):
        self.kind = kind
        self.doc = doc
        self.parent = parent
        self.children = []
        self.attributes = []
        self.namespaces = []
        self.uri = ''
        self.local = ''
        self.prefix = ''
        self.qname = ''
        self.value = None
        self.order = -1
        self.key = None
        self.skey = None
        self.nsdecls = ()     # elements: ((prefix, uri), ...) as written, incl. ('', '') for xmlns=""
        self._sv = None
        self._nsmap = None

    def string_value(self):
        k = self.kind
        if k == 'element' or k == 'root':
            sv = self._sv
            if sv is None:
                parts = []
                stack = [self]
                # iterative pre-order walk collecting text nodes
                while stack:
                    n = stack.pop()
                    if n.kind == 'text':
                        parts.append(n.value)
                    elif n.children:
                        stack.extend(reversed(n.children))
                sv = self._sv = ''.join(parts)
            return sv
        return self.value

    def __repr__(self):
        return '<Node %s %s>' % (self.kind, self.key)


class Document(object):
    def __init__(self, uri=None):
        self.uri = uri
        self.docnum = next(_docnum)
        self.root = Node('root', self)
        self.ids = {}
        self.unparsed_entities = {}   # name -> (base, systemId, publicId, notation)
        self._bykey = {}
        self._all = []               # every node, document order
        self._cache = {}

    def by_key(self, key):
        return self._bykey.get(key)

    def nodes(self, attrs=True, ns=False):
        ck = (bool(attrs), bool(ns))
        r = self._cache.get(ck)
        if r is None:
            r = [n for n in self._all
                 if (attrs or n.kind != 'attribute') and (ns or n.kind != 'namespace')]
            self._cache[ck] = r
        return r


_name_ok_cache = {}


def _is_xml_name(s):
    """True iff s is accepted by expat as an XML Name (asked of expat itself)."""
    r = _name_ok_cache.get(s)
    if r is None:
        p = _expat.ParserCreate()
        try:
            p.Parse('<' + s + '/>', True)
            r = True
        except _expat.ExpatError:
            r = False
        except Exception:
            r = False
        if len(_name_ok_cache) > 100000:
            _name_ok_cache.clear()
        _name_ok_cache[s] = r
    return r


def _split_qname(q, what):
    """-> (prefix, local); raises ValueError if q is not a QName."""
    i = q.find(':')
    if i < 0:
        return '', q
    pfx, loc = q[:i], q[i + 1:]
    if not pfx or not loc or ':' in loc:
        raise ValueError('not namespace-well-formed: %s name %r' % (what, q))
    c = loc[0]
    if not (c.isascii() and (c.isalpha() or c == '_')):
        if not _is_xml_name(loc):
            raise ValueError('not namespace-well-formed: %s name %r' % (what, q))
    return pfx, loc


class _Builder(object):
    def __init__(self, doc):
        self.doc = doc
        self.cur = doc.root
        self.text = []
        self.in_dtd = False
        self.idattrs = {}      # (element qname, attr qname) -> True
        self.declared = set()  # (element qname, attr qname) seen in any ATTLIST
        self.error = None
        doc.root._nsmap = {'xml': XML_NS}

    # --- text ---------------------------------------------------------
    def flush(self):
        if self.text:
            s = ''.join(self.text)
            self.text = []
            if s:
                n = Node('text', self.doc, self.cur)
                n.value = s
                self.cur.children.append(n)

    def chars(self, data):
        self.text.append(data)

    # --- DTD ----------------------------------------------------------
    def start_doctype(self, name, sysid, pubid, has_internal):
        self.in_dtd = True

    def end_doctype(self):
        self.in_dtd = False

    def attlist(self, elname, attname, typ, default, required):
        k = (elname, attname)
        if k in self.declared:
            return              # first declaration is binding (XML 1.0 section 3.3)
        self.declared.add(k)
        if typ == 'ID':
            self.idattrs[k] = True

    def unparsed(self, name, base, sysid, pubid, notation):
        self.doc.unparsed_entities.setdefault(name, (base, sysid, pubid, notation))

    def external_ref(self, context, base, sysid, pubid):
        self.error = UnsupportedDocument('reference to external entity %r' % (sysid,))
        return 0

    def skipped(self, name, is_pe):
        if not is_pe:
            self.error = UnsupportedDocument('skipped entity %r' % (name,))
            raise self.error

    # --- content ------------------------------------------------------
    def comment(self, data):
        if self.in_dtd:
            return
        self.flush()
        n = Node('comment', self.doc, self.cur)
        n.value = data
        self.cur.children.append(n)

    def pi(self, target, data):
        if self.in_dtd:
            return
        if ':' in target:
            self.error = ValueError('not namespace-well-formed: PI target %r' % target)
            raise self.error
        self.flush()
        n = Node('pi', self.doc, self.cur)
        n.local = n.qname = target
        n.value = data
        self.cur.children.append(n)

    def start(self, name, attrs):
        try:
            self._start(name, attrs)
        except ValueError as e:
            self.error = e
            raise

    def _start(self, name, attrs):
        self.flush()
        parent = self.cur
        el = Node('element', self.doc, parent)
        parent.children.append(el)
        self.cur = el
        # in-scope namespaces (ordered dict: prefix -> uri)
        pmap = parent._nsmap
        nsmap = pmap
        plain = []
        decls = []
        for i in range(0, len(attrs), 2):
            an, av = attrs[i], attrs[i + 1]
            if an == 'xmlns' or an.startswith('xmlns:'):
                decls.append((an[6:], av))
            if an == 'xmlns':
                if av in (XML_NS, XMLNS_NS):
                    raise ValueError('not namespace-well-formed: default namespace bound to %r' % av)
                if nsmap is pmap:
                    nsmap = dict(pmap)
                if av == '':
                    nsmap.pop('', None)
                else:
                    nsmap[''] = av
            elif an.startswith('xmlns:'):
                p = an[6:]
                if not p or ':' in p:
                    raise ValueError('not namespace-well-formed: %r' % an)
                if p == 'xmlns':
                    raise ValueError('not namespace-well-formed: xmlns prefix declared')
                if p == 'xml':
                    if av != XML_NS:
                        raise ValueError('not namespace-well-formed: xml prefix re-bound')
                    continue
                if av == '':
                    raise ValueError('not namespace-well-formed: xmlns:%s=""' % p)
                if av in (XML_NS, XMLNS_NS):
                    raise ValueError('not namespace-well-formed: prefix %s bound to %r' % (p, av))
                c = p[0]
                if not (c.isascii() and (c.isalpha() or c == '_')) and not _is_xml_name(p):
                    raise ValueError('not namespace-well-formed: %r' % an)
                if nsmap is pmap:
                    nsmap = dict(pmap)
                nsmap[p] = av
            else:
                plain.append((an, av))
        el._nsmap = nsmap
        el.nsdecls = tuple(decls)
        # element name
        pfx, loc = _split_qname(name, 'element')
        if pfx == 'xmlns':
            raise ValueError('not namespace-well-formed: element prefix xmlns')
        if pfx:
            if pfx not in nsmap:
                raise ValueError('not namespace-well-formed: unbound prefix %r' % pfx)
            el.uri = nsmap[pfx]
        else:
            el.uri = nsmap.get('', '')
        el.prefix, el.local, el.qname = pfx, loc, name
        # namespace nodes
        for p, u in nsmap.items():
            nn = Node('namespace', self.doc, el)
            nn.local = nn.qname = p
            nn.value = u
            el.namespaces.append(nn)
        # attributes
        seen = set()
        for an, av in plain:
            apfx, aloc = _split_qname(an, 'attribute')
            if apfx:
                if apfx == 'xmlns':
                    raise ValueError('not namespace-well-formed: %r' % an)
                if apfx not in nsmap:
                    raise ValueError('not namespace-well-formed: unbound prefix %r' % apfx)
                auri = nsmap[apfx]
            else:
                auri = ''
            ek = (auri, aloc)
            if ek in seen:
                raise ValueError('not namespace-well-formed: duplicate attribute {%s}%s' % ek)
            seen.add(ek)
            a = Node('attribute', self.doc, el)
            a.uri, a.local, a.prefix, a.qname, a.value = auri, aloc, apfx, an, av
            el.attributes.append(a)
            if (name, an) in self.idattrs:
                self.doc.ids.setdefault(av, el)

    def end(self, name):
        self.flush()
        self.cur = self.cur.parent


def _finalize(doc):
    allnodes = doc._all
    bykey = doc._bykey
    dn = doc.docnum
    root = doc.root
    root.key = '/'
    # explicit stack; children pushed in reverse
    stack = [root]
    while stack:
        n = stack.pop()
        n.order = len(allnodes)
        n.skey = (dn, n.order)
        allnodes.append(n)
        bykey[n.key] = n
        k = n.kind
        if k == 'element' or k == 'root':
            base = '' if k == 'root' else n.key
            for x in n.namespaces:
                x.key = n.key + '/ns:' + x.local
                x.order = len(allnodes)
                x.skey = (dn, x.order)
                allnodes.append(x)
                bykey[x.key] = x
            for x in n.attributes:
                x.key = n.key + '/@{' + x.uri + '}' + x.local
                x.order = len(allnodes)
                x.skey = (dn, x.order)
                allnodes.append(x)
                bykey[x.key] = x
            ch = n.children
            for i in range(len(ch) - 1, -1, -1):
                c = ch[i]
                c.key = base + '/' + str(i)
                stack.append(c)


def parse_document(data, uri=None):
    """Build the XPath data model of an XML document given as bytes or str.

    bytes: encoding is detected by expat (XML declaration / BOM).
    str:   the text is the document; an encoding pseudo-attribute is ignored.
    Raises ValueError if the text is not a (namespace-)well-formed document.
    """
    doc = Document(uri)
    b = _Builder(doc)
    p = _expat.ParserCreate()
    p.ordered_attributes = True
    p.specified_attributes = False
    p.buffer_text = False
    p.StartElementHandler = b.start
    p.EndElementHandler = b.end
    p.CharacterDataHandler = b.chars
    p.CommentHandler = b.comment
    p.ProcessingInstructionHandler = b.pi
    p.StartDoctypeDeclHandler = b.start_doctype
    p.EndDoctypeDeclHandler = b.end_doctype
    p.AttlistDeclHandler = b.attlist
    p.UnparsedEntityDeclHandler = b.unparsed
    p.ExternalEntityRefHandler = b.external_ref
    p.SkippedEntityHandler = b.skipped
    try:
        p.Parse(data, True)
    except _expat.ExpatError as e:
        if b.error is not None:
            raise b.error
        raise ValueError('not well-formed: %s' % e)
    except ValueError:
        raise
    except (TypeError, UnicodeError) as e:
        raise ValueError('not well-formed: %s' % e)
    if b.error is not None:
        raise b.error
    _finalize(doc)
    return doc


def dump(doc):
    """Debug helper: one line per node."""
    out = []
    for n in doc.nodes(True, True):
        out.append('%3d %-10s %-22s %s %r' % (n.order, n.kind, n.key, n.qname, n.value))
    return '\n'.join(out)
