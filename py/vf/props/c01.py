"""C01 - the transformation result equals the tree XSLT 1.0 defines for stylesheet and source."""
import os
import shutil
import tempfile

from hypothesis import strategies as st

from .. import ref_xslt as X
from ..tools import xslt_vs_libxslt as T
from . import c05

ID = 'C01'
LEVEL = 'exploration'
RULE = ('Hypothesis draws a seed for the stylesheet/document generator (uniform pseudo-random programs; failures are minimised structurally by reduce(), the saved case is the program text) that was used to validate '
        'the reference interpreter: error-free and terminating by construction, over template rules with match/name/mode/priority, built-in rules, '
        'apply-templates/-imports, call-template, for-each, sort, value-of, copy, copy-of, element, attribute, attribute sets, text, comment, PI, if, '
        'choose, variables/params incl. result-tree fragments and with-param, xsl:number, keys, import/include trees, strip/preserve-space, literal result '
        'elements with AVTs, exclude-result-prefixes, namespace-alias, document(), top-level parameters. Xalan\'s result-tree EVENT stream (captured at the '
        'FormatterListener, before any serializer) is folded into a tree and compared with the tree computed by the independent XSLT 1.0 reference '
        'interpreter vf.ref_xslt (elements, attributes as a set, text, comments, PIs, in order). If they differ and libxslt agrees with Xalan outside its '
        'documented deviation classes the case is counted as oracle_dispute instead of a violation. '
        'Non-trivial: the stylesheet has >= 3 instruction kinds and the result has >= 3 nodes. distinct = case text.')
ASSUMPTIONS = ['vf.ref_xslt (self-test 339 checks; differential vs libxslt: 100000 cases, 0 unexplained) and its ambiguity list B1-B20 (cases hitting them raise Unsupported and are skipped)',
               'libxslt is only a veto against reference bugs, never the oracle']

OPEN = set()
ALL_OPEN = set()
FLAGS = set()
_loaded = []


def load_flags(ctx):
    if _loaded:
        return
    _loaded.append(1)
    for e in ctx.findings.open_for(ID):
        OPEN.add(e['id'])
        for f in e.get('exclusion_flags', []):
            FLAGS.add(f)
    for e in ctx.findings.entries:
        if e['status'] == 'open':
            ALL_OPEN.add(e['id'])
    T.SAME_PRIORITY_UNIONS[0] = 'F-C10-union-alt-priority' in ALL_OPEN


def budget(tier):
    if tier == 'quick':
        return dict(workers=14, examples=1500, wall=170)
    return dict(workers=14, examples=20000, wall=1700)


def build(rnd):
    flags = set()
    files = {}
    dg = T.DocGen(rnd, flags, False)
    files['doc.xml'] = dg.document()
    sg = T.StyleGen(rnd, flags, False, dg.ids)
    params = sg.generate(files)
    if 'ext.xml' in sg.docs:
        eg = T.DocGen(rnd, set(), False)
        eg.dtd = False
        files['ext.xml'] = eg.document()
    return {'files': files, 'params': params, 'flags': sorted(flags)}


def strategy(ctx):
    load_flags(ctx)
    # Hypothesis draws a SEED and the program generator runs on random.Random(seed).  (Driving the generator through st.randoms made every
    # one of its choices a Hypothesis draw, whose distributions are skewed towards boundary values: the programs were far less varied than
    # with a uniform generator - measured on a seeded regression that 0.12 % of uniformly generated programs expose and the skewed stream
    # never did.)  Minimisation is done by reduce() on the program text, not by shrinking the seed.
    import random
    return st.integers(0, 2 ** 48).map(lambda seed: build(random.Random(seed)))


def param_field(k, v):
    if isinstance(v, bool):
        e = 'true()' if v else 'false()'
    elif isinstance(v, str):
        e = ('"%s"' % v) if "'" in v else ("'%s'" % v)
    else:
        e = repr(int(v)) if v == int(v) else repr(v)
    return ('param', '%s\x1fexpr\x1f%s' % (k, e))


def kinds_of(text):
    import re
    return set(re.findall(r'<xsl:([a-z-]+)', text))


def count_nodes(ev):
    n = 0
    for e in ev:
        n += 1
        if e[0] == 'E':
            n += len(e[2]) + count_nodes(e[3])
    return n


# classes reported by the reference interpreter's trigger hooks -> the finding they are the trigger of
# classes of the reference that mean "implementation-dependent", not "deviation": the relative order of nodes of DIFFERENT documents
# (XPath 5: document order across documents is implementation-dependent), e.g. the order in which  $nodeOfOtherDocument | path  is copied
UNSPECIFIED_CLASSES = {'multidoc-order'}
CLASS_FINDING = {'rtf-empty-boolean': 'F-C01-empty-rtf-boolean'}


def static_exclusions(case):
    """triggers of OPEN findings that belong to OTHER properties (C09/C10/C14/C15/C17), recognised on the stylesheet text.  Only findings
    that are open are excluded; each exclusion is counted in the evidence."""
    return [h for h in static_triggers(case) if h in ALL_OPEN]


def static_triggers(case):
    """ids of the findings (open or not) whose trigger is present in the stylesheet / document text"""
    import re
    from .. import ref_xpath
    hits = []
    text = ''.join(t for n, t in case['files'].items() if n.endswith('.xsl'))
    for m in re.finditer(r'<xsl:template\b([^>]*)>', text):
        attrs = m.group(1)
        mm = re.search(r'\bmatch="([^"]*)"', attrs)
        if not mm:
            continue
        pat = mm.group(1).replace('&lt;', '<').replace('&gt;', '>').replace('&amp;', '&')
        if '|' in pat and not re.search(r'\bpriority=', attrs):
            try:
                alts = ref_xpath.pattern_alternatives(ref_xpath.parse_pattern(pat))
                if len({p for _, p in alts}) > 1:
                    hits.append('F-C10-union-alt-priority')
            except Exception:
                pass
    for m in re.finditer(r'\b(?:match|count|from)="([^"]*)"', text):
        pat = m.group(1).replace('&lt;', '<').replace('&gt;', '>').replace('&amp;', '&')
        if re.search(r'(@|attribute::)[^/|]*\[', pat):
            hits.append('F-C09-attr-positional')
        if re.search(r'(@|attribute::)\s*(node|text|comment|processing-instruction)\(', pat):
            hits.append('F-C09-attr-step-type-test')
        from . import c09
        shapes = c09.dslash_shapes(pat)
        if 'abs-inner-dslash' in shapes:
            hits.append('F-C09-abs-inner-dslash')
        if 'multi-before-dslash' in shapes:
            hits.append('F-C09-dslash-no-backtrack')
        if 'node-before-dslash' in shapes:
            hits.append('F-C09-root-as-ancestor-step')
    if 'namespace-alias' in text and re.search(r'<xsl:(attribute|element)\b', text):
        hits.append('F-C14-alias-by-prefix')
    if re.search(r'<xsl:key\b[^>]*use="[^"]*(position|last)\(', text):
        hits.append('F-C15-use-position')
    if re.search(r'<xsl:number\b[^>]*level="any"[^>]*from=|<xsl:number\b[^>]*from=[^>]*level="any"', text):
        hits.append('F-C17-any-from-ancestors')
    if re.search(r'xml:space=', case['files']['doc.xml']) and 'strip-space' in text:
        hits.append('F-C13-xml-space-ignored')
    if 'namespace-alias' in text and len([n for n in case['files'] if n.endswith('.xsl')]) > 1:
        hits.append('F-C14-alias-import-scope')
    return hits


def transform_with_fallback(ctx, fields, **kw):
    from ..drv import DriverCrash, crash_signature
    try:
        return ctx.drv.call('transform', fields, **kw)
    except DriverCrash as e:
        kf = ctx.findings.match_any('crash:' + crash_signature(e.stderr))
        if kf is None or kf.get('fallback') != 'ndebug':
            raise
        ctx.known_seen[kf['id']] += 1
        ctx.counters['fallback:ndebug'] += 1
        return ctx.drv_flavor('ndebug').call('transform', fields, **kw)


_seen_same = [0]


def check(ctx, case):
    load_flags(ctx)
    if T.SAME_PRIORITY_UNIONS[1] > _seen_same[0]:
        ctx.excluded['F-C10-union-alt-priority(by construction: same-priority alternatives)'] += T.SAME_PRIORITY_UNIONS[1] - _seen_same[0]
        _seen_same[0] = T.SAME_PRIORITY_UNIONS[1]
    if ctx.tier != 'replay':
        hits = static_exclusions(case)
        if hits:
            for h in set(hits):
                ctx.excluded[h] += 1
            return None
    tcase = T.Case(0, False, files=case['files'], params=case['params'], flags=set(case['flags']))
    base = 'file:///vmem/'
    trig = T.Triggers()
    kinds = set()
    for t in case['files'].values():
        kinds |= kinds_of(t)
    try:
        ref = T.run_reference(tcase, base, trig)
    except X.XSLTUnsupported as e:
        ctx.counters['ref:unsupported'] += 1
        ctx.note(case, False, ['unsupported'])
        return None
    except (X.XSLTStaticError, X.XSLTDynamicError) as e:
        ctx.counters['ref:error'] += 1
        ctx.note(case, False, ['ref-error'])
        return None
    except RecursionError:
        ctx.counters['ref:recursion'] += 1
        return None
    # reference-side triggers of open findings (recognised while the reference runs)
    hit = [CLASS_FINDING[c] for c in sorted(trig.hit) if c in CLASS_FINDING and CLASS_FINDING[c] in ALL_OPEN]
    if hit and ctx.tier != 'replay':
        for h in hit:
            ctx.excluded[h] += 1
        return None
    mine = T.strip_top(X.dump(ref))
    nn = count_nodes(mine)
    ctx.note(case, len(kinds) >= 3 and nn >= 3, ['kinds:%d' % min(len(kinds), 12), 'modules:%d' % len([f for f in case['files'] if f.endswith('.xsl')])] +
             sorted('i:' + k for k in kinds if k in ('number', 'key', 'sort', 'apply-imports', 'attribute-set', 'namespace-alias', 'strip-space', 'copy-of', 'call-template')),
             sample_text={'main.xsl': case['files']['main.xsl'][:600], 'doc.xml': case['files']['doc.xml'][:200]})
    fields = [('res', '%s\0%s' % kv) for kv in case['files'].items()] + [param_field(k, v) for k, v in sorted(case['params'].items())]
    r = transform_with_fallback(ctx, fields, xsl=case['files']['main.xsl'].encode('utf-8'), xml=case['files']['doc.xml'].encode('utf-8'),
                                xmlsys='file:///vmem/doc.xml', outform='events')
    if r.gets('rc') != '0':
        return {'what': 'transformation-failed', 'err': (r.gets('err') or '')[:400], 'classes': sorted(trig.hit), 'recoveries': list(ref.recoveries)}
    try:
        got = T.strip_top(c05.events_tree(r))
    except KeyError as e:
        return {'what': 'unbound-prefix-in-result', 'err': str(e), 'classes': sorted(trig.hit)}
    if got == mine:
        return None
    # where do they differ
    from ..gen_tree import tree_diff
    d = tree_diff(mine, got) or 'differs'
    classes = set(trig.hit)
    if ref.recoveries:
        classes.add('recovery:' + ','.join(sorted(ref.recoveries)))
    if classes & UNSPECIFIED_CLASSES:
        # the reference itself reports that its result depends on a choice the Recommendations leave to the implementation
        for c in sorted(classes & UNSPECIFIED_CLASSES):
            ctx.counters['unjudged:' + c] += 1
        return None
    # libxslt veto
    veto = None
    tmp = tempfile.mkdtemp(prefix='c01.', dir='/dev/shm')
    try:
        rc, out, err = T.run_xsltproc(tcase, tmp)
        if rc == 0:
            try:
                theirs = T.strip_top(T.parse_output(out))
                if theirs == got and not classes:
                    veto = 'libxslt agrees with Xalan'
            except ValueError:
                pass
    finally:
        shutil.rmtree(tmp, ignore_errors=True)
    if veto:
        ctx.disputes.append({'diff': d[:300], 'main.xsl': case['files']['main.xsl'][:1500], 'doc.xml': case['files']['doc.xml'][:400]})
        return None
    return {'what': 'result-differs', 'diff': d[:500], 'classes': sorted(classes), 'kinds': sorted(kinds),
            'main.xsl': case['files']['main.xsl'][:3000], 'doc.xml': case['files']['doc.xml'][:600], 'params': case['params']}


def signature(case, detail):
    if 'crash' in detail:
        return 'crash:%s' % detail['crash']
    import re
    d = detail.get('diff', '') or detail.get('err', '')
    d = re.sub(r"/\d+", '/N', d)
    d = re.sub(r"'[^']*'|\"[^\"]*\"|\d+", '_', d)
    # the triggers of findings present in the case: a finding's signature_re requires its own (DESIGN 2.7 point 7)
    trigs = set(static_triggers(case)) | {CLASS_FINDING[c] for c in detail.get('classes', []) if c in CLASS_FINDING}
    return '%s|%s|%s' % (detail['what'], d[:80], ','.join(sorted(trigs)))


# ------------------------------------------------------------------------------------------ reduction
def reduce(ctx, failure, max_trials=600):
    """structural delta debugging of a failing case (the generator is driven through st.randoms, whose byte-level shrinking leaves large
    stylesheets): repeatedly delete one element or attribute of a stylesheet module / the document while the case still fails with the same
    kind of signature and is still a case the check would judge (no exclusion, no reference error).  Deterministic."""
    from xml.dom import minidom
    case, detail, sig = failure
    kind = sig.split('|')[0]
    trials = [0]

    def still(c):
        trials[0] += 1
        from ..drv import DriverCrash, crash_signature
        try:
            d = check(ctx, c)
        except DriverCrash as e:
            d = {'crash': crash_signature(e.stderr), 'stderr': e.stderr[-4000:]}
        except Exception:
            return None
        if not d:
            return None
        s = signature(c, d)
        if s.split('|')[0] != kind or ctx.findings.match(ID, s) is not None:
            return None
        return (c, d, s)

    def candidates(dom):
        out = []

        def walk(n):
            for ch in list(n.childNodes):
                if ch.nodeType == ch.ELEMENT_NODE:
                    out.append(('elem', ch))
                    walk(ch)
                elif ch.nodeType in (ch.COMMENT_NODE, ch.PROCESSING_INSTRUCTION_NODE):
                    out.append(('elem', ch))
        walk(dom)
        for kind_, e in list(out):
            if e.nodeType == e.ELEMENT_NODE and e.attributes is not None:
                for i in range(e.attributes.length):
                    a = e.attributes.item(i)
                    if not a.name.startswith('xmlns') and a.name not in ('version',):
                        out.append(('attr', (e, a.name)))
        return out

    best = (case, detail, sig)
    changed = True
    while changed and trials[0] < max_trials:
        changed = False
        for fname in sorted(best[0]['files'], key=lambda n: (not n.endswith('.xsl'), n)):
            idx = 0
            while trials[0] < max_trials:
                text = best[0]['files'][fname]
                try:
                    dom = minidom.parseString(text.encode('utf-8'))
                except Exception:
                    break
                cands = candidates(dom)
                cands = [c for c in cands if not (c[0] == 'elem' and c[1] is dom.documentElement)]
                if idx >= len(cands):
                    break
                k, what = cands[idx]
                if k == 'elem':
                    what.parentNode.removeChild(what)
                else:
                    what[0].removeAttribute(what[1])
                new_text = dom.toxml()
                if new_text.startswith('<?xml'):
                    new_text = new_text[new_text.index('?>') + 2:]
                files = dict(best[0]['files'])
                files[fname] = new_text
                r = still(dict(best[0], files=files))
                if r is not None:
                    best = r
                    changed = True
                else:
                    idx += 1
        # modules nobody refers to any more
        used = ''.join(t for n, t in best[0]['files'].items())
        for fname in list(best[0]['files']):
            if fname not in ('main.xsl', 'doc.xml') and fname not in used:
                files = dict(best[0]['files'])
                del files[fname]
                r = still(dict(best[0], files=files))
                if r is not None:
                    best = r
    ctx.counters['reduce:trials'] += trials[0]
    return best
