"""C02 - XPath 1.0 expressions evaluate to the value the Recommendation defines."""
import re

from hypothesis import strategies as st

from .. import gen_xpath, ref_xpath, xpcase
from ..xpcase import Prepared, ref_eval, type_of, same_num, unbits, expr_features

ID = 'C02'
LEVEL = 'exploration'
RULE = ('Hypothesis draws (document, expression, context node, optional context node list giving position/size, variable bindings of all '
        'four types incl. one XObject bound to two names) from gen_xml x the typed grammar gen_xpath (all 13 axes, node tests, 0-2 predicates '
        'per step, unions, filter expressions, variables, the whole core library, arbitrary inter-token whitespace); sub-domain "syntax": valid '
        'expressions damaged by token deletion/duplication/transposition/insertion; sub-domain "ext": EXSLT/xalan functions. Xalan '
        '(XPathProcessorImpl + XPath::execute, native tree and Xerces wrapper) is compared with the independent Python reference: type, exact '
        'boolean, number bit-for-bit, exact string, node-sets as sets of structural keys (and as sequences where Xalan flags document order); '
        'accept/reject must agree for damaged strings. Non-trivial: >=5 tokens and a non-empty / non-NaN value, or a damaged string. '
        'distinct = distinct (expression, document, context) text.')
ASSUMPTIONS = ['vf.ref_xpath is a correct XPath 1.0 evaluator (self-test: 77844 checks; differential vs libxml2: 3.2M cases, 0 unexplained)',
               'ambiguities A1-A15 listed in ref_xpath.py are kept out of the generated domain',
               'relative order of attribute / namespace nodes of one element is never observed']

_loaded = []


def load_flags(ctx):
    if _loaded:
        return
    _loaded.append(1)
    for e in ctx.findings.open_for(ID):
        for f in e.get('exclusion_flags', []):
            gen_xpath.FLAGS.add(f)


def budget(tier):
    if tier == 'quick':
        return dict(workers=14, examples=3500, wall=160)
    return dict(workers=14, examples=90000, wall=1700)


MUTS = ['del', 'dup', 'swap', 'ins']
INS = ['-', '/', '//', '|', '(', ')', '[', ']', ',', '::', '@', '$', '*', 'div', '!', '=', '..', '.', "'", '1e3', '+', '1.2.3', 'child::', '#', '&', ':', 'a:', ':a',
       'foo(', '5.', '.5', '$ x', 'a b', '<', '<=', 'and', 'or', 'mod', 'text(', 'node()', 'processing-instruction(a)']


@st.composite
def syntax_cases(draw):
    base = draw(xpcase.cases(depth=2))
    toks = re.findall(r"'[^']*'|\"[^\"]*\"|::|//|!=|<=|>=|\.\.|[\w.:-]+|\S", base['expr'])
    n = draw(st.integers(1, 2))
    for _ in range(n):
        if not toks:
            break
        m = draw(st.sampled_from(MUTS))
        i = draw(st.integers(0, len(toks) - 1))
        if m == 'del':
            del toks[i]
        elif m == 'dup':
            toks.insert(i, toks[i])
        elif m == 'swap' and i + 1 < len(toks):
            toks[i], toks[i + 1] = toks[i + 1], toks[i]
        else:
            toks.insert(i, draw(st.sampled_from(INS)))
    base['expr'] = ' '.join(toks) if draw(st.booleans()) else ''.join(
        t + (' ' if (t[-1].isalnum() or t[-1] in '_-.') else '') for t in toks)
    base['kind'] = 'syntax'
    return base


EXT = [
    ('set:difference', 2, 'nn'), ('set:intersection', 2, 'nn'), ('set:distinct', 1, 'n'), ('set:has-same-node', 2, 'nn'),
    ('set:leading', 2, 'nn'), ('set:trailing', 2, 'nn'),
    ('math:min', 1, 'n'), ('math:max', 1, 'n'), ('math:highest', 1, 'n'), ('math:lowest', 1, 'n'), ('math:abs', 1, 'N'),
    ('str:padding', 2, 'Ns'), ('str:padding', 1, 'N'), ('str:concat', 1, 'n'), ('str:align', 3, 'ssa'),
    ('exsl:object-type', 1, 'x'),
    ('xalan:distinct', 1, 'n'), ('xalan:difference', 2, 'nn'), ('xalan:intersection', 2, 'nn'), ('xalan:hasSameNodes', 2, 'nn'),
]


@st.composite
def ext_cases(draw):
    base = draw(xpcase.cases(depth=1))
    fn, ar, sig = draw(st.sampled_from(EXT))
    args = []
    for ch in sig:
        if ch == 'n':
            args.append(gen_xpath.render(draw(gen_xpath.nodeset(1)), [' ']))
        elif ch == 'N':
            args.append(draw(st.sampled_from(['0', '1', '3', '10', '2.5', '7', '100', 'count(//*)'])))  # str:padding is quadratic: small counts only
        elif ch == 's':
            args.append(draw(st.sampled_from(["'ab'", "'-'", "''", "'xyz'", '$s1', 'string(.)'])))
        elif ch == 'a':
            args.append(draw(st.sampled_from(["'left'", "'right'", "'center'"])))
        else:
            args.append(gen_xpath.render(draw(gen_xpath.anyexpr(1)), [' ']))
    wrap = draw(st.sampled_from(['%s', '%s', 'count(%s)', 'string(%s)', 'boolean(%s)']))
    base['expr'] = wrap % ('%s(%s)' % (fn, ', '.join(args)))
    base['kind'] = 'ext'
    return base


def strategy(ctx):
    load_flags(ctx)
    astral = 'no_astral_strings' not in gen_xpath.FLAGS
    return st.one_of(xpcase.cases(depth=3, astral=astral), xpcase.cases(depth=3, astral=astral), xpcase.cases(depth=2, astral=astral),
                     syntax_cases(), ext_cases()).map(lambda c: apply_flags(c, ctx))


def apply_flags(case, ctx):
    """exclusion of open findings BY CONSTRUCTION (counted): the case that is returned is the case that is run, shrunk, saved and replayed"""
    if case.get('docform') == 'xerces' and 'ns_axis_native_only' in gen_xpath.FLAGS and re.search(r'namespace\s*::', case['expr']):
        gen_xpath.COUNTS['ns_axis_native_only'] += 1
        ctx.excluded['ns_axis_native_only'] += 1
        case = dict(case, docform='native')
    if case.get('docform') == 'xerces' and '<!DOCTYPE' in case['xml'] and 'doctype_native_only' in gen_xpath.FLAGS:
        ctx.excluded['doctype_native_only'] += 1
        case = dict(case, docform='native')
    if case.get('docform') == 'xerces' and '<![CDATA[' in case['xml']:
        # the Xerces DOM keeps CDATA sections as separate nodes: not the XPath data model (DESIGN: leniencies)
        case = dict(case, docform='native')
    return case


_NUMERAL = re.compile(r'-?\d+(?:\.\d+)?')
TOLERATED = {'numeral-digits': 0}


def same_up_to_numerals(expected, got):
    """The string of a number: the reference writes the SHORTEST numeral that converts back to the double; C18 (which owns number to string
    conversion) accepts every numeral in the canonical form that converts back to the same double, and Xalan sometimes writes one more digit
    (900719925474099.25 for the double whose shortest numeral is 900719925474099.2).  Two strings are taken as equal when they are equal
    outside their numerals and corresponding numerals denote the same double."""
    if expected is None or got is None:
        return False
    if _NUMERAL.sub('#', expected) != _NUMERAL.sub('#', got):
        return False
    a, b = _NUMERAL.findall(expected), _NUMERAL.findall(got)
    if len(a) != len(b):
        return False
    for x, y in zip(a, b):
        if x != y and (float(x) != float(y) or len(y) > len(x) + 2):
            return False
    TOLERATED['numeral-digits'] += 1
    return True


def compare_value(ref, r, pfx='g'):
    """ref: python value; r: driver response.  returns None or (what, expected, got)"""
    t = type_of(ref)
    got_t = r.gets(pfx + '.type')
    if got_t != t:
        return ('type', t, got_t)
    if t == 'boolean':
        g = r.gets('g.bool') == '1'
        if g != ref:
            return ('boolean', ref, g)
    elif t == 'number':
        g = unbits(r.gets('g.num'))
        if not same_num(g, ref):
            return ('number', repr(ref), repr(g))
    elif t == 'string':
        g = r.gets('g.str')
        if g != ref and not same_up_to_numerals(ref, g):
            return ('string', ref, g)
    else:
        keys = [k for k in (r.gets('g.nodes') or '').split('\n') if k]
        exp = [n.key for n in ref]
        if len(keys) != len(set(keys)):
            return ('nodeset-duplicates', exp, keys)
        if set(keys) != set(exp):
            return ('nodeset', exp, keys)
    return None


def check(ctx, case):
    load_flags(ctx)
    try:
        prep = Prepared(case)
    except ValueError:
        return None
    expr = case['expr']
    kind = case.get('kind', '?')
    ext = ref_xpath.extension_functions() if kind == 'ext' else None
    status, ref = ref_eval(prep, expr, ext)
    feats = expr_features(expr)
    classes = ['kind:' + kind, 'ref:' + status, 'form:' + case.get('docform', 'native')] + sorted(feats)
    if prep.ctxlist is not None:
        classes.append('ctxlist')
    if status == 'unspecified':
        ctx.counters['skipped:unspecified'] += 1
        return None
    r = prep.call(ctx, expr, only='gl')
    compiled = r.has('compile.ok')
    nontrivial = False
    if status == 'ok':
        if isinstance(ref, list):
            empty = len(ref) == 0
        elif isinstance(ref, str):
            empty = ref == ''
        elif isinstance(ref, float):
            empty = ref != ref
        else:
            empty = False
        classes.append('value:empty' if empty else 'value:nonempty')
        nontrivial = (case.get('ntok', 9) >= 5 and not empty) or kind in ('syntax',)
    else:
        nontrivial = kind == 'syntax'
    classes.append('prior:%d' % len(case.get('prior') or []))
    ctx.note({'x': case['xml'], 'e': expr, 'c': case['ctx'], 'l': case.get('ctxlist')}, nontrivial, classes,
             sample_text={'expr': expr, 'xml': case['xml'][:300], 'ctx': prep.ctx.key, 'ref': status})
    if status == 'syntax':
        # rejected = an error at compile time or when evaluated (e.g. '$', '/[1]' only fail in execute())
        if compiled and not r.has('g.err'):
            # known leniency of the tokenizer: whitespace inside '//' and inside QNames.  Identified precisely: the
            # string becomes a valid expression when exactly that whitespace is removed.
            relaxed = re.sub(r'/\s+/', '//', re.sub(r'/\s+/', '//', expr))
            relaxed = re.sub(r'\s*(?<!:):(?!:)\s*', ':', relaxed)
            relaxed = re.sub(r'\$\s+', '$', relaxed)
            lenient = False
            if relaxed != expr:
                try:
                    ref_xpath.parse(relaxed)
                    lenient = True
                except ref_xpath.XPathSyntaxError as e2:
                    # both leniencies of F-C02-lenient-lexing in one string: once the whitespace is removed, what remains wrong is
                    # a '$' without a name (in a sub-expression that is not evaluated)
                    if "'$' must be directly followed by a QName" in str(e2):
                        return {'what': 'accepts-non-expression', 'expr': expr, 'ref': str(e2), 'g.type': r.gets('g.type'), 'also': 'lenient-whitespace'}
            if lenient:
                return {'what': 'accepts-non-expression', 'expr': expr, 'ref': 'lenient-whitespace', 'g.type': r.gets('g.type')}
            return {'what': 'accepts-non-expression', 'expr': expr, 'ref': ref, 'g.type': r.gets('g.type'), 'g.err': r.gets('g.err')}
        return None
    if status == 'static':
        # unbound prefix / unknown function / wrong arity: must be an error at compile or run time
        if compiled and not r.has('g.err'):
            return {'what': 'no-error-for-static-error', 'expr': expr, 'ref': ref}
        return None
    if status == 'dynamic':
        # type errors / unbound variables: the Recommendation leaves the time of detection open, and a processor
        # may detect them statically; only a crash would be a failure
        ctx.counters['skipped:dynamic'] += 1
        return None
    if not compiled:
        return {'what': 'rejects-valid-expression', 'expr': expr, 'err': r.gets('compile.errmsg'), 'feats': sorted(feats)}
    if r.has('g.err'):
        return {'what': 'error-evaluating', 'expr': expr, 'err': r.gets('g.errmsg'), 'errkind': r.gets('g.err'), 'feats': sorted(feats)}
    d = compare_value(ref, r)
    if d:
        trig = triggers(case)
        if d[0] == 'nodeset' and _only_namespace_node_owner_differs(prep, d[1], d[2]):
            trig.append('nsnode-shared')
        return {'what': 'value:' + d[0], 'expr': expr, 'expected': _j(d[1]), 'got': _j(d[2]), 'ctx': prep.ctx.key, 'pos': [prep.pos, prep.size],
                'feats': sorted(feats), 'form': case.get('docform'), 'trig': trig}
    return None


def _only_namespace_node_owner_differs(prep, expected, got):
    """F-C02-namespace-axis, native form: the namespace nodes of an element are the xmlns attributes of the declaring ancestors (or self),
    shared by all elements in their scope.  True iff the two node lists have the same nodes other than namespace nodes in the same order,
    and every namespace node on either side has a counterpart on the other with the same prefix and namespace name whose owner is the
    expected owner or one of its ancestors (the relative order of namespace nodes is implementation-dependent, XPath 5.4)."""
    expected, got = list(expected), list(got)
    if not any('/ns:' in k for k in expected):
        return False
    if [k for k in expected if '/ns:' not in k] != [k for k in got if '/ns:' not in k]:
        return False
    bykey = {n.key: n for n in prep.doc.nodes(attrs=True, ns=True)}

    def counterpart(e, g):
        eo, ep = e.rsplit('/ns:', 1)
        go, gp = g.rsplit('/ns:', 1)
        if ep != gp or not (eo == go or eo.startswith(go + '/')):
            return False
        en, gn = bykey.get(e), bykey.get(g)
        return en is not None and gn is not None and en.value == gn.value
    ens = [k for k in expected if '/ns:' in k]
    gns = [k for k in got if '/ns:' in k]
    return bool(gns) and all(any(counterpart(e, g) for g in gns) for e in ens) and all(any(counterpart(e, g) for e in ens) for g in gns)


def triggers(case):
    """the constructions open findings are about, as present in the case THAT WAS RUN (after by-construction exclusion): a finding's
    signature requires its trigger, so it can never cover a failure of a case that does not contain it"""
    t = []
    expr = case['expr']
    xerces = case.get('docform') == 'xerces'
    if xerces and '<!DOCTYPE' in case['xml']:
        t.append('xerces-doctype')
    if xerces and re.search(r'namespace\s*::', expr):
        t.append('xerces-nsaxis')
    if re.search(r'(@|attribute\s*::)\s*(node|text|comment|processing-instruction)\s*\(', expr):
        t.append('attr-node-test')
    if any(ord(ch) > 0xFFFF for ch in expr + case['xml']):
        t.append('astral')
    return t


def _j(v):
    if isinstance(v, (list, tuple)):
        return list(v)[:30]
    return v


def signature(case, detail):
    if 'crash' in detail:
        return 'crash:%s' % detail['crash']
    if detail['what'] in ('accepts-non-expression', 'no-error-for-static-error'):
        # identified by the reference parser's complaint (position stripped), which does not change under shrinking
        msg = re.sub(r"\bat \d+.*$", '', str(detail.get('ref', '')))
        msg = re.sub(r"'\w[^']*'|\d+", '_', msg).strip()   # keep punctuation tokens, drop names / numbers
        return '%s|%s' % (detail['what'], msg[:70])
    sig = '%s|%s' % (detail['what'], '+'.join(detail.get('feats', [])) if 'feats' in detail else _shape(detail.get('expr', '')))
    if detail['what'].startswith('value:'):
        sig += '|' + ','.join(detail.get('trig', []))
    return sig


def _shape(expr):
    s = re.sub(r"'[^']*'|\"[^\"]*\"", 'S', expr)
    s = re.sub(r'\d+(\.\d*)?|\.\d+', 'N', s)
    s = re.sub(r'\s+', '', s)
    return s[:60]
