"""C03 - no input crashes, hangs or corrupts memory; every failure is a reported error.

This module is the NEAR-VALID half of the C03 check (grammar-level mutation of valid programs, driven by Hypothesis through the
sanitizer-instrumented driver); the byte-level half (libFuzzer targets with the same oracle inside the target) is bin/check-c03-fuzz.
"""
import json
import os
import re

from hypothesis import strategies as st

from .. import gen_xpath
from ..tools import xslt_vs_libxslt as T
from . import c01

ID = 'C03'
LEVEL = 'exploration'
RULE = ('Two engines. (1) NEAR-VALID (this part, Hypothesis): a valid multi-module stylesheet + document from the C01 generator, or a valid XPath '
        'case from the C02 generator, is damaged by 1-4 grammar-level mutations: delete / duplicate a span, rename an XSLT element, drop an '
        'attribute, replace an attribute value by a hostile one (unbound prefix, unbalanced AVT braces, numbers of every magnitude, 400-digit '
        'literals, unbalanced / 2000-deep parentheses and predicates, undefined variables and functions, document() of missing resources, '
        'format-number patterns, huge xsl:number values and formats), nest the template body up to 1.5*10^3 deep (the cost is quadratic in the depth), insert raw bytes (NUL, C0/C1, '
        'invalid UTF-8, lone surrogates as CESU), change the encoding declaration, hostile top-level parameter expressions; the same for the '
        'source document. Every case is run through XalanTransformer (stream and compiled/parsed forms) in the ASan+UBSan driver with asserts '
        'on. Oracle: the call returns; rc == 0, or rc != 0 with a non-empty error message; no exception escapes; no sanitizer/assert report; '
        'the same request run a second time ON THE SAME transformer returns the same status and a follow-up known-good transformation (count, xsl:number, sort, key) on it gives the expected bytes; LeakSanitizer finds no new unreachable block '
        'after the case. XPath cases go through all evaluator entry points; errors must be reported as errors. A hang / runaway allocation is '
        'INCONCLUSIVE for transformations (a mutated XSLT program may legitimately not terminate) and a failure for XPath evaluation. '
        'Non-trivial: the damaged input got past XML parsing (it was compiled or executed: success, or an XSLT/XPath-level error). '
        'distinct = case text. (2) BYTE-LEVEL (libFuzzer, coverage-guided, same oracle inside the target): see coverage.fuzz.')
ASSUMPTIONS = ['sanitizers see only instrumented code: the system libxerces-c / ICU are not instrumented (their heap errors are visible only through ASan interceptors)',
               'nesting "up to memory" is explored to 1.5*10^3 (near-valid) / 64 KiB inputs (fuzzer): deeper recursion limits are not searched',
               'a leak is attributed to the case after which LeakSanitizer first reports it']

XSL = 'http://www.w3.org/1999/XSL/Transform'
HOSTILE_VALUES = [
    '', ' ', '{', '}', '{{', '}}{', '{}', "{'", 'zz:undeclared', 'xmlns', 'xml:', ':', 'a:b:c', '1e400', '-1e400', '9' * 400, '0.' + '0' * 400 + '1',
    '1e89' + '0' * 5, '9' * 90 + ' * 10', '9223372036854775807', '9223372036854775808', '-9223372036854775809', '18446744073709551616', '4294967296', '2147483648',
    '-', '- - 1', '--1', '//', '/', '/..', '..//..', '.', '*', '@', '@*', '|', 'a|', '$', '$undefined', '$zz:x', "'", '"', '(' * 200, '(' * 2000 + '1' + ')' * 2000,
    '[' * 50, 'a' + '[1]' * 1500, 'a' + '/a' * 1500, '-' * 1500 + '1', 'not(' * 800 + '1' + ')' * 800, 'undefined-function()', 'zz:f()', 'count()', 'count(1)', 'id()', 'key()', "key('nokey', 1)",
    "document('nonexistent.xml')", "document('')", "document('file:///')", "document('http://[::1')", "document('%%%')", "document(.)", "document(//*)",
    "format-number(1e300, '#.################################################')", "format-number(-1e-300, '0.0E0')", "format-number(1, '')", "format-number(1, ';;')",
    "format-number(0 div 0, '#', 'nodf')", "format-number(1e20, '#,###,###,###,###,###,###.00')", "substring('x', -1e300, 1e300)", "substring('x', 0 div 0)",
    "string-length(" + "concat('a','b'," * 100 + "'c'" + ")" * 100 + ")", "translate('abc', 'abc', '')", "generate-id(/..)", "system-property('zz:x')", "system-property('xsl:version')",
    "function-available('')", "element-available(':')", "unparsed-entity-uri('x')", "current()/..", "position() div 0", "last() mod 0", "round(1e300)", "floor(-1e300)", "number('1e')",
    "1 div 0", "-1 div 0", "0 div 0", '&#x10FFFF;', '&#xFFFE;', '\U0001F600' * 300, '\u0085 ', 'I', 'i', 'A', 'a', '1', '01', '001.a.I', '&#x661;', '&#x3b1;', 'а', '#', ',', 'yes', 'no', 'maybe', 'xml', 'html', 'text', 'zz:method',
    'UTF-8', 'UTF-16', 'ISO-8859-1', 'US-ASCII', 'EBCDIC-CP-US', 'no-such-encoding', 'UCS-4', '1.0', '1.1', '2.0', '0', '-1', '1e3',
]
# values for top-level parameters set by the caller: expressions evaluated before any template runs (variables, context functions, node-set
# functions, documents) next to the hostile strings above
PARAM_VALUES = ['$undefined', '$tp', '$np', '$g0', '$g1', '$undefined + 1', 'concat($np, $tp)', '$p:x', 'position()', 'last()', 'current()', '.', '/', '/*', '//@*', '..',
                "key('ka', 'x')", "key('nokey', 1)", "id('i1')", 'generate-id()', "document('')", "document('ext.xml')", "document('ext.xml')//@*", 'name()', 'string(.)',
                'count(//node())', 'sum(//@n)', "system-property('xsl:vendor')", "unparsed-entity-uri('x')", "e:node-set('x')", 'e:node-set(/)', "format-number(1, '0')",
                "'x'", '1', '-0', '1 div 0', 'true()', "''", '/..', '(//*)[1]/namespace::*']
FOLLOWUP_OUT = '<ok>3</ok><n>2-1.1-2;3-1.2-2;1-1-1;</n>'   # of the driver's known-good follow-up transformation (count, xsl:number any/multiple, sort, key)
XSLT_NAMES = ['template', 'apply-templates', 'apply-imports', 'call-template', 'for-each', 'value-of', 'copy', 'copy-of', 'element', 'attribute', 'attribute-set', 'text', 'comment',
              'processing-instruction', 'if', 'choose', 'when', 'otherwise', 'variable', 'param', 'with-param', 'number', 'key', 'import', 'include', 'strip-space', 'preserve-space',
              'output', 'namespace-alias', 'decimal-format', 'sort', 'message', 'fallback', 'stylesheet', 'transform', 'nosuch']
RAW = [b'\x00', b'\x01', b'\x7f', b'\x80', b'\xff', b'\xc0\x80', b'\xed\xa0\x80', b'\xed\xb0\x80', b'\xf4\x90\x80\x80', b'\xef\xbf\xbe', b'\xef\xbb\xbf', b'<', b'>', b'&', b'&#0;', b'&#xD800;',
       b'<![CDATA[', b']]>', b'<!--', b'-->', b'<?', b'?>', b'<!DOCTYPE x [<!ENTITY e "&e;">]>', b'<!DOCTYPE x [<!ENTITY a "aaaaaaaaaa"><!ENTITY b "&a;&a;&a;&a;&a;&a;&a;&a;">]>', b'&b;&b;&b;']
ENCODINGS = ['UTF-8', 'UTF-16', 'ISO-8859-1', 'US-ASCII', 'no-such-encoding', 'UCS-4', 'EBCDIC-CP-US', '']

_loaded = []
FLAGS = set()


def load_flags(ctx):
    if _loaded:
        return
    _loaded.append(1)
    c01.load_flags(ctx)
    for e in ctx.findings.open_for(ID):
        for f in e.get('exclusion_flags', []):
            FLAGS.add(f)


def budget(tier):
    if tier == 'quick':
        return dict(workers=14, examples=400, wall=100)
    return dict(workers=14, examples=12000, wall=1500)


MANY_SEPARATORS = '_`^~:|!=@*/$?+()[]abcdefg'    # 24 distinct grouping separators: 24 distinct sets of decimal format symbols
SIMPLE_SHEETS = [
    '<xsl:stylesheet version="1.0" xmlns:xsl="%s"><xsl:output method="xml"/><xsl:template match="/"><out><xsl:apply-templates/></out></xsl:template>'
    '<xsl:template match="*"><e n="{name()}"><xsl:number level="multiple" count="*" format="1.a.I"/><xsl:value-of select="format-number(count(*) div 3, \'#,##0.00\')"/><xsl:apply-templates select="@*|node()"/></e></xsl:template>'
    '<xsl:template match="@*"><xsl:attribute name="{local-name()}"><xsl:value-of select="."/></xsl:attribute></xsl:template></xsl:stylesheet>' % XSL,
    '<xsl:stylesheet version="1.0" xmlns:xsl="%s"><xsl:output method="html" indent="yes"/><xsl:key name="k" match="*" use="@k"/><xsl:param name="p" select="1"/>'
    '<xsl:template match="/"><html><body><xsl:for-each select="//*"><xsl:sort select="@k" data-type="number" order="descending"/><p><xsl:value-of select="count(key(\'k\', @k)) + $p"/></p></xsl:for-each>'
    '<script>if (a &lt; b) {}</script></body></html></xsl:template></xsl:stylesheet>' % XSL,
    '<xsl:stylesheet version="1.0" xmlns:xsl="%s"><xsl:output method="text" encoding="ISO-8859-1"/><xsl:strip-space elements="*"/><xsl:variable name="v"><a><b/></a></xsl:variable>'
    '<xsl:template match="/"><xsl:value-of select="substring(string(.), 2, 5)"/><xsl:number value="1234567" grouping-separator="," grouping-size="3"/>'
    '<xsl:number value="17" format="I"/><xsl:copy-of select="$v"/><xsl:message>m</xsl:message></xsl:template></xsl:stylesheet>' % XSL,
    # MANY of everything that is kept in a table or a cache of bounded size: 24 named decimal formats (all used, twice), keys, attribute
    # sets, modes, named templates, global variables, namespaces
    ('<xsl:stylesheet version="1.0" xmlns:xsl="%s" ' % XSL + ' '.join('xmlns:n%d="urn:n%d"' % (i, i) for i in range(24)) + '><xsl:output method="xml"/>' +
     ''.join('<xsl:decimal-format name="d%d" decimal-separator="," grouping-separator="%s"/>' % (i, MANY_SEPARATORS[i]) for i in range(24)) +
     ''.join('<xsl:key name="k%d" match="*" use="count(*) + %d"/>' % (i, i) for i in range(24)) +
     ''.join('<xsl:attribute-set name="s%d"><xsl:attribute name="a%d">%d</xsl:attribute></xsl:attribute-set>' % (i, i, i) for i in range(24)) +
     ''.join('<xsl:variable name="g%d" select="%d + count(//*)"/>' % (i, i) for i in range(24)) +
     '<xsl:template match="/"><out>' +
     ''.join('<f n="{format-number(1234.5 + %d, \'#%s##0%s0\', \'d%d\')}"/>' % (i, MANY_SEPARATORS[i], ',', i) for i in list(range(24)) + list(range(24))) +
     ''.join('<k xsl:use-attribute-sets="s%d" c="{count(key(\'k%d\', %d))}" v="{$g%d}"><n%d:e/><xsl:apply-templates select="*" mode="m%d"/><xsl:call-template name="t%d"/></k>' % (i, i, i, i, i, i, i)
             for i in range(24)) +
     '</out></xsl:template>' +
     ''.join('<xsl:template match="*" mode="m%d"><m%d/></xsl:template><xsl:template name="t%d"><t>%d</t></xsl:template>' % (i, i, i, i) for i in range(24)) +
     '</xsl:stylesheet>'),
]


def build_base(rnd):
    k = rnd.random()
    if k < 0.55:
        return c01.build(rnd)
    sheet = SIMPLE_SHEETS[int(rnd.random() * len(SIMPLE_SHEETS))]
    dg = T.DocGen(rnd, set(), False)
    return {'files': {'main.xsl': sheet, 'doc.xml': dg.document()}, 'params': {}, 'flags': []}


@st.composite
def mutations(draw):
    n = draw(st.integers(1, 4))
    out = []
    for _ in range(n):
        k = draw(st.sampled_from(['attr-value'] * 6 + ['number'] * 4 + ['swap-name'] * 3 + ['attr-drop'] * 2 + ['del-elem'] * 3 + ['dup-elem'] * 2 + ['nest', 'nest', 'param', 'param', 'param',
                                  'del-span', 'dup-span', 'raw', 'raw', 'encoding', 'truncate', 'bigtext', 'bigtext']))
        m = {'k': k, 'file': draw(st.sampled_from(['main.xsl', 'main.xsl', 'main.xsl', 'doc.xml', 'other'])), 'at': draw(st.floats(0, 1, exclude_max=True)),
             'len': draw(st.integers(1, 60))}
        if k == 'attr-value':
            m['v'] = draw(st.sampled_from(HOSTILE_VALUES))
        if k == 'param':
            m['v'] = draw(st.one_of(st.sampled_from(PARAM_VALUES), st.sampled_from(PARAM_VALUES), st.sampled_from(HOSTILE_VALUES)))
            m['name'] = draw(st.sampled_from(['tp', 'np', 'tp', 'np', 'p', 'undeclared', 'p:q']))
        if k == 'swap-name':
            m['v'] = draw(st.sampled_from(XSLT_NAMES))
        if k == 'nest':
            m['depth'] = draw(st.sampled_from([50, 400, 1500]))   # compile+run time is quadratic in the depth (2000 deep: 2.3 s under ASan)
            m['what'] = draw(st.sampled_from(['elements', 'xsl:if', 'for-each']))
        if k == 'number':
            m['num'] = draw(st.sampled_from(['1e89' + '0' * 3, '9' * 91, '1e308', '1e309', '-1e308', '0.1e-400', '9223372036854775807', '9223372036854775808', '4294967296', '-0', '0 div 0', '1 div 0',
                                             '-1 div 0', '123456789012345678901234567890', '0.000000000000000000000000000000000001', '1e-35', '2147483648', '3.5', '-3.5', '1000000000000']))
            m['use'] = draw(st.sampled_from(['value-of', 'number-value', 'number-format', 'format-number', 'substring', 'avt', 'position-pred', 'grouping']))
        if k == 'raw':
            m['bytes'] = draw(st.sampled_from(RAW)).decode('latin-1')
        if k == 'bigtext':
            # a run of multi-byte characters long enough to cross the 512- and 1024-unit buffers of the writers at every alignment
            m['ch'] = draw(st.sampled_from(['\xe9', '\u20ac', '\u3042', '\U0001F600', 'a\u20ac', '\u20ac\U0001F600']))
            m['n'] = draw(st.sampled_from([170, 255, 256, 341, 342, 511, 512, 513, 700, 1023, 1025]))
            m['pad'] = draw(st.integers(0, 3))
        if k == 'encoding':
            m['v'] = draw(st.sampled_from(ENCODINGS))
        out.append(m)
    return out


@st.composite
def transform_cases(draw):
    import random
    base = draw(st.integers(0, 2 ** 48).map(lambda seed: build_base(random.Random(seed))))   # uniform programs (see c01.strategy)
    return {'kind': 'transform', 'base': base, 'mut': draw(mutations()), 'form': draw(st.sampled_from(['stream', 'stream', 'compiled', 'parsed-native', 'xerces-wrapper']))}


@st.composite
def xpath_cases(draw):
    from .. import xpcase
    c = draw(xpcase.cases(depth=2))
    k = draw(st.integers(0, 3))
    expr = c['expr']
    if k == 0:
        expr = draw(st.sampled_from(HOSTILE_VALUES))
    elif k == 1:
        toks = draw(st.lists(st.sampled_from(gen_xpath.SOUP_TOKENS if hasattr(gen_xpath, 'SOUP_TOKENS') else
                                             ['/', '//', '.', '..', '@', '*', '|', '(', ')', '[', ']', ',', '::', ':', '$', '-', '+', '=', '!=', '<', '<=', 'and', 'or', 'div', 'mod', 'a', 'p:a', 'node()', 'text()',
                                              'ancestor', 'self', 'namespace', 'position()', 'last()', 'id', 'key', 'count', '1', '1e400', '.5', "'s'", '"', "'"]), min_size=1, max_size=14))
        expr = ' '.join(toks)
    elif k == 2 and expr:
        i = int(draw(st.floats(0, 1, exclude_max=True)) * len(expr))
        j = min(len(expr), i + draw(st.integers(1, 6)))
        expr = expr[:i] + draw(st.sampled_from(['', '(', ')', '[', ']', '//', '$', ':', '::', '-', "'", '1e999', '\x00', '\ud800'])) + expr[j:]
    c['expr'] = expr
    if c.get('docform') == 'xerces' and ('<!DOCTYPE' in c['xml'] or '<![CDATA[' in c['xml']):
        c['docform'] = 'native'     # node keys of the Xerces form differ for these documents (doctype node, CDATA sections)
    return {'kind': 'xpath', 'case': c}


def strategy(ctx):
    load_flags(ctx)
    return st.one_of(transform_cases(), transform_cases(), transform_cases(), xpath_cases())


# ------------------------------------------------------------------------------------------ applying mutations
def _attr_spans(text):
    return [(m.start(2), m.end(2)) for m in re.finditer(r'\s[\w:.-]+=(["\'])(.*?)\1', text, re.S)]


def _element_span(data, at):
    """byte span of one complete element (chosen by `at` among the start tags, the document element excluded)"""
    tags = list(re.finditer(rb'<([A-Za-z_][\w:.-]*)((?:\s[^<>]*?)?)(/?)>', data))
    if len(tags) < 2:
        return None
    t = tags[1 + int(at * (len(tags) - 1))]
    if t.group(3):
        return t.start(), t.end()
    name = t.group(1)
    depth = 1
    for u in re.finditer(rb'<(/?)' + re.escape(name) + rb'(?=[\s/>])[^<>]*?(/?)>', data[t.end():]):
        if u.group(1):
            depth -= 1
        elif not u.group(2):
            depth += 1
        if depth == 0:
            return t.start(), t.end() + u.end()
    return None


def apply_mutations(case):
    """-> (files as bytes, params as {name: expression text})"""
    files = {k: v.encode('utf-8', 'surrogatepass') for k, v in case['base']['files'].items()}
    params = {k: c01.param_field(k, v)[1].split('\x1f')[2] for k, v in case['base']['params'].items()}
    names = sorted(files)
    for m in case['mut']:
        fname = m['file'] if m['file'] in files else names[int(m['at'] * len(names))]
        data = files[fname]
        pos = int(m['at'] * (len(data) + 1))
        k = m['k']
        if k == 'del-span':
            data = data[:pos] + data[pos + m['len']:]
        elif k == 'dup-span':
            data = data[:pos] + data[pos:pos + m['len']] * 2 + data[pos + m['len']:]
        elif k == 'truncate':
            data = data[:pos]
        elif k == 'raw':
            data = data[:pos] + m['bytes'].encode('latin-1') + data[pos:]
        elif k == 'bigtext':
            # as literal text of the first template (stylesheet) or of the document element (document)
            if fname.endswith('.xsl'):
                i = data.find(b'>', data.find(b'<xsl:template')) + 1 if b'<xsl:template' in data else 0
            else:
                mroot = re.search(rb'<[A-Za-z_][^<>]*(?<!/)>', data)
                i = mroot.end() if mroot else 0
            if i > 0 and data[i - 2:i] != b'/>':
                data = data[:i] + (b'x' * m['pad']) + (m['ch'] * m['n']).encode('utf-8') + data[i:]
        elif k == 'encoding':
            data = (b'<?xml version="1.0" encoding="' + m['v'].encode('ascii') + b'"?>') + data
        elif k in ('del-elem', 'dup-elem'):
            span = _element_span(data, m['at'])
            if span:
                a, b = span
                data = data[:a] + data[b:] if k == 'del-elem' else data[:b] + data[a:b] + data[b:]
        elif k == 'swap-name':
            occ = [x for x in re.finditer(rb'<(/?)xsl:([a-z-]+)', data)]
            if occ:
                o = occ[int(m['at'] * len(occ))]
                data = data[:o.start(2)] + m['v'].encode('ascii') + data[o.end(2):]
        elif k in ('attr-value', 'attr-drop'):
            text = data.decode('utf-8', 'surrogateescape')
            spans = _attr_spans(text)
            if spans:
                a, b = spans[int(m['at'] * len(spans))]
                if k == 'attr-value':
                    v = m['v'].replace('&', '&amp;').replace('<', '&lt;').replace('"', '&quot;') if not m['v'].startswith('&#') else m['v']
                    text = text[:a] + v + text[b:]
                else:
                    s = text.rfind(' ', 0, a)
                    text = text[:s] + text[b + 1:]
                data = text.encode('utf-8', 'surrogateescape')
        elif k == 'nest':
            i = data.find(b'<xsl:template')
            i = data.find(b'>', i) + 1 if i >= 0 else -1
            j = data.find(b'</xsl:template>', i)
            if i > 0 and j > i:
                d = m['depth']
                if m['what'] == 'elements':
                    o, c = b'<n>' * d, b'</n>' * d
                elif m['what'] == 'xsl:if':
                    o, c = b'<xsl:if test="1">' * d, b'</xsl:if>' * d
                else:
                    o, c = b'<xsl:for-each select=".">' * d, b'</xsl:for-each>' * d
                data = data[:i] + o + data[i:j] + c + data[j:]
        elif k == 'number':
            num = m['num']
            snippet = {'value-of': '<xsl:value-of select="%s"/><xsl:value-of select="string(%s * 10)"/>' % (num, num),
                       'number-value': '<xsl:number value="%s"/>' % num,
                       'number-format': '<xsl:number value="%s" format="I"/><xsl:number value="%s" format="a"/><xsl:number value="%s" format="&#x3b1;"/>' % (num, num, num),
                       'format-number': '<xsl:value-of select="format-number(%s, \'#,##0.0#####################\')"/>' % num,
                       'substring': '<xsl:value-of select="substring(\'abcdef\', %s, %s)"/>' % (num, num),
                       'avt': '<e a="{%s}"/>' % num,
                       'position-pred': '<xsl:value-of select="count(//*[%s])"/><xsl:value-of select="count(//*[position() &lt; %s])"/>' % (num, num),
                       'grouping': '<xsl:number value="%s" grouping-separator="," grouping-size="%s"/>' % (num, num)}[m['use']].encode('ascii')
            i = data.find(b'<xsl:template')
            i = data.find(b'>', i) + 1 if i >= 0 else -1
            if i > 0 and data[i - 2:i] != b'/>':
                data = data[:i] + snippet + data[i:]
        elif k == 'param':
            if 'name' in m:
                params[m['name']] = m['v']
            else:   # cases saved before the name was drawn
                params['tp' if 'tp' in params or not params else sorted(params)[0]] = m['v']
        files[fname] = data
    return files, params


# ------------------------------------------------------------------------------------------ the check
def classify_err(err):
    e = err or ''
    if re.search(r'SAXParseException|Fatal Error|XML|well-formed|expected|Expected (end|an) |entity|unterminated|UTFDataFormat|invalid (byte|character)', e[:300]) and 'XPath' not in e[:300] and 'XSL' not in e[:120]:
        return 'err:xml'
    return 'err:xslt'


_FRAME = re.compile(r'#\d+ 0x[0-9a-f]+ in (.+?) (?:\((/\S+?)\+0x[0-9a-f]+\)|(/\S+?):\d+)')


_ALLOC_HELPERS = re.compile(r'^(operator new|operator new\[\]|malloc|calloc|realloc|__interceptor_|xercesc_3_2::MemoryManagerImpl::allocate|xercesc_3_2::XMemory::operator new|'
                            r'xercesc_3_2::XMLString::(replicate|transcode)|xalanc_1_12::XalanMemoryManager|xalanc_1_12::XalanMemMgr|xalanc_1_12::XalanAllocat|'
                            r'xalanc_1_12::XalanMemoryManagerDefault|xalanc_1_12::XalanMemMgrAutoPtr|std::)')


def _xalan_frames(rep):
    """owners of the DIRECTLY leaked blocks that are Xalan code: the owner of a block is the innermost frame of its allocation stack that
    is not an allocation helper (operator new, the Xerces / Xalan memory managers, XMLString::replicate/transcode).  A block allocated by
    libxerces-c for itself (e.g. inside xercesc::XMLReader's constructor) is Xerces' leak even though Xalan called the parser."""
    out = []
    for block in re.split(r'\n(?=(?:Direct|Indirect) leak of )', rep):
        if not block.startswith('Direct leak'):
            continue
        for m in _FRAME.finditer(block):
            fn, mod, path = m.group(1), m.group(2) or '', m.group(3) or ''
            if _ALLOC_HELPERS.match(fn):
                continue
            if '/src/xalanc/' in path or 'libxalan-c' in mod:
                out.append(re.sub(r'\(.*$', '', re.sub(r'<.*>', '<>', fn)).replace('xalanc_1_12::', ''))
            break
    return out


def leak_report(ctx, rerun=None):
    """-> None or a signature string of a leak whose allocation stack involves libxalan-c.
    LeakSanitizer's fast unwinder stops at the first frame of the (uninstrumented, frame-pointer-less) system libxerces-c, so a report
    without any libxalan-c frame is re-examined: the case is run again in a fresh driver with the slow unwinder (full stacks)."""
    d = ctx.drv
    before = len(d.stderr_text())
    r = d.call('leakcheck')
    if r.gets('supported') != '1' or r.gets('leaks') in (None, '0'):
        return None
    rep = d.stderr_text()[before:]
    xal = _xalan_frames(rep)
    # the leaked block stays leaked: restart the driver so that later cases are not blamed for it
    d.close()
    d.proc = None
    d._c03_env = False
    if not xal and rerun is not None:
        from ..drv import Driver, DriverCrash
        slow = Driver(env={'ASAN_OPTIONS': 'detect_leaks=1:abort_on_error=0:allocator_may_return_null=1:fast_unwind_on_malloc=0:malloc_context_size=25',
                           'LSAN_OPTIONS': 'print_suppressions=0:report_objects=0'})
        try:
            rerun(slow)
            b2 = len(slow.stderr_text())
            r2 = slow.call('leakcheck')
            rep2 = slow.stderr_text()[b2:]
            ctx.counters['leak-recheck-slow-unwind'] += 1
            if r2.gets('leaks') in (None, '0'):
                ctx.counters['leak-not-reproduced-in-fresh-driver'] += 1
                return None
            rep = rep2
            xal = _xalan_frames(rep2)
        except DriverCrash:
            return None
        finally:
            slow.close()
    if os.environ.get('C03_LEAK_SAMPLE') and not os.path.exists(os.environ['C03_LEAK_SAMPLE']):
        with open(os.environ['C03_LEAK_SAMPLE'], 'w') as f:
            f.write(rep[:30000])
    if not xal:
        # listed, not judged (ASSUMPTIONS): no frame of the allocation stacks lies in libxalan-c
        ctx.counters['leak-outside-xalan'] += 1
        return None
    return 'leak:' + xal[0]


def check(ctx, case):
    load_flags(ctx)
    d = ctx.drv
    if d.proc is None or not getattr(d, '_c03_env', False):
        d.extra_env['ASAN_OPTIONS'] = 'detect_leaks=1:abort_on_error=0:allocator_may_return_null=1:detect_stack_use_after_return=0:malloc_context_size=14'
        d.extra_env['LSAN_OPTIONS'] = 'print_suppressions=0:report_objects=0'
        d._c03_env = True
    if case['kind'] == 'xpath':
        return check_xpath(ctx, case['case'])
    files, params = apply_mutations(case)
    xsl = files['main.xsl']
    xml = files['doc.xml']
    fields = [('res', k.encode('ascii') + b'\0' + v) for k, v in files.items()]
    fields += [('param', ('%s\x1fexpr\x1f%s' % (k, v)).encode('utf-8', 'surrogatepass')) for k, v in sorted(params.items())]
    kw = dict(xsl=xsl, xml=xml, xmlsys='file:///vmem/doc.xml', followup=2)
    if case['form'] == 'compiled':
        kw['xslform'] = 'compiled'
    elif case['form'] in ('parsed-native', 'xerces-wrapper'):
        kw['srcform'] = case['form']
    sample = {'main.xsl': xsl[:500].decode('utf-8', 'replace'), 'doc.xml': xml[:150].decode('utf-8', 'replace'), 'mut': [m['k'] for m in case['mut']], 'form': case['form']}
    from ..drv import DriverCrash, crash_signature
    try:
        r = d.call('transform', fields, **kw)
    except DriverCrash as e:
        sig = crash_signature(e.stderr)
        if sig.startswith('hang-or-runaway'):
            # a damaged XSLT program may legitimately not terminate: inconclusive, counted
            ctx.counters['inconclusive:hang-or-runaway-allocation'] += 1
            ctx.note(case, False, ['transform', 'inconclusive'], sample_text=sample)
            if os.environ.get('C03_HANG_DIR'):
                import hashlib
                with open(os.path.join(os.environ['C03_HANG_DIR'], hashlib.sha1(xsl).hexdigest()[:10] + '.json'), 'w') as f:
                    json.dump({'case': case, 'sig': sig, 'tail': e.stderr[-600:]}, f)
            return None
        # an abort that is an OPEN finding of any property (the Debug-only assertions of C02) is known: the case is judged by the
        # NDEBUG sanitizer build instead, so that the search goes on behind it
        kf = ctx.findings.match_any('crash:' + sig)
        if kf is None:
            raise
        ctx.known_seen[kf['id']] += 1
        if kf.get('fallback') != 'ndebug':
            return None
        ctx.counters['fallback:ndebug'] += 1
        try:
            r = ctx.drv_flavor('ndebug').call('transform', fields, **dict(kw))
        except DriverCrash as e2:
            if crash_signature(e2.stderr).startswith('hang-or-runaway'):
                ctx.counters['inconclusive:hang-or-runaway-allocation'] += 1
                return None
            raise
    rc = r.gets('rc')
    err = r.gets('err') or ''
    cls = 'ok' if rc == '0' else classify_err(err)
    ctx.note(case, cls != 'err:xml', ['transform', cls, 'form:' + case['form']] + sorted({'m:' + m['k'] for m in case['mut']}), sample_text=dict(sample, rc=rc, err=err[:120]))
    if r.has('escaped.kind'):
        return {'what': 'exception-escaped', 'kind': r.gets('escaped.kind'), 'msg': (r.gets('escaped.msg') or '')[:200], 'sample': sample}
    if rc is None:
        raise RuntimeError('harness: no rc in %r' % (r.fields[:4],))
    if rc != '0' and not err.strip():
        return {'what': 'error-without-message', 'rc': rc, 'sample': sample}
    if r.gets('g.rc') != rc:
        # the same request, on the same transformer, a second time: the status is a function of the request
        return {'what': 'second-run-status-differs', 'rc': rc, 'err': err[:200], 'g.rc': r.gets('g.rc'), 'g.err': (r.gets('g.err') or '')[:200], 'sample': sample}
    if r.gets('f.rc') != '0' or (r.gets('f.out') or '') != FOLLOWUP_OUT:
        return {'what': 'transformer-unusable-after', 'rc': rc, 'err': err[:200], 'f.rc': r.gets('f.rc'), 'f.err': (r.gets('f.err') or '')[:200], 'f.out': (r.gets('f.out') or '')[:100], 'sample': sample}
    lk = leak_report(ctx, lambda drv: drv.call('transform', fields, **kw))
    if lk:
        return {'what': 'leak', 'leak': lk, 'rc': rc, 'err': err[:200], 'sample': sample}
    return None


def check_xpath(ctx, c):
    from .. import xpcase
    from ..drv import DriverCrash, crash_signature
    try:
        prep = xpcase.Prepared(c)
    except ValueError:
        return None
    expr = c['expr']
    sample = {'expr': expr[:300], 'xml': c['xml'][:150]}
    try:
        r = prep.call(ctx, expr, only='gbnscl')
    except DriverCrash as e:
        sig = crash_signature(e.stderr)
        if sig.startswith('hang-or-runaway'):
            return {'what': 'xpath-hang', 'crash': sig, 'sample': sample}
        raise
    except RuntimeError as e:
        if 'escaped.kind' in str(e):
            return {'what': 'exception-escaped', 'msg': str(e)[:300], 'sample': sample}
        raise
    compiled = r.has('compile.ok')
    ctx.note({'x': c['xml'], 'e': expr, 'c': c['ctx']}, True, ['xpath', 'compiled' if compiled else 'rejected'], sample_text=sample)
    if not compiled and not (r.gets('compile.errmsg') or '').strip():
        return {'what': 'error-without-message', 'where': 'compile', 'sample': sample}
    for o in 'gbnscl':
        if r.has(o + '.err') and not (r.gets(o + '.errmsg') or '').strip():
            return {'what': 'error-without-message', 'where': o, 'sample': sample}
    lk = leak_report(ctx, lambda drv: prep._call(drv, expr, 'gbnscl'))
    if lk:
        return {'what': 'leak', 'leak': lk, 'sample': sample}
    return None


def signature(case, detail):
    if 'crash' in detail and detail.get('what') != 'xpath-hang':
        return 'crash:%s' % detail['crash']
    w = detail['what']
    if w == 'leak':
        return detail['leak']
    if w == 'exception-escaped':
        return '%s|%s' % (w, detail.get('kind', ''))
    if w == 'transformer-unusable-after':
        return '%s|%s' % (w, re.split(r'[:.(]', detail.get('f.err', '') or detail.get('f.out', ''))[0][:50])
    return w


def evidence_extra(results):
    """the byte-level engine's summary (written by bin/check-c03-fuzz just before this check) becomes part of the evidence"""
    path = os.path.join(os.environ.get('VERIF_EVIDENCE_DIR', os.path.join(os.path.dirname(os.path.dirname(os.path.dirname(os.path.dirname(os.path.abspath(__file__))))), 'evidence')), 'C03.fuzz.json')
    try:
        with open(path) as f:
            fz = json.load(f)
    except Exception as e:
        return {'fuzz': {'missing': str(e)}}
    keep = {}
    for k, v in fz.items():
        if k in ('samples',):
            continue
        keep[k] = v
    # keep the file small: at most 3 decoded samples per target
    if isinstance(fz.get('targets'), dict):
        for t, d in fz['targets'].items():
            if isinstance(d, dict) and isinstance(d.get('samples'), list):
                d['samples'] = d['samples'][:3]
    return {'fuzz': keep}
