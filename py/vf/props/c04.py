"""C04 - XML output is well-formed and parses back to exactly the result tree."""
import codecs, re
from xml.parsers import expat

from hypothesis import strategies as st

from .. import gen_tree
from ..gen_tree import expected_tree, events_of, tree_diff, all_strings

ID = 'C04'
LEVEL = 'exploration'
RULE = ('Hypothesis generates result trees (elements with namespaced/non-ASCII names, attributes, text, CDATA, comments, PIs) whose '
        'strings are built from pads with lengths around the 512-unit writer buffers and from < & > quotes TAB CR LF ]]> C0/C1 controls, '
        'U+0085, U+2028, U+FFFE/FFFF, lone/paired surrogates and 2/3/4-byte characters; x encoding {UTF-8, UTF-16, ISO-8859-1, US-ASCII, '
        'ISO-8859-2, KOI8-R} x version {1.0, 1.1}. The event script is replayed into XalanXMLSerializerFactory::create and FormatterToXML. '
        'Oracle: if the tree is representable in that version/encoding the call must succeed and the bytes, parsed by expat (1.0) and by '
        'Xerces SAX2 (1.0/1.1), must give back the same expanded-name tree; otherwise the call must fail. Non-trivial: a string needs '
        'escaping or has a multi-unit character, or the output exceeds 512 bytes. distinct = distinct canonical case text.'
        ' One of the encodings is a name the transcoding service does not know: the serializers fall back to UTF-8 and what they write must then declare UTF-8.')
ASSUMPTIONS = ['expat 2.5 and Xerces-C SAX2 are correct XML parsers (independent of the serializers)',
               'Python codecs define encodability for ISO-8859-1/-2, US-ASCII, KOI8-R identically to ICU',
               'serializer preconditions respected: valid names, no -- in comments, no ?> in PIs, startDocument first']

# X-NO-SUCH-ENCODING: an encoding the transcoding service does not know.  The serializers fall back to UTF-8 (documented in
# XalanXMLSerializerFactory::setEncoding); what is written must then SAY UTF-8, since a parser believes the declaration
ENCODINGS = ['UTF-8', 'UTF-8', 'UTF-16', 'ISO-8859-1', 'US-ASCII', 'ISO-8859-2', 'KOI8-R', 'X-NO-SUCH-ENCODING']
PYCODEC = {'UTF-8': 'utf-8', 'UTF-16': 'utf-16', 'ISO-8859-1': 'latin-1', 'US-ASCII': 'ascii', 'ISO-8859-2': 'iso8859-2', 'KOI8-R': 'koi8-r',
           'X-NO-SUCH-ENCODING': 'utf-8'}

# generator exclusion flags for confirmed open findings (DESIGN 2.6); filled from known_findings.jsonl
FLAGS = set()


def _has(cl, wheres, kinds):
    return any(('%s:%s' % (w, k)) in cl for w in wheres for k in kinds)


NONASCII = ('bmp', 'C1', 'astral', 'NEL-LS')
# Per-serializer exclusions: while the finding <id> is OPEN in known_findings.jsonl, serializer <which> is not judged
# on cases satisfying the predicate (counted in evidence as excluded_by_flag).  The finding's own regress case is
# replayed without exclusions, so the KNOWN-FINDING line is printed for as long as the defect exists.
EXCLUSIONS = [
    ('F-C04-legacy-narrow', 'legacy',
     lambda cl, why, enc, ver: enc not in ('UTF-8', 'UTF-16', 'X-NO-SUCH-ENCODING') and _has(cl, ('name', 'pi', 'comment', 'cdata'), NONASCII)),
    # a surrogate pair split by the serializer's / stream's buffer flush cannot be transcoded (was a runaway allocation, now an error)
    ('F-C04-legacy-astral-split', 'legacy', lambda cl, why, enc, ver: _has(cl, ALLW, ('astral',))),
    ('F-C04-legacy-controls', 'legacy',
     lambda cl, why, enc, ver: _has(cl, ALLW, ('CR', 'NEL-LS', 'forbidden10', 'C1', 'surrogate')) or _has(cl, ('attr',), ('TABLF',))),
    ('F-C04-pi-comment-unencodable', 'factory',
     lambda cl, why, enc, ver: why in ('pi:unencodable', 'comment:unencodable')),
    ('F-C04-noncharacters', 'factory', lambda cl, why, enc, ver: why is not None and why.endswith(':noncharacter')),
    ('F-C04-cdata-cr', 'factory', lambda cl, why, enc, ver: _has(cl, ('cdata',), ('CR',)) or (ver == '1.1' and _has(cl, ('cdata',), ('NEL-LS',)))),
    ('F-C04-nel-literal-1.1', 'factory', lambda cl, why, enc, ver: why in ('pi:nel-ls-literal', 'comment:nel-ls-literal')),
    ('F-C04-lone-surrogate', 'factory', lambda cl, why, enc, ver: why is not None and why.endswith(':lone-surrogate') and enc == 'UTF-16'),
]
ALLW = ('text', 'attr', 'cdata', 'comment', 'pi', 'name')


def budget(tier):
    if tier == 'quick':
        return dict(workers=14, examples=2500, wall=150)
    return dict(workers=14, examples=60000, wall=1700)


OPEN = set()


def load_flags(ctx):
    for e in ctx.findings.open_for(ID):
        OPEN.add(e['id'])
        for f in e.get('exclusion_flags', []):
            FLAGS.add(f)


def strategy(ctx):
    load_flags(ctx)

    def fix(t):
        top, enc, ver = t
        top = sanitize(top, ctx)
        return {'tree': top, 'enc': enc, 'ver': ver}
    return st.tuples(gen_tree.trees(), st.sampled_from(ENCODINGS), st.sampled_from(['1.0', '1.0', '1.1'])).map(fix)


def sanitize(top, ctx):
    """respect the serializers' preconditions (the engine repairs these before serialization) and apply exclusion flags"""
    def walk(n):
        if n['t'] == 'c':
            v = n['v'].replace('\r', ' ')
            v = re.sub(r'-+', '-', v)
            if v.endswith('-'):
                v += ' '
            n['v'] = v.replace('--', '- -')
        elif n['t'] == 'p':
            # XPath data model: the data of a PI never starts with whitespace (it is the separator after the target)
            n['v'] = n['v'].replace('?>', '? >').replace('\r', ' ').lstrip(' \t\n')
        elif n['t'] == 'e':
            for c in n['c']:
                walk(c)
        for flag in FLAGS:
            _apply_flag(flag, n, ctx)
    for n in top:
        walk(n)
    return top


def _apply_flag(flag, n, ctx):
    def sub(where, pat, rep):
        if n['t'] == where and re.search(pat, n['v']):
            n['v'] = re.sub(pat, rep, n['v'])
            ctx.excluded[flag] += 1
    if flag == 'no_cr_in_cdata':
        sub('d', '\r', ' ')
    elif flag == 'no_nel_ls_in_cdata':
        sub('d', '[\x85\u2028]', ' ')
    elif flag == 'no_lone_low_surrogate':
        pat = '(?<![\ud800-\udbff])[\udc00-\udfff]'
        for k in ('t', 'd', 'c', 'p'):
            sub(k, pat, 'Z')
        if n['t'] == 'e':
            for a in n['a']:
                if re.search(pat, a[1]):
                    a[1] = re.sub(pat, 'Z', a[1])
                    ctx.excluded[flag] += 1


# ------------------------------------------------------------------------------------ representability
def is_char(cp, ver):
    if ver == '1.0':
        return cp in (9, 10, 13) or 0x20 <= cp <= 0xD7FF or 0xE000 <= cp <= 0xFFFD or 0x10000 <= cp <= 0x10FFFF
    return 1 <= cp <= 0xD7FF or 0xE000 <= cp <= 0xFFFD or 0x10000 <= cp <= 0x10FFFF


def restricted11(cp):
    return 1 <= cp <= 8 or 0xB <= cp <= 0xC or 0xE <= cp <= 0x1F or 0x7F <= cp <= 0x84 or 0x86 <= cp <= 0x9F


def encodable(ch, enc):
    try:
        ch.encode(PYCODEC[enc])
        return True
    except UnicodeEncodeError:
        return False


def unrepresentable(top, enc, ver):
    """None if the tree can be carried by an XML document of that version in that encoding, else a reason"""
    for where, s in all_strings(top):
        for ch in s:
            cp = ord(ch)
            if 0xD800 <= cp <= 0xDFFF:
                return '%s:lone-surrogate' % where
            if not is_char(cp, ver):
                return '%s:%s' % (where, 'noncharacter' if cp in (0xFFFE, 0xFFFF) else 'c0-control')
            if where in ('name', 'comment', 'pi'):
                if not encodable(ch, enc):
                    return '%s:unencodable' % where
                if ver == '1.1' and restricted11(cp):
                    return '%s:restricted-literal' % where
                if ver == '1.1' and cp in (0x85, 0x2028) and where != 'name':
                    return '%s:nel-ls-literal' % where   # would be normalised to LF by an XML 1.1 parser
    return None


# ------------------------------------------------------------------------------------ parsing back
def parse_expat(data):
    """bytes -> gen_tree-style tree (qnames + xmlns attributes), via expat; raises expat.ExpatError"""
    p = expat.ParserCreate()
    p.ordered_attributes = True
    p.buffer_text = True
    top = []
    stack = [top]

    def start(name, attrs):
        e = {'t': 'e', 'n': name, 'a': [[attrs[i], attrs[i + 1]] for i in range(0, len(attrs), 2)], 'c': []}
        stack[-1].append(e)
        stack.append(e['c'])

    def end(name):
        stack.pop()

    def chars(s):
        if len(stack) > 1:
            stack[-1].append({'t': 't', 'v': s})

    def comment(s):
        stack[-1].append({'t': 'c', 'v': s})

    def pi(t, d):
        stack[-1].append({'t': 'p', 'n': t, 'v': d})
    p.StartElementHandler = start
    p.EndElementHandler = end
    p.CharacterDataHandler = chars
    p.CommentHandler = comment
    p.ProcessingInstructionHandler = pi
    p.Parse(data, True)
    return top


def parse_xerces(ctx, data):
    """bytes -> expected_tree-style tuples via the driver's parseback; returns (tree, err)"""
    r = ctx.drv.call('parseback', bytes=data)
    if r.has('err'):
        return None, r.gets('err') + ': ' + (r.gets('errmsg') or '')
    top = []
    stack = [top]
    for k, v in r.fields:
        s = v.decode('utf-8', 'surrogatepass')
        if k == 'SE':
            parts = s.split('\0')
            nm = _exp(parts[0])
            attrs = {}
            for i in range(1, len(parts) - 1, 2):
                attrs[_exp(parts[i])] = parts[i + 1]
            e = ('E', nm, attrs, [])
            stack[-1].append(e)
            stack.append(e[3])
        elif k == 'EE':
            stack.pop()
        elif k == 'CH':
            if len(stack) > 1:
                stack[-1].append(('T', s))
        elif k == 'CM':
            stack[-1].append(('C', s))
        elif k == 'PI':
            t, d = s.split('\0', 1)
            stack[-1].append(('P', t, d))
    return _merge_rec(top), None


def _exp(s):
    m = re.match(r'^\{(.*)\}([^\x1f]*)\x1f', s, re.S)
    return (m.group(1), m.group(2))


def _merge_rec(kids):
    out = []
    for k in gen_tree.merge(kids):
        if k[0] == 'E':
            out.append(('E', k[1], k[2], _merge_rec(k[3])))
        else:
            out.append(k)
    return out


def char_classes(top):
    cl = set()
    for where, s in all_strings(top):
        for ch in s:
            cp = ord(ch)
            if ch in '<&>"\'':
                cl.add('%s:markup' % where)
            elif ch == '\r':
                cl.add('%s:CR' % where)
            elif ch in '\t\n':
                cl.add('%s:TABLF' % where)
            elif cp in (0x85, 0x2028):
                cl.add('%s:NEL-LS' % where)
            elif 0xD800 <= cp <= 0xDFFF:
                cl.add('%s:surrogate' % where)
            elif cp < 0x20 or cp in (0xFFFE, 0xFFFF):
                cl.add('%s:forbidden10' % where)
            elif 0x7F <= cp <= 0x9F:
                cl.add('%s:C1' % where)
            elif cp >= 0x10000:
                cl.add('%s:astral' % where)
            elif cp >= 0x80:
                cl.add('%s:bmp' % where)
        if ']]>' in s:
            cl.add('%s:]]>' % where)
    return cl


def boundary_hits(out):
    """number of 'interesting' bytes within +-3 of a 512-byte boundary of the output"""
    n = 0
    for base in range(512, len(out) + 1, 512):
        seg = out[max(0, base - 3):base + 4]
        if any(b in seg for b in (b'&', b'<', b']')) or any(c >= 0x80 for c in seg):
            n += 1
    return n


def check(ctx, case):
    load_flags(ctx)
    top, enc, ver = case['tree'], case['enc'], case['ver']
    try:
        exp = expected_tree(top)
    except KeyError:
        return None  # unbound prefix in generated names: not in the domain
    why_not = unrepresentable(top, enc, ver)
    events = events_of(top)
    cl = char_classes(top)
    outs = {}
    skipped = set()
    for which in ('factory', 'legacy'):
        if case.get('only') not in (None, which):
            skipped.add(which)
            continue
        if ctx.tier != 'replay':
            for fid, w, pred in EXCLUSIONS:
                if w == which and fid in OPEN and pred(cl, why_not, enc, ver):
                    ctx.excluded[fid] += 1
                    skipped.add(which)
        if which in skipped:
            continue   # not even executed: some of these defects end in a runaway allocation
        r = ctx.drv.call('serialize', events, which=which, encoding=enc, version=ver)
        outs[which] = r
    big = any(len(r.get('out') or b'') > 512 for r in outs.values())
    hits = max([boundary_hits(r.get('out') or b'') for r in outs.values()] or [0])
    classes = ['enc:' + enc, 'ver:' + ver, 'representable' if why_not is None else 'unrepresentable']
    if hits:
        classes.append('special-at-512-boundary')
    if big:
        classes.append('out>512')
    classes += ['cls:' + c for c in cl]
    ctx.note(case, bool(cl) or big, classes)
    for which in ('factory', 'legacy'):
        if which in skipped:
            continue
        r = outs[which]
        if why_not is not None:
            if not r.has('err'):
                return {'which': which, 'outcome': 'no-error-for-unrepresentable', 'why': why_not, 'enc': enc, 'ver': ver,
                        'out': (r.get('out') or b'')[:300].decode('latin-1')}
            continue
        if r.has('err') and ver == '1.1' and any(restricted11(ord(ch)) for w, t in all_strings(top) if w == 'cdata' for ch in t):
            # XML 1.1 RestrictedChar inside a CDATA section: cannot be written literally; the serializer chooses to
            # fail rather than split the section.  No corrupt output is emitted, so both outcomes are accepted.
            ctx.counters['lenient:restricted-in-cdata-1.1'] += 1
            continue
        if r.has('err'):
            return {'which': which, 'outcome': 'error-for-representable', 'err': r.gets('err'), 'errmsg': r.gets('errmsg'),
                    'enc': enc, 'ver': ver, 'classes': sorted(cl)}
        out = r.get('out')
        # parser 1: Xerces SAX2
        xt, xerr = parse_xerces(ctx, out)
        if xerr:
            return {'which': which, 'outcome': 'not-well-formed(xerces)', 'err': xerr[:300], 'enc': enc, 'ver': ver, 'classes': sorted(cl),
                    'out': out[:400].decode('latin-1')}
        d = tree_diff(exp, xt)
        if d:
            return {'which': which, 'outcome': 'tree-differs(xerces)', 'diff': d[:400], 'enc': enc, 'ver': ver, 'classes': sorted(cl)}
        # parser 2: expat (XML 1.0 only)
        if ver == '1.0':
            try:
                et = expected_tree(parse_expat(out))
            except (expat.ExpatError, KeyError, LookupError, ValueError) as e:
                return {'which': which, 'outcome': 'not-well-formed(expat)', 'err': str(e)[:300], 'enc': enc, 'ver': ver, 'classes': sorted(cl),
                        'out': out[:400].decode('latin-1')}
            d = tree_diff(exp, et)
            if d:
                return {'which': which, 'outcome': 'tree-differs(expat)', 'diff': d[:400], 'enc': enc, 'ver': ver, 'classes': sorted(cl)}
    return None


def signature(case, detail):
    if 'crash' in detail:
        return 'crash:%s' % detail['crash']
    parts = [detail['which'], detail['outcome'].replace('(xerces)', '').replace('(expat)', '')]
    if 'why' in detail:
        parts.append(detail['why'])
    else:
        parts.append('+'.join(detail.get('classes', [])))
    parts.append(detail.get('ver', '?'))
    enc = detail.get('enc', '?')
    parts.append('unicode' if enc in ('UTF-8', 'UTF-16', 'X-NO-SUCH-ENCODING') else 'narrow')
    return '|'.join(parts)
