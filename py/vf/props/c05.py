"""C05 - the result does not depend on how source, stylesheet and output are supplied."""
import os
import subprocess
import tempfile

from hypothesis import strategies as st

from .. import gen_xml, gen_tree
from ..drv import BROOT
from . import c04, c13

ID = 'C05'
LEVEL = 'exploration'
RULE = ('Hypothesis draws (stylesheet, document, parameter) - the stylesheet composed of 2-4 order- and identity-sensitive observation templates (axes, '
        'position(), keys, xsl:number, sort, copy-of, string values, and unions that mix an element with its own attributes, owner and neighbours so that the document order among them shows; optionally split over an imported module and using document()) - and a supply form '
        'from the product {source: stream, file, parseSource native, parseSource Xerces, XercesDOMWrapperParsedSource, XalanSourceTreeWrapperParsedSource, '
        'XalanDocumentBuilder fed by SAX2} x {stylesheet: stream, file, compiled, xml-stylesheet PI} x {result: ostream, file (2 overloads), chunked '
        'callback, FormatterListener, FormatterToXercesDOM, FormatterToSourceTree} x {C++ API, C API (ToFile, ToData, ToHandler, prebuilt forms), the '
        'Xalan command-line program}. Each case compares the baseline (stream -> stream through the C++ API) with one other generated combination: '
        'statuses must agree; byte-producing forms must be byte-identical; DOM / source-tree / event results are compared as trees with the parsed '
        'baseline bytes. Non-trivial: the two forms differ and the output is > 1 KiB or the source has namespaces + attributes. distinct = case text.')
ASSUMPTIONS = ['pure differential between the library\'s own supply forms; documents given to DOM forms are in XPath-normal form (no CDATA sections, no DOCTYPE)']

XSL = 'http://www.w3.org/1999/XSL/Transform'
SRCFORMS = ['stream', 'file', 'parsed-native', 'parsed-xerces', 'xerces-wrapper', 'st-wrapper', 'builder']
XSLFORMS = ['stream', 'file', 'compiled', 'pi']
PI_FORMS = ['<?xml-stylesheet type="text/xsl" href="main.xsl"?>', '<?xml-stylesheet href="main.xsl" type="text/xsl"?>', "<?xml-stylesheet href='main.xsl' type='text/xml'?>",
            '<?xml-stylesheet title="t" href="main.xsl" media="screen" type="application/xml" alternate="no"?>', '<?xml-stylesheet   type = "text/xsl"   href = "main.xsl"  ?>',
            '<?xml-stylesheet alternate="no" type="text/xsl" title="t" href="main.xsl"?>']
OUTFORMS = ['stream', 'file', 'cfile', 'callback', 'events', 'xercesdom', 'sourcetree']
CAPI = ['tofile', 'todata', 'tohandler', 'prebuilt-data', 'prebuilt-handler', 'prebuilt-file']
# C05's own observers (appended to C13's, so the indices of saved cases keep their meaning): the document order AMONG an element, its attributes
# and its neighbours - unions that mix a node with its own attributes / owner, whole-document unions of attributes and nodes, positions inside
# such unions.  The source forms derive that order differently (stored index of the native tree, index assigned by the Xerces wrapper's build
# walk, structural comparison), and no whitespace observer looks at it.  (wave 5: xerces-wrapper-element-shares-index-with-first-attr was missed)
# the relative order of the attributes of ONE element is implementation-dependent (XPath 5.3) and does differ between the native tree and a
# Xerces DOM: no observer may print which attribute comes first / last, only whether a node is an attribute (KIND) and counts
KIND = "concat(name(self::*), substring('@', 1, number(count(.|../@*) = count(../@*))))"
ORDER_OBSERVERS = [
    '<xsl:for-each select="//*"><u c="{count(.|@*)}" d="{count(@*|.|..)}" f="{name((.|@*)[1])}" l="{count((@*|.)[last()]|@*) = count(@*)}" s="{count(.|@*[1])}" o="{name((..|@*)[1])}"/></xsl:for-each>',
    '<xsl:for-each select="//@*"><ua c="{count(..|.)}" f="{name((..|.)[1])}" p="{count(../@*|.)}" q="{count(.|../node())}" r="{count((../node()|.)[1]|../@*) = count(../@*)}" x="{count(..|../@*[last()])}"/></xsl:for-each>',
    '<xsl:for-each select="//@*|//node()"><o><xsl:value-of select="concat(%s, \':\', position(), \'/\', last())"/></o></xsl:for-each>' % KIND,
    '<xsl:for-each select="//*/@*[1]|//*"><o1 n="{%s}" p="{position()}" a="{count(../@*)}"/></xsl:for-each>' % KIND,
    '<xsl:for-each select="//*"><pr a="{count(preceding::*/@*|@*|.)}" b="{count((ancestor-or-self::*/@*|ancestor-or-self::*)[last()]|@*|.) = count(@*|.)}" c="{count((following::*[1]|@*|following::*[1]/@*)[1]|@*) = count(@*)}" d="{count(descendant-or-self::*|descendant-or-self::*/@*)}"/></xsl:for-each>',
    '<ko><xsl:for-each select="key(\'ev\', //*)|//@*"><xsl:value-of select="concat(%s, \',\')"/></xsl:for-each></ko>' % KIND,
]
OBSERVERS = list(c13.OBSERVERS) + ORDER_OBSERVERS
OPEN = set()
_loaded = []


def load_flags(ctx):
    if _loaded:
        return
    _loaded.append(1)
    for e in ctx.findings.open_for(ID):
        OPEN.add(e['id'])


def budget(tier):
    if tier == 'quick':
        return dict(workers=14, examples=1500, wall=170)
    return dict(workers=14, examples=40000, wall=1700)


@st.composite
def cases(draw):
    xml = draw(gen_xml.documents(max_nodes=draw(st.sampled_from([15, 40, 150])), ids=False, astral=False, cdata=False, ws_rich=draw(st.booleans()), odd_names=False))
    obs = draw(st.lists(st.integers(0, len(OBSERVERS) - 1), min_size=2, max_size=4, unique=True))
    api = draw(st.sampled_from(['cpp', 'cpp', 'cpp', 'cpp', 'capi', 'cli']))
    form = {'api': api}
    if api == 'cpp':
        form['src'] = draw(st.sampled_from(SRCFORMS))
        form['xsl'] = draw(st.sampled_from(XSLFORMS))
        if form['xsl'] == 'pi':
            # the pseudo-attributes of the xml-stylesheet PI may come in any order, with either quote, with others in between
            form['pi'] = draw(st.sampled_from(PI_FORMS))
        form['out'] = draw(st.sampled_from(OUTFORMS))
    elif api == 'capi':
        form['capi'] = draw(st.sampled_from(CAPI))
    return {'xml': xml, 'obs': obs, 'imp': draw(st.booleans()), 'doc2': draw(st.booleans()), 'param': draw(st.sampled_from([None, "'v'", '1+1'])),
            'strip': draw(st.sampled_from([None, '*', 'a b'])), 'form': form}


def strategy(ctx):
    load_flags(ctx)
    return cases()


def stylesheet(case):
    head = '<xsl:stylesheet version="1.0" xmlns:xsl="%s" xmlns:p="urn:p" xmlns:q="urn:q" exclude-result-prefixes="p q">' % XSL
    body = ''.join(OBSERVERS[i] for i in case['obs'])
    if case['doc2']:
        body += '<d2><xsl:copy-of select="document(\'d2.xml\')//b[@i &gt; 1]"/><xsl:value-of select="count(document(\'d2.xml\')//node() | //node())"/></d2>'
    extra = '<xsl:param name="pp" select="0"/>'
    if case['strip']:
        extra += '<xsl:strip-space elements="%s"/>' % case['strip']
    common = c13.COMMON
    imported = None
    if case['imp']:
        imported = head + common + '</xsl:stylesheet>'
        main = head + '<xsl:import href="imp.xsl"/>' + extra
    else:
        main = head + extra + common
    main += ('<xsl:output method="xml" indent="no"/><xsl:template match="/"><out pp="{$pp}">' + body + '</out></xsl:template></xsl:stylesheet>')
    return main, imported


D2 = '<r xmlns:q="urn:q"><b i="1"/><b i="2" q:j="x">t</b><b i="3"/><!--c--></r>'


def events_tree(resp):
    """SD/SE/EE/CH/CM/PI event fields (qnames + xmlns attributes) -> expected_tree tuples"""
    top = []
    stack = [top]
    for k, v in resp.fields:
        if len(k) != 2:
            continue
        s = v.decode('utf-8', 'surrogatepass')
        if k == 'SE':
            parts = s.split('\0')
            e = {'t': 'e', 'n': parts[0], 'a': [[parts[i], parts[i + 1]] for i in range(1, len(parts) - 1, 2)], 'c': []}
            stack[-1].append(e)
            stack.append(e['c'])
        elif k == 'EE':
            stack.pop()
        elif k in ('CH', 'CD', 'IW'):
            stack[-1].append({'t': 't', 'v': s})
        elif k == 'CM':
            stack[-1].append({'t': 'c', 'v': s})
        elif k == 'PI':
            t, d = s.split('\0', 1)
            stack[-1].append({'t': 'p', 'n': t, 'v': d})
    return merge_rec(gen_tree.expected_tree(top))


def dom_names_diff(tree, domns):
    """tree: expected_tree tuples of the baseline; domns: the driver's dump of the Xerces DOM result (E/A lines)"""
    want = []

    def walk(kids):
        for k in kids:
            if k[0] == 'E':
                want.append((tuple(k[1]), frozenset(tuple(a) for a in k[2])))
                walk(k[3])
    walk(tree)
    got = []
    for line in domns.split('\n'):
        if not line:
            continue
        kind, qname, uri, local = (line.split('\t') + ['', '', ''])[:4]
        if not local:
            local = qname.split(':')[-1]    # a node created without namespace support has no local name
        if kind == 'E':
            got.append([(uri, local), set()])
        elif got:
            got[-1][1].add((uri, local))
    got = [(n, frozenset(a)) for n, a in got]
    if len(want) != len(got):
        return 'number of elements: %d vs %d' % (len(want), len(got))
    for i, (w, g) in enumerate(zip(want, got)):
        if w != g:
            return 'element #%d: baseline %r %r vs DOM %r %r' % (i, w[0], sorted(w[1]), g[0], sorted(g[1]))
    return None


def merge_rec(kids):
    out = []
    for k in gen_tree.merge(kids):
        out.append(('E', k[1], k[2], merge_rec(k[3])) if k[0] == 'E' else k)
    return out


def run_cli(xsl, xml, res, param):
    exe = os.path.join(BROOT, 'asan', 'src', 'xalanc', 'Xalan')
    d = tempfile.mkdtemp(prefix='xcli.', dir='/dev/shm')
    try:
        for name, text in [('main.xsl', xsl), ('main.xml', xml)] + list(res.items()):
            with open(os.path.join(d, name), 'wb') as f:
                f.write(text.encode('utf-8'))
        cmd = [exe, '-o', os.path.join(d, 'out.xml')]
        if param:
            cmd += ['-p', 'pp', param]
        cmd += [os.path.join(d, 'main.xml'), os.path.join(d, 'main.xsl')]
        env = dict(os.environ, ASAN_OPTIONS='detect_leaks=0', LD_LIBRARY_PATH=os.path.join(BROOT, 'asan', 'src', 'xalanc'))
        p = subprocess.run(cmd, stdout=subprocess.PIPE, stderr=subprocess.PIPE, env=env, timeout=60)
        out = None
        if os.path.exists(os.path.join(d, 'out.xml')):
            with open(os.path.join(d, 'out.xml'), 'rb') as f:
                out = f.read()
        return p.returncode, out, p.stderr.decode('utf-8', 'replace')[-600:]
    finally:
        import shutil
        shutil.rmtree(d, ignore_errors=True)


def check(ctx, case):
    load_flags(ctx)
    main, imported = stylesheet(case)
    res = {}
    if imported:
        res['imp.xsl'] = imported
    if case['doc2']:
        res['d2.xml'] = D2
    fields = [('res', '%s\0%s' % kv) for kv in res.items()]
    if case['param']:
        fields.append(('param', 'pp\x1fexpr\x1f' + case['param']))
    xml = case['xml']
    form = case['form']
    base = ctx.drv.call('transform', fields, xsl=main.encode('utf-8'), xml=xml.encode('utf-8'))
    brc, bout = base.gets('rc'), base.get('out') or b''
    desc = form['api'] + ':' + (form.get('capi') or '%s/%s/%s' % (form.get('src'), form.get('xsl'), form.get('out')) if form['api'] != 'cli' else 'cli')
    big = len(bout) > 1024
    ctx.note(case, (big or ('xmlns' in xml and '="' in xml)) and desc != 'cpp:stream/stream/stream',
             ['api:' + form['api'], 'out>1K' if big else 'out<=1K'] + (['src:' + form['src'], 'xsl:' + form['xsl'], 'outf:' + form['out']] if form['api'] == 'cpp' else []) +
             (['capi:' + form['capi']] if form['api'] == 'capi' else []) + (['import'] if case['imp'] else []) + (['document()'] if case['doc2'] else []),
             sample_text={'form': form, 'obs': case['obs'], 'xml': xml[:150]})
    if form['api'] == 'cpp':
        src, xslf, outf = form['src'], form['xsl'], form['out']
        x = xml
        if xslf == 'pi':
            src = 'file'   # the PI is resolved relative to a real source file
            x = form.get('pi', PI_FORMS[0]) + xml
            if imported is None and not case['doc2']:
                pass
        if outf == 'callback' and not ((src in ('stream', 'file') and xslf in ('stream', 'file', 'pi')) or (src not in ('stream', 'file') and xslf == 'compiled')):
            xslf = 'compiled' if src not in ('stream', 'file') else 'stream'
        r = ctx.drv.call('transform', fields, xsl=main.encode('utf-8'), xml=x.encode('utf-8'), srcform=src, xslform=xslf, outform=outf)
        if r.has('fatal'):
            raise RuntimeError('harness: ' + r.gets('fatal'))
        rc = r.gets('rc')
        if xslf == 'pi':
            # baseline for the PI form: the same document with the PI (it is a node of the source tree)
            base = ctx.drv.call('transform', fields, xsl=main.encode('utf-8'), xml=x.encode('utf-8'))
            brc, bout = base.gets('rc'), base.get('out') or b''
        if (rc == '0') != (brc == '0'):
            return {'what': 'status-differs', 'form': desc, 'baseline_rc': brc, 'rc': rc, 'err': (r.gets('err') or '')[:300], 'baseline_err': (base.gets('err') or '')[:200]}
        if rc != '0':
            return None
        if outf in ('events', 'xercesdom', 'sourcetree'):
            try:
                got = events_tree(r)
            except KeyError as e:
                return {'what': 'unbound-prefix-in-result-events', 'form': desc, 'err': str(e)}
            exp, err = c04.parse_xerces(ctx, bout)
            if err:
                raise RuntimeError('baseline not parseable: ' + err)
            d = gen_tree.tree_diff(exp, got)
            if d:
                return {'what': 'tree-differs', 'form': desc, 'diff': d[:500], 'baseline': bout[:400].decode('utf-8', 'replace')}
            if outf == 'xercesdom' and r.has('domns'):
                # the events carry qualified names; the DOM nodes themselves have a namespace URI and a local name, which must be those of the
                # baseline tree too (elements in document order, the attributes of each element as a set)
                d = dom_names_diff(exp, r.gets('domns') or '')
                if d:
                    return {'what': 'dom-node-names-differ', 'form': desc, 'diff': d[:400], 'baseline': bout[:400].decode('utf-8', 'replace')}
            return None
        out = r.get('out') or b''
        if out != bout:
            if src in ('parsed-xerces', 'xerces-wrapper'):
                # a Xerces DOM keeps attributes and namespace declarations in its own order, which is not significant
                # (XPath 5.3): such forms are compared as trees
                a, ea = c04.parse_xerces(ctx, out)
                b, eb = c04.parse_xerces(ctx, bout)
                if ea or eb:
                    return {'what': 'not-well-formed', 'form': desc, 'err': ea or eb}
                d = gen_tree.tree_diff(b, a)
                if d is None:
                    ctx.counters['attribute-order-only'] += 1
                    return None
                return {'what': 'tree-differs', 'form': desc, 'diff': d[:500], 'baseline': bout[:400].decode('utf-8', 'replace')}
            return {'what': 'bytes-differ', 'form': desc, 'at': _first_diff(out, bout), 'baseline': _around(bout, out), 'got': _around(out, bout),
                    'chunks': r.gets('chunks')}
        return None
    if form['api'] == 'capi':
        r = ctx.drv.call('capi', fields, xsl=main.encode('utf-8'), xml=xml.encode('utf-8'), form=form['capi'])
        rc = r.gets('rc')
        if (rc == '0') != (brc == '0'):
            return {'what': 'status-differs', 'form': desc, 'baseline_rc': brc, 'rc': rc, 'err': (r.gets('err') or '')[:300]}
        if rc == '0' and (r.get('out') or b'') != bout:
            out = r.get('out') or b''
            return {'what': 'bytes-differ', 'form': desc, 'at': _first_diff(out, bout), 'baseline': _around(bout, out), 'got': _around(out, bout)}
        return None
    rc, out, err = run_cli(main, xml, res, case['param'])
    if (rc == 0) != (brc == '0'):
        return {'what': 'status-differs', 'form': desc, 'baseline_rc': brc, 'rc': rc, 'err': err[:300]}
    if rc == 0 and out != bout:
        return {'what': 'bytes-differ', 'form': desc, 'at': _first_diff(out or b'', bout), 'baseline': _around(bout, out or b''), 'got': _around(out or b'', bout)}
    return None


def _first_diff(a, b):
    i = 0
    while i < min(len(a), len(b)) and a[i] == b[i]:
        i += 1
    return i


def _around(a, b):
    i = _first_diff(a, b)
    return a[max(0, i - 60):i + 100].decode('utf-8', 'replace')


def signature(case, detail):
    if 'crash' in detail:
        return 'crash:%s' % detail['crash']
    return '%s|%s' % (detail['what'], detail.get('form'))
