"""C06 - a reused transformer behaves like a fresh one: no state leaks between calls."""
import re

from hypothesis import strategies as st

from .. import gen_xml

ID = 'C06'
LEVEL = 'exploration'
RULE = ('Hypothesis generates HISTORIES (3-12 operations, shrunk as one value) on one XalanTransformer: compile stylesheet, parse source (native / Xerces), '
        'transform (from streams, from a compiled stylesheet and/or a parsed source), set parameter (string expression, number; char* and XalanDOMString '
        'overloads), clear parameters, setIndent / setOutputEncoding / setOmitMETATag / setEscapeURLs, install / uninstall an extension function, destroy a '
        'compiled stylesheet or parsed source. Stylesheets come from a pool of programs using keys, modes, nested variable scopes, result-tree fragments, '
        'call-template with params, sort in nested for-each, xsl:number, attribute sets and document(), with a failure injected at a generated nesting point: '
        'xsl:message terminate, undeclared key (run-time XPath error), missing extension function, unknown output encoding, compile error, missing document(). '
        'Oracle: after the history, every transformation step is repeated on a NEW transformer configured from a small model of what is currently set '
        '(parameters, settings, installed function); return code, output bytes and emptiness of the error text must be identical. '
        'Non-trivial: a failing transformation is followed by a successful one, or a parameter survives >= 2 transformations. distinct = case text.'
        " Programs 9 and 10: a failure inside an attribute set depending on a parameter; a key with the name of program 1's key and another definition with xsl:number and predicate patterns. A quarter of the transformations write to a FormatterListener of the caller (events compared instead of bytes).")
ASSUMPTIONS = ['a newly constructed XalanTransformer is the reference behaviour', 'destroyed stylesheets / sources are never used again (precondition respected by the generator)']

XSL = 'http://www.w3.org/1999/XSL/Transform'
HEAD = '<xsl:stylesheet version="1.0" xmlns:xsl="%s" xmlns:e="urn:ext" exclude-result-prefixes="e">' % XSL

FAILS = {
    'none': '',
    'terminate': '<xsl:message terminate="yes">stop here</xsl:message>',
    'message': '<xsl:message>note</xsl:message>',
    'nokey': '<xsl:value-of select="count(key(\'nokey\', 1))"/>',
    'ext': '<x><xsl:value-of select="e:twice(21)"/></x>',
    'missingdoc': '<xsl:copy-of select="document(\'missing.xml\')/*"/>',
    'badfn': '<xsl:value-of select="nosuchfunction(1)"/>',
    'nonascii': '<xsl:comment>caf\xe9</xsl:comment>caf\xe9',
}

PROGRAMS = [
    # 0: params + nested variable scopes + call-template recursion
    ('<xsl:param name="p" select="\'dflt\'"/><xsl:param name="n" select="3"/><xsl:output method="xml" omit-xml-declaration="yes"/>'
     '<xsl:template match="/"><out p="{$p}"><xsl:variable name="v1" select="count(//*)"/><xsl:call-template name="rec"><xsl:with-param name="k" select="$n"/></xsl:call-template>'
     '<xsl:value-of select="$v1"/></out></xsl:template>'
     '<xsl:template name="rec"><xsl:param name="k" select="0"/><xsl:variable name="inner" select="$k * 2"/><r k="{$k}"><xsl:if test="$k &gt; 0">'
     '<xsl:call-template name="rec"><xsl:with-param name="k" select="$k - 1"/></xsl:call-template></xsl:if><xsl:if test="$k = 1">{FAIL}</xsl:if><xsl:value-of select="$inner"/></r></xsl:template>'),
    # 1: keys + modes + sort inside nested for-each
    ('<xsl:param name="p" select="1"/><xsl:key name="k" match="*" use="name()"/><xsl:output method="xml" omit-xml-declaration="yes"/>'
     '<xsl:template match="/"><out><xsl:for-each select="//*"><xsl:sort select="name()"/><xsl:sort select="count(ancestor::*)" data-type="number" order="descending"/>'
     '<e n="{name()}" c="{count(key(\'k\', name()))}" p="{$p}"><xsl:for-each select="*"><xsl:sort select="@i"/><xsl:if test="position() = 2">{FAIL}</xsl:if><c/></xsl:for-each>'
     '<xsl:apply-templates select="." mode="m1"/></e></xsl:for-each></out></xsl:template>'
     '<xsl:template match="*" mode="m1"><m><xsl:apply-templates select="@*" mode="m2"/></m></xsl:template><xsl:template match="@*" mode="m2"><a><xsl:value-of select="."/></a></xsl:template>'),
    # 2: result tree fragments + copy-of + attribute sets + number
    ('<xsl:param name="q"/><xsl:attribute-set name="as"><xsl:attribute name="x">1</xsl:attribute><xsl:attribute name="q"><xsl:value-of select="$q"/></xsl:attribute></xsl:attribute-set>'
     '<xsl:output method="xml" omit-xml-declaration="yes"/>'
     '<xsl:template match="/"><xsl:variable name="rtf"><f><xsl:for-each select="//*"><i><xsl:number level="any" count="*"/></i>{FAIL}</xsl:for-each></f></xsl:variable>'
     '<out xsl:use-attribute-sets="as"><xsl:copy-of select="$rtf"/><s><xsl:value-of select="string-length($rtf)"/></s></out></xsl:template>'),
    # 3: html output + document() + apply-templates with params through modes
    ('<xsl:param name="p" select="\'t\'"/><xsl:output method="html"/>'
     '<xsl:template match="/"><html><head><title><xsl:value-of select="$p"/></title></head><body><a href="x y.html?a=1&amp;b={$p}">l</a><xsl:apply-templates select="*" mode="b"><xsl:with-param name="d" select="1"/></xsl:apply-templates>'
     '<xsl:copy-of select="document(\'d2.xml\')//b"/></body></html></xsl:template>'
     '<xsl:template match="*" mode="b"><xsl:param name="d"/><div class="d{$d}"><xsl:if test="$d = 2">{FAIL}</xsl:if><xsl:apply-templates select="*" mode="b"><xsl:with-param name="d" select="$d + 1"/></xsl:apply-templates></div></xsl:template>'),
    # 4: text output, choose, pending element + attribute
    ('<xsl:param name="p" select="0"/><xsl:output method="text"/>'
     '<xsl:template match="/"><xsl:for-each select="//*"><xsl:choose><xsl:when test="@i">[<xsl:value-of select="@i"/>]</xsl:when><xsl:when test="*">(<xsl:value-of select="count(*)"/>){FAIL}</xsl:when>'
     '<xsl:otherwise>.</xsl:otherwise></xsl:choose></xsl:for-each>|<xsl:value-of select="$p + 1"/></xsl:template>'),
    # 5: element with pending start tag when failing
    ('<xsl:output method="xml" omit-xml-declaration="yes" indent="yes"/>'
     '<xsl:template match="/"><out><xsl:element name="el"><xsl:attribute name="a">1</xsl:attribute>{FAIL}<xsl:apply-templates/></xsl:element></out></xsl:template>'
     '<xsl:template match="*"><n name="{name()}"><xsl:apply-templates/></n></xsl:template>'),
    # 6: failure while a GLOBAL variable is being evaluated (its guard / context must not survive the failure); it depends on the
    #    parameter p, so that the SAME compiled stylesheet can fail first and succeed later
    ('<xsl:param name="p" select="\'g\'"/><xsl:output method="xml" omit-xml-declaration="yes"/>'
     '<xsl:variable name="g2" select="count(//*) + string-length($g1)"/>'   # refers to g1, which is declared later: g1 is evaluated on first reference (lazily)
     '<xsl:variable name="g1"><g p="{$p}"><xsl:for-each select="//*"><xsl:if test="position() = 2 and $p = \'s\'">{FAIL}</xsl:if><i n="{name()}"/></xsl:for-each></g></xsl:variable>'
     '<xsl:template match="/"><out g2="{$g2}"><xsl:copy-of select="$g1"/><xsl:apply-templates select="*"/></out></xsl:template>'
     '<xsl:template match="*"><e><xsl:value-of select="$g2"/></e></xsl:template>'),
    # 7: failure inside the content of xsl:attribute / xsl:comment / xsl:processing-instruction (only text nodes may be created there),
    #    with copy-of of elements and of a result tree fragment in the same program
    ('<xsl:param name="p" select="1"/><xsl:output method="xml" omit-xml-declaration="yes"/>'
     '<xsl:template match="/"><xsl:variable name="r"><i><j/>t</i></xsl:variable><out><xsl:copy-of select="$r"/><xsl:copy-of select="*/*[1]"/>'
     '<xsl:for-each select="//*"><n><xsl:attribute name="a">x<xsl:if test="position() = 2">{FAIL}</xsl:if></xsl:attribute>'
     '<xsl:comment>c<xsl:if test="position() = 3">{FAIL}</xsl:if></xsl:comment><xsl:processing-instruction name="t">d<xsl:if test="position() = 4">{FAIL}</xsl:if></xsl:processing-instruction>'
     '<xsl:copy-of select="$r"/></n></xsl:for-each><xsl:value-of select="$p"/></out></xsl:template>'),
    # 8: failure while a SORT KEY is being evaluated (the second key calls the extension function, which fails while it is not
    #    installed; the first key ties often, so that some first-key values have been computed by then); numeric sorts follow
    ('<xsl:param name="p" select="1"/><xsl:output method="text"/>'
     '<xsl:template match="/"><xsl:for-each select="//*"><xsl:sort select="string-length(name()) mod 2 + count(*)" data-type="number"/>'
     '<xsl:sort select="e:twice(count(@*)) + string-length(name())" data-type="number" order="descending"/><xsl:value-of select="name()"/>,</xsl:for-each>{FAIL}|'
     '<xsl:for-each select="//*"><xsl:sort select="count(ancestor::*)" data-type="number" order="descending"/><xsl:value-of select="count(ancestor::*)"/></xsl:for-each></xsl:template>'),
    # 9: failure INSIDE an attribute set (which is entered through the recursion guard of attribute sets), depending on the parameter p
    ('<xsl:param name="p" select="\'g\'"/><xsl:output method="xml" omit-xml-declaration="yes"/>'
     '<xsl:attribute-set name="a1" use-attribute-sets="a2"><xsl:attribute name="x"><xsl:value-of select="$p"/><xsl:if test="$p = \'s\'">{FAIL}</xsl:if></xsl:attribute></xsl:attribute-set>'
     '<xsl:attribute-set name="a2"><xsl:attribute name="y">2</xsl:attribute></xsl:attribute-set>'
     '<xsl:template match="/"><out xsl:use-attribute-sets="a1"><xsl:for-each select="//*"><xsl:element name="e" use-attribute-sets="a1"><xsl:value-of select="name()"/></xsl:element>'
     '<xsl:copy use-attribute-sets="a2"/></xsl:for-each></out></xsl:template>'),
    # 10: a key with the NAME of program 1's key and another definition, xsl:number and a match pattern with a predicate: whatever a
    #     transformation caches per source document (key tables, counters, pattern results) must not serve the next stylesheet
    ('<xsl:param name="p" select="1"/><xsl:key name="k" match="*" use="count(*)"/><xsl:output method="xml" omit-xml-declaration="yes"/>'
     '<xsl:template match="/"><out leaves="{count(key(\'k\', 0))}" p="{$p}"><xsl:apply-templates select="//*"/></out></xsl:template>'
     '<xsl:template match="*[*]"><b><xsl:number level="any" count="*[*]"/>:<xsl:value-of select="count(key(\'k\', count(*)))"/></b></xsl:template>'
     '<xsl:template match="*"><l><xsl:number level="multiple" count="*"/>{FAIL}</l></xsl:template>'),
]
OUTPUT_FAIL = {'badenc': '<xsl:output encoding="no-such-encoding-x"/>', 'compile': '<xsl:template match="/"><xsl:value-of select="$undeclared"/></xsl:template>'}


def budget(tier):
    if tier == 'quick':
        return dict(workers=14, examples=700, wall=170)
    return dict(workers=14, examples=15000, wall=1700)


@st.composite
def stylesheet_spec(draw):
    return {'prog': draw(st.integers(0, len(PROGRAMS) - 1)), 'fail': draw(st.sampled_from(['none', 'none', 'none', 'terminate', 'terminate', 'message', 'nokey', 'ext', 'missingdoc', 'badfn', 'nonascii'])),
            'extra': draw(st.sampled_from([None, None, None, None, 'badenc', 'compile']))}


def stylesheet_text(spec):
    body = PROGRAMS[spec['prog']].replace('{FAIL}', FAILS[spec['fail']])
    extra = OUTPUT_FAIL[spec['extra']] if spec['extra'] else ''
    return HEAD + body + extra + '</xsl:stylesheet>'


@st.composite
def histories(draw):
    nsheets = draw(st.integers(1, 3))
    sheets = [draw(stylesheet_spec()) for _ in range(nsheets)]
    docs = [draw(gen_xml.documents(max_nodes=20, ids=False, astral=False, cdata=False, prolog_misc=False, min_children=1)) for _ in range(draw(st.integers(1, 2)))]
    ops = []
    compiled = {}
    parsed = {}
    if draw(st.sampled_from([0, 0, 0, 1])):
        # skeleton: the SAME compiled stylesheet (and parsed source) is run before, while and after a parameter makes it fail
        # (programs 6, 7 and 9 fail depending on p; the others fail or not whatever the parameter is), then the random walk goes on
        compiled['S0'] = 0
        ops.append({'op': 'compile', 'name': 'S0', 'xsl': 0})
        if draw(st.booleans()):
            parsed['P0'] = 0
            ops.append({'op': 'parse', 'name': 'P0', 'xml': 0, 'form': draw(st.sampled_from(['native', 'xerces']))})

        skel_events = draw(st.sampled_from([False, False, True]))

        def run():
            t = {'op': 'transform', 'compiled': 'S0'}
            if 'P0' in parsed:
                t['parsed'] = 'P0'
            else:
                t['xml'] = 0
            if skel_events:
                t['outform'] = 'events'
            return t
        if draw(st.booleans()):
            ops.append(run())
            ops.append({'op': 'param', 'name': 'p', 'kind': draw(st.sampled_from(['expr', 'cexpr'])), 'value': "'s'"})
            ops.append(run())
            ops.append(draw(st.sampled_from([{'op': 'clearparams'}, {'op': 'param', 'name': 'p', 'kind': 'expr', 'value': '7'}])))
            ops.append(run())
            ops.append({'op': 'transform', 'xsl': 0, 'xml': 0})
        else:
            # the extension function is there, gone (program 8 then fails inside a sort key, 'ext' failures anywhere), there again;
            # the runs after the failure use another document where there is one
            ops.append({'op': 'install'})
            ops.append(run())
            ops.append({'op': 'uninstall'})
            ops.append(run())
            ops.append({'op': 'install'})
            ops.append({'op': 'transform', 'compiled': 'S0', 'xml': len(docs) - 1})
            ops.append({'op': 'transform', 'xsl': draw(st.integers(0, nsheets - 1)), 'xml': len(docs) - 1})
    for _ in range(draw(st.integers(3, 12))):
        k = draw(st.integers(0, 19))
        if k <= 7:
            t = {'op': 'transform'}
            if compiled and draw(st.booleans()):
                t['compiled'] = draw(st.sampled_from(sorted(compiled)))
            else:
                t['xsl'] = draw(st.integers(0, nsheets - 1))
            if parsed and draw(st.booleans()):
                t['parsed'] = draw(st.sampled_from(sorted(parsed)))
            else:
                t['xml'] = draw(st.integers(0, len(docs) - 1))
            if draw(st.sampled_from([0, 0, 0, 1])):
                t['outform'] = 'events'    # the result goes to a FormatterListener of the caller instead of a stream
            ops.append(t)
        elif k == 8:
            name = 'S%d' % len(ops)
            si = draw(st.integers(0, nsheets - 1))
            compiled[name] = si
            ops.append({'op': 'compile', 'name': name, 'xsl': si})
        elif k == 9:
            name = 'P%d' % len(ops)
            di = draw(st.integers(0, len(docs) - 1))
            parsed[name] = di
            ops.append({'op': 'parse', 'name': name, 'xml': di, 'form': draw(st.sampled_from(['native', 'xerces']))})
        elif k <= 12:
            ops.append({'op': 'param', 'name': draw(st.sampled_from(['p', 'q', 'n', 'zz'])), 'kind': draw(st.sampled_from(['expr', 'cexpr', 'num', 'cnum'])),
                        'value': draw(st.sampled_from(["'s'", '2+3', "'a&lt;b'", '2 div 4', "concat('x','y')", '7', '0']))})
        elif k == 13:
            ops.append({'op': 'clearparams'})
        elif k == 14:
            ops.append({'op': 'set', 'key': 'indent', 'value': draw(st.sampled_from([-1, 0, 2, 5]))})
        elif k == 15:
            ops.append({'op': 'set', 'key': 'encoding', 'value': draw(st.sampled_from(['', 'UTF-8', 'ISO-8859-1', 'US-ASCII', 'UTF-16']))})
        elif k == 16:
            ops.append({'op': 'set', 'key': draw(st.sampled_from(['omitmeta', 'escapeurls'])), 'value': draw(st.sampled_from([0, 1, 2]))})
        elif k == 17:
            ops.append({'op': draw(st.sampled_from(['install', 'install', 'uninstall']))})
        elif k == 18 and compiled:
            name = draw(st.sampled_from(sorted(compiled)))
            del compiled[name]
            ops.append({'op': 'destroy-ss', 'name': name})
        elif k == 19 and parsed:
            name = draw(st.sampled_from(sorted(parsed)))
            del parsed[name]
            ops.append({'op': 'destroy-ps', 'name': name})
    if not any(o['op'] == 'transform' for o in ops):
        ops.append({'op': 'transform', 'xsl': 0, 'xml': 0})
    return {'sheets': sheets, 'docs': docs, 'ops': ops}


def strategy(ctx):
    return histories()


D2 = '<r><b i="1"/><b i="2"/></r>'


def check(ctx, case):
    sheets = [stylesheet_text(s) for s in case['sheets']]
    docs = case['docs']
    fields = [('def', 'x%d\0%s' % (i, t)) for i, t in enumerate(sheets)] + [('def', 'd%d\0%s' % (i, t)) for i, t in enumerate(docs)]
    fields.append(('res', 'd2.xml\0' + D2))
    # model of what is currently set
    params, settings, installed = [], {}, False
    compiled, parsed = {}, {}
    plan = []   # per op: None or the description of the fresh transformation to compare with
    for op in case['ops']:
        o = op['op']
        if o == 'transform':
            parts = ['transform']
            if 'compiled' in op:
                if op['compiled'] not in compiled:
                    plan.append(None)
                    fields.append(('op', 'noop'))
                    continue
                parts.append('use.compiled=' + op['compiled'])
                xi = compiled[op['compiled']]
            else:
                parts.append('xsl=x%d' % op['xsl'])
                xi = op['xsl']
            if 'parsed' in op:
                if op['parsed'] not in parsed:
                    plan.append(None)
                    fields.append(('op', 'noop'))
                    continue
                parts.append('use.parsed=' + op['parsed'])
                di = parsed[op['parsed']][0]
            else:
                parts.append('xml=d%d' % op['xml'])
                di = op['xml']
            if op.get('outform'):
                parts.append('outform=' + op['outform'])
            fields.append(('op', '\x1f'.join(parts)))
            plan.append({'xsl': xi, 'xml': di, 'params': list(params), 'settings': dict(settings), 'installed': installed, 'outform': op.get('outform'),
                         'srcform': 'parsed-xerces' if 'parsed' in op and parsed[op['parsed']][1] == 'xerces' else 'stream'})
        elif o == 'compile':
            fields.append(('op', 'compile\x1f%s\x1fx%d' % (op['name'], op['xsl'])))
            compiled[op['name']] = op['xsl']
            plan.append('compile')
        elif o == 'parse':
            fields.append(('op', 'parse\x1f%s\x1fd%d\x1f%s' % (op['name'], op['xml'], op['form'])))
            parsed[op['name']] = (op['xml'], op['form'])
            plan.append('parse')
        elif o == 'param':
            v = op['value'] if op['kind'] in ('expr', 'cexpr') else {'2+3': '5', '7': '7', '0': '0'}.get(op['value'], '1.5')
            fields.append(('op', 'param\x1f%s\x1f%s\x1f%s' % (op['name'], op['kind'], v.replace('&lt;', '<'))))
            params = [p for p in params if p[0] != op['name']] + [(op['name'], op['kind'], v.replace('&lt;', '<'))]
            plan.append(None)
        elif o == 'clearparams':
            fields.append(('op', 'clearparams'))
            params = []
            plan.append(None)
        elif o == 'set':
            fields.append(('op', 'set\x1f%s\x1f%s' % (op['key'], op['value'])))
            settings[op['key']] = op['value']
            plan.append(None)
        elif o in ('install', 'uninstall'):
            fields.append(('op', o))
            installed = o == 'install'
            plan.append(None)
        elif o == 'destroy-ss':
            fields.append(('op', 'destroy-ss\x1f' + op['name']))
            compiled.pop(op['name'], None)
            plan.append(None)
        elif o == 'destroy-ps':
            fields.append(('op', 'destroy-ps\x1f' + op['name']))
            parsed.pop(op['name'], None)
            plan.append(None)
    r = ctx.drv.call('history', fields)
    if r.has('fatal'):
        raise RuntimeError('harness: ' + r.gets('fatal'))
    # a compile that failed leaves no object: transformations referring to it were planned with use.compiled -> the driver answers 'fatal'
    outcomes = []
    prev_failed = False
    fail_then_ok = False
    nparam_tr = 0
    for i, p in enumerate(plan):
        if not isinstance(p, dict):
            continue
        rc = r.gets('s%d.rc' % i)
        if rc is None or r.has('s%d.skipped' % i):
            continue
        if p['params']:
            nparam_tr += 1
        if prev_failed and rc == '0':
            fail_then_ok = True
        prev_failed = rc != '0'
        outcomes.append((i, p, rc, _events(r, 's%d.' % i) if p.get('outform') == 'events' else (r.get('s%d.out' % i) or b''), r.gets('s%d.err' % i) or ''))
    ctx.note(case, fail_then_ok or nparam_tr >= 2, ['ops:%d' % len(case['ops'])] + (['fail-then-ok'] if fail_then_ok else []) + (['param-survives'] if nparam_tr >= 2 else []) +
             sorted({'fail:' + s['fail'] for s in case['sheets']} | {'extra:%s' % s['extra'] for s in case['sheets'] if s['extra']}),
             sample_text={'ops': case['ops'][:12], 'sheets': case['sheets']})
    for i, p, rc, out, err in outcomes:
        f = [('param', '%s\x1f%s\x1f%s' % x) for x in p['params']] + [('set.' + k, v) for k, v in p['settings'].items()] + [('res', 'd2.xml\0' + D2)]
        if p['installed']:
            f.append(('install', 1))
        kw = {'outform': 'events'} if p.get('outform') == 'events' else {}
        fr = ctx.drv.call('transform', f, xsl=sheets[p['xsl']].encode('utf-8'), xml=docs[p['xml']].encode('utf-8'), srcform=p['srcform'], **kw)
        frc, fout, ferr = fr.gets('rc'), (_events(fr, '') if kw else (fr.get('out') or b'')), fr.gets('err') or ''
        # the error text is compared (for emptiness) only for failing calls: with status 0 getLastError() may still hold the
        # text of an earlier failure, which the property (status and output) does not speak about
        e1 = bool(err.strip('\0')) if rc != '0' else None
        e2 = bool(ferr.strip('\0')) if frc != '0' else None
        if (rc, out, e1) != (frc, fout, e2):
            return {'what': 'differs-from-fresh', 'step': i, 'op': case['ops'][i], 'reused': {'rc': rc, 'out': out[:300].decode('latin-1'), 'err': err[:200]},
                    'fresh': {'rc': frc, 'out': fout[:300].decode('latin-1'), 'err': ferr[:200]}, 'params': p['params'], 'settings': p['settings'],
                    'field': 'rc' if rc != frc else 'out' if out != fout else 'err', 'sheet': case['sheets'][p['xsl']]}
    return None


def _events(resp, pfx):
    """the FormatterListener events of one transformation (outform=events), as bytes that can be compared"""
    out = []
    for k, v in resp.fields:
        if k.startswith(pfx) and re.fullmatch(r'[A-Z]{2}', k[len(pfx):]):
            out.append(k[len(pfx):].encode('ascii') + b'\x1e' + v)
    return b'\x1d'.join(out)


def signature(case, detail):
    if 'crash' in detail:
        return 'crash:%s' % detail['crash']
    return '%s|%s|%s' % (detail['what'], detail.get('field'), detail.get('sheet', {}).get('fail'))
