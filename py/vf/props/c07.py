"""C07 - compiled stylesheets and parsed sources can be shared by concurrent threads."""
import re

from hypothesis import strategies as st

from .. import gen_xml
from . import c13

ID = 'C07'
LEVEL = 'exploration'
FLAVOR = 'tsan'
# a failure depends on the schedule: it is confirmed when 2 of up to 40 re-runs of the same case in fresh processes fail again
CONFIRM = (40, 2)
RULE = ('Hypothesis draws a stylesheet composed of 2-5 observation templates that touch every lazily initialised facility (keys, xsl:number counters, '
        'document(), format-number, sort with collation, id(), generate-id(), pattern matching through modes, strip-space, messages) x a document x the '
        'shared-source form (native parsed source, Xerces DOM wrapped in thread-safe mode) x N in 2..8 threads x 1..6 transformations per thread x a '
        'perturbation plan (per-thread start delay / yields). The shared compiled stylesheet and parsed source are used FOR THE FIRST TIME by the threads '
        '(lazy initialisation is what is at stake); each thread has its own XalanTransformer. Oracle: (1) ThreadSanitizer (happens-before) reports whose '
        'two accesses both lie in instrumented Xalan code; (2) every thread output byte-equal to the sequential output computed afterwards. '
        'Non-trivial: >= 2 threads ran >= 2 transformations on a stylesheet using >= 1 lazily initialised facility. distinct = case text.'
        ' Observers added later: three sorts that differ only in case-order over keys that differ only in case (driver under LC_ALL=en_US.UTF-8), number-to-string conversions, string literals used as numbers.')
ASSUMPTIONS = ['ThreadSanitizer sees only instrumented code: synchronisation inside the uninstrumented system libxerces-c / ICU is visible only through '
               'intercepted pthread calls', 'the harness does not own the scheduler: interleavings are perturbed, not enumerated (see DESIGN section 6)']

XSL = 'http://www.w3.org/1999/XSL/Transform'
EXTRA = [
    # (id() with an argument without tokens trips a Debug-only assert, F-C02-assert-id-empty: constants only)
    '<i1><xsl:value-of select="count(id(\'k1 k2\'))"/>,<xsl:value-of select="count(id(\'zz k3\')/ancestor::*)"/></i1>',
    '<fn><xsl:for-each select="//*"><xsl:value-of select="format-number(count(preceding::*) * 1234.5, \'#,##0.00\')"/>;</xsl:for-each></fn>',
    '<d2><xsl:copy-of select="document(\'d2.xml\')//b"/><xsl:value-of select="count(document(\'d2.xml\')//node())"/></d2>',
    '<gi><xsl:for-each select="//*"><xsl:value-of select="generate-id() = generate-id(.)"/></xsl:for-each></gi>',
    '<st><xsl:for-each select="//*"><xsl:sort select="@i" lang="en"/><xsl:sort select="name()" case-order="upper-first"/><xsl:value-of select="name()"/>,</xsl:for-each></st>',
    '<ms><xsl:message>note <xsl:value-of select="count(//*)"/></xsl:message></ms>',
    '<nm><xsl:for-each select="//*"><xsl:number level="multiple" count="*" format="1.a.I"/>;</xsl:for-each></nm>',
    '<ky><xsl:for-each select="//*"><xsl:value-of select="count(key(\'ev\', .))"/>.</xsl:for-each></ky>',
    # number -> string conversion of non-integral doubles (value-of, AVT, string()): any static scratch buffer would be shared
    '<nv><xsl:for-each select="//*"><v a="{(count(preceding::*) + 1) div 7}"><xsl:value-of select="count(ancestor::*) div 3 + 0.1"/>;<xsl:value-of select="string(1 div (count(*) + 3))"/></v></xsl:for-each></nv>',
    # two sorts of one stylesheet that differ only in case-order, over keys that differ only in case: a collator (or any comparison state)
    # shared between threads that are in different phases orders one of them wrongly
    '<co><xsl:for-each select="//*"><xsl:sort select="substring(\'aAbBaA\', count(preceding::*) mod 6 + 1, 1)" case-order="upper-first"/>'
    '<xsl:value-of select="substring(\'aAbBaA\', count(preceding::*) mod 6 + 1, 1)"/></xsl:for-each>|<xsl:for-each select="//*">'
    '<xsl:sort select="substring(\'aAbBaA\', count(preceding::*) mod 6 + 1, 1)" case-order="lower-first"/>'
    '<xsl:value-of select="substring(\'aAbBaA\', count(preceding::*) mod 6 + 1, 1)"/></xsl:for-each>|<xsl:for-each select="//*">'
    '<xsl:sort select="substring(\'aAbBaA\', count(preceding::*) mod 6 + 1, 1)" case-order="upper-first" order="descending"/>'
    '<xsl:value-of select="substring(\'aAbBaA\', count(preceding::*) mod 6 + 1, 1)"/></xsl:for-each></co>',
    # string literals used as numbers and as booleans, numeric literals used as strings: whatever a compiled expression converts
    # lazily and keeps (in the shared stylesheet) is first converted by the threads
    '<sl><xsl:for-each select="//*"><xsl:value-of select="count(*) + \'1.5\'"/>,<xsl:value-of select="\'7\' * 2 - \'0.25\'"/>,'
    '<xsl:if test="count(*) &lt; \'2\'">y</xsl:if><xsl:if test="\'3\' &gt; count(@*)">z</xsl:if><xsl:value-of select="concat(12.5, 1 div 8, -0.75)"/>'
    '<xsl:value-of select="substring(\'abcdef\', \'2\', \'3\')"/>;</xsl:for-each></sl>',
]
POOL = c13.OBSERVERS + EXTRA
D2 = '<r xmlns:q="urn:q"><b i="1"/><b i="2" q:j="x">t</b><b i="3"/><!--c--></r>'
FLAGS = set()
_loaded = []


def load_flags(ctx):
    if _loaded:
        return
    _loaded.append(1)
    for e in ctx.findings.open_for(ID):
        for f in e.get('exclusion_flags', []):
            FLAGS.add(f)


def budget(tier):
    if tier == 'quick':
        return dict(workers=12, examples=600, wall=170)
    return dict(workers=12, examples=20000, wall=1700)


@st.composite
def cases(draw):
    xml = draw(gen_xml.documents(max_nodes=30, ids=draw(st.booleans()), astral=False, cdata=False, ws_rich=draw(st.booleans()), odd_names=False, prolog_misc=False))
    obs = draw(st.lists(st.integers(0, len(POOL) - 1), min_size=2, max_size=5, unique=True))
    n = draw(st.integers(2, 8))
    return {'xml': xml, 'obs': obs, 'strip': draw(st.sampled_from([None, '*', 'a'])), 'srcform': draw(st.sampled_from(['parsed-native', 'parsed-native', 'xerces-wrapper'])),
            'nthreads': n, 'iters': draw(st.integers(1, 6)), 'delays': [draw(st.sampled_from([0, 0, 1, 50, 200, 1001])) for _ in range(n)]}


def strategy(ctx):
    load_flags(ctx)
    return cases()


def stylesheet(case):
    head = '<xsl:stylesheet version="1.0" xmlns:xsl="%s" xmlns:p="urn:p" xmlns:q="urn:q" exclude-result-prefixes="p q">' % XSL
    body = ''.join(POOL[i] for i in case['obs'])
    extra = '<xsl:strip-space elements="%s"/>' % case['strip'] if case['strip'] else ''
    return head + extra + c13.COMMON + '<xsl:template match="/"><out>' + body + '</out></xsl:template></xsl:stylesheet>'


def race_reports(text):
    """-> list of (signature, both_in_xalan, excerpt) for each ThreadSanitizer data-race report"""
    out = []
    for rep in text.split('==================')[1:]:
        if 'ThreadSanitizer: data race' not in rep:
            if 'ThreadSanitizer:' in rep:
                m = re.search(r'ThreadSanitizer: ([\w -]+)', rep)
                out.append(('other:' + (m.group(1).strip() if m else '?'), False, rep[:1500]))
            continue
        blocks = re.split(r'\n\s*\n', rep)
        accesses = [b for b in blocks if re.search(r'^\s*(Previous )?(atomic )?(read|write) of size', b, re.I | re.M)]
        tops = []
        inx = []
        for b in accesses[:2]:
            frames = re.findall(r'#\d+ (.*?) (/\S+?):\d+', b)
            xal = [fn for fn, path in frames if '/src/xalanc/' in path]
            inx.append(bool(frames) and '/src/xalanc/' in frames[0][1])
            fn = xal[0] if xal else (frames[0][0] if frames else '?')
            fn = re.sub(r'<.*>', '<>', fn)
            fn = re.sub(r'\(.*$', '', fn).replace('xalanc_1_12::', '')
            tops.append(fn)
        out.append(('race:' + ' <-> '.join(sorted(tops)), len(inx) == 2 and all(inx), rep[:2500]))
    return out


def check(ctx, case):
    load_flags(ctx)
    xsl = stylesheet(case)
    uses_id = any(i == len(c13.OBSERVERS) + 0 for i in case['obs'])
    if uses_id and 'no_id_function' in FLAGS and ctx.tier != 'replay':
        ctx.excluded['no_id_function'] += 1
        case = dict(case, obs=[i for i in case['obs'] if i != len(c13.OBSERVERS)] or [1])
        xsl = stylesheet(case)
    d = ctx.drv
    d.extra_env.setdefault('TSAN_OPTIONS', 'halt_on_error=0 exitcode=0 report_signal_unsafe=0 history_size=5')
    # ICU takes its default locale from the environment; in the POSIX locale its collation is code point order and case-order has no effect
    d.extra_env.setdefault('LC_ALL', 'en_US.UTF-8')
    before = len(d.stderr_text()) if d.proc is not None else 0
    r = d.call('threads', [('res', 'd2.xml\0' + D2)], xsl=xsl.encode('utf-8'), xml=case['xml'].encode('utf-8'), srcform=case['srcform'],
               nthreads=case['nthreads'], iters=case['iters'], delay=','.join(str(x) for x in case['delays']))
    err = d.stderr_text()[before:]
    nontrivial = case['nthreads'] >= 2 and case['iters'] >= 2
    ctx.note(case, nontrivial, ['form:' + case['srcform'], 'threads:%d' % case['nthreads']] + ['obs:%d' % i for i in case['obs']],
             sample_text={'obs': case['obs'], 'srcform': case['srcform'], 'nthreads': case['nthreads'], 'iters': case['iters'], 'xml': case['xml'][:150]})
    if r.has('setup.err'):
        raise RuntimeError('harness: ' + r.gets('setup.err'))
    if r.gets('seq.rc') != '0':
        ctx.counters['sequential-run-failed'] += 1
        return None
    if r.gets('mismatches') != '0' or r.gets('failures') != '0':
        return {'what': 'output-differs-from-sequential', 'mismatches': r.gets('mismatches'), 'failures': r.gets('failures'), 'bad': (r.gets('bad') or '')[:400],
                'seq': (r.gets('seq.out') or '')[:400], 'srcform': case['srcform']}
    reps = race_reports(err)
    for sig, both, text in reps:
        if not both:
            ctx.counters['tsan-report-outside-xalan'] += 1
            continue
        return {'what': 'data-race', 'race': sig, 'report': text, 'srcform': case['srcform']}
    return None


def signature(case, detail):
    if 'crash' in detail:
        return 'crash:%s' % detail['crash']
    if detail['what'] == 'data-race':
        return detail['race']
    return '%s|%s' % (detail['what'], detail.get('srcform'))
