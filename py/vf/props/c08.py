"""C08 - output options change only the lexical form, never the content."""
import html.parser
import re
from xml.parsers import expat

from hypothesis import strategies as st

from .. import gen_tree
from ..gen_tree import expected_tree, tree_diff
from . import c04

ID = 'C08'
LEVEL = 'exploration'
RULE = ('Hypothesis generates a result tree T (mixed content, whitespace-only text nodes, attribute values and text needing escaping, comments, PIs, '
        'namespaced names; for html: an HTML skeleton with void elements, script/style with < and &, URI and boolean attributes) rendered as a stylesheet of '
        'literal result elements / xsl:text / xsl:comment / xsl:processing-instruction, x a generated option set: xsl:output method xml|html|text, indent, '
        'encoding, omit-xml-declaration, standalone, doctype-system/public, cdata-section-elements, version 1.0/1.1, media-type, and the XalanTransformer '
        'overrides setIndent / setOutputEncoding / setOmitMETATag / setEscapeURLs. T is known by construction: xml output parsed by expat/Xerces must equal T '
        'except for NEW whitespace-only text nodes when indenting (an existing text node or attribute value may never change); text output must be the '
        'concatenated text of T in the encoding; html output parsed with Python html.parser + HTML 4 void/raw-text tables must equal T. '
        'Non-trivial: T has mixed content or a whitespace-only text node next to an element, and >= 2 options differ from the defaults. '
        'distinct = distinct case text.')
ASSUMPTIONS = ['expat / Xerces / html.parser are correct parsers', 'HTML parsing rules approximated by html.parser plus the HTML 4 void and raw-text element tables',
               'the stylesheet rendering of T is a correct XSLT program for T (only LREs, xsl:text, xsl:comment, xsl:processing-instruction)']

XSL = 'http://www.w3.org/1999/XSL/Transform'
ENCODINGS = ['UTF-8', 'UTF-16', 'ISO-8859-1', 'US-ASCII', 'ISO-8859-2']
VOID = {'area', 'base', 'basefont', 'br', 'col', 'frame', 'hr', 'img', 'input', 'isindex', 'link', 'meta', 'param'}
RAW = {'script', 'style'}
FLAGS = set()
OPEN = set()
_loaded = []


def load_flags(ctx):
    if _loaded:
        return
    _loaded.append(1)
    for pid in ('C04', 'C08'):
        for e in ctx.findings.open_for(pid):
            OPEN.add(e['id'])
            for f in e.get('exclusion_flags', []):
                FLAGS.add(f)


def budget(tier):
    if tier == 'quick':
        return dict(workers=14, examples=2200, wall=160)
    return dict(workers=14, examples=50000, wall=1700)


# ------------------------------------------------------------------------------------------ generators
@st.composite
def options(draw, method):
    o = {'method': method}
    if draw(st.booleans()):
        o['indent'] = draw(st.sampled_from(['yes', 'no']))
    if draw(st.integers(0, 2)) == 0:
        o['encoding'] = draw(st.sampled_from(ENCODINGS))
    if method == 'xml':
        if draw(st.booleans()):
            o['omit-xml-declaration'] = draw(st.sampled_from(['yes', 'no']))
        if draw(st.integers(0, 3)) == 0:
            o['standalone'] = draw(st.sampled_from(['yes', 'no']))
        if draw(st.integers(0, 3)) == 0:
            o['version'] = draw(st.sampled_from(['1.0', '1.1']))
        if draw(st.integers(0, 2)) == 0:
            o['cdata-section-elements'] = draw(st.sampled_from(['a', 'b', 'a b', 'p:a', 'c d']))
    if method in ('xml', 'html'):
        if draw(st.integers(0, 3)) == 0:
            o['doctype-system'] = 'x.dtd'
            if draw(st.booleans()):
                o['doctype-public'] = '-//X//Y'
    if draw(st.integers(0, 4)) == 0:
        o['media-type'] = 'text/x'
    s = {}
    if draw(st.integers(0, 3)) == 0:
        s['set.indent'] = draw(st.sampled_from([0, 1, 2, 4, 8]))
    if draw(st.integers(0, 4)) == 0:
        s['set.encoding'] = draw(st.sampled_from(ENCODINGS))
    if method == 'html':
        if draw(st.integers(0, 2)) == 0:
            s['set.omitmeta'] = draw(st.sampled_from([1, 2]))
        if draw(st.integers(0, 2)) == 0:
            s['set.escapeurls'] = draw(st.sampled_from([1, 2]))
    return {'output': o, 'settings': s}


HTML_TEXT = ['x', 'a b', '\U0001F600', 'y' + '\U0001F600' * 300, ' ', '\n', 'a<b', 'a&b', '"q"', '\xe9', '中', '1 < 2 && 3 > 2', 'x\ny', '\xa0', 'if (a<b && c) {}']


@st.composite
def html_trees(draw):
    def text():
        return {'t': 't', 'v': draw(st.sampled_from(HTML_TEXT))}

    def attrs(el):
        a = []
        if el == 'a' and draw(st.booleans()):
            a.append(['href', draw(st.sampled_from(['x.html', 'a b.html', 'q?a=1&b=2', 'caf\xe9.html', '#f', 'x"y']))])
        if el == 'img':
            a.append(['src', draw(st.sampled_from(['i.png', 'a b.png', '中.png']))])
            a.append(['alt', draw(st.sampled_from(['', 'a<b', 'x']))])
        if el == 'input' and draw(st.booleans()):
            a.append(['checked', 'checked'])
        if el == 'td' and draw(st.booleans()):
            a.append(['nowrap', 'nowrap'])
        if draw(st.integers(0, 2)) == 0:
            a.append(['class', draw(st.sampled_from(['c', 'a b', 'x&y', '<', '']))])
        if draw(st.integers(0, 5)) == 0:
            a.append(['title', draw(st.sampled_from(['t', '"', "'", 'a\nb', '\xe9']))])
        return a

    def element(depth):
        el = draw(st.sampled_from(['p', 'div', 'span', 'b', 'a', 'br', 'hr', 'img', 'input', 'ul', 'li', 'table', 'tr', 'td', 'script', 'style', 'pre', 'x-custom']))
        kids = []
        if el in RAW:
            kids = [{'t': 't', 'v': draw(st.sampled_from(['if (a<b && c) {}', 'x', 'a > b', '/* <b> */', '中']))}] if draw(st.booleans()) else []
        elif el not in VOID and depth < 3:
            for _ in range(draw(st.integers(0, 3))):
                k = draw(st.integers(0, 5))
                if k <= 2:
                    kids.append(element(depth + 1))
                elif k <= 4:
                    kids.append(text())
                else:
                    kids.append({'t': 'c', 'v': draw(st.sampled_from(['c', ' note ', 'a<b', 'z' + '\U0001F600' * 300]))})
        return {'t': 'e', 'n': el, 'a': attrs(el), 'c': kids}
    head = {'t': 'e', 'n': 'head', 'a': [], 'c': [{'t': 'e', 'n': 'title', 'a': [], 'c': [text()]}] if draw(st.booleans()) else []}
    body = {'t': 'e', 'n': 'body', 'a': [], 'c': [element(0) for _ in range(draw(st.integers(0, 4)))]}
    top = {'t': 'e', 'n': draw(st.sampled_from(['html', 'html', 'HTML'])), 'a': [], 'c': [head, body] if draw(st.integers(0, 4)) else [body]}
    return [top]


@st.composite
def cases(draw):
    method = draw(st.sampled_from(['xml', 'xml', 'xml', 'html', 'text', 'default']))
    if method == 'html' or (method == 'default' and draw(st.booleans())):
        tree = draw(html_trees())
    else:
        tree = draw(gen_tree.trees(allow_forbidden=False, cdata=False, allow_pad=draw(st.integers(0, 3)) == 0, nonascii_names=False))
    a = draw(options(method if method != 'default' else None))
    b = draw(options(method if method != 'default' else None))
    return {'tree': tree, 'A': a, 'B': b}


def strategy(ctx):
    load_flags(ctx)
    return cases().map(sanitize)


def sanitize(case):
    def walk(n):
        if n['t'] == 'c':
            v = re.sub(r'-+', '-', n['v'].replace('\r', ' '))
            n['v'] = v + (' ' if v.endswith('-') else '')
        elif n['t'] == 'p':
            n['v'] = n['v'].replace('?>', '? >').replace('\r', ' ').lstrip(' \t\n')
        elif n['t'] == 'e':
            for c in n['c']:
                walk(c)
        if n['t'] in ('t', 'c', 'p'):
            n['v'] = re.sub('[\ud800-\udfff]', 'Z', n['v'])
        if n['t'] == 'e':
            for a in n['a']:
                a[1] = re.sub('[\ud800-\udfff]', 'Z', a[1])
    for n in case['tree']:
        walk(n)
    return case


# ------------------------------------------------------------------------------------------ rendering T as a stylesheet
def xesc(s, attr=False):
    s = s.replace('&', '&amp;').replace('<', '&lt;').replace('>', '&gt;')
    out = []
    for ch in s:
        cp = ord(ch)
        if ch in '\r\t\n' or cp in (0x85, 0x2028) or 0x7f <= cp <= 0x9f:
            out.append('&#%d;' % cp)
        elif attr and ch == '"':
            out.append('&quot;')
        else:
            out.append(ch)
    return ''.join(out)


def stylesheet(tree, output):
    # p / q are declared for QNames in cdata-section-elements; excluded so that they do not leak into the result
    parts = ['<xsl:stylesheet version="1.0" xmlns:xsl="%s" xmlns:p="urn:p" xmlns:q="urn:q" exclude-result-prefixes="p q">' % XSL]
    if output:
        parts.append('<xsl:output %s/>' % ' '.join('%s="%s"' % (k, v) for k, v in output.items() if v is not None and k != 'method' or (k == 'method' and v)))
    parts.append('<xsl:template match="/">')

    def walk(n):
        t = n['t']
        if t == 'e':
            attrs = ''.join(' %s="%s"' % (an, xesc(av.replace('{', '{{').replace('}', '}}'), True) if not an.startswith('xmlns') else xesc(av, True))
                            for an, av in n['a'])
            parts.append('<%s%s>' % (n['n'], attrs))
            for c in n['c']:
                walk(c)
            parts.append('</%s>' % n['n'])
        elif t in ('t', 'd'):
            if n['v']:
                parts.append('<xsl:text>%s</xsl:text>' % xesc(n['v']))
        elif t == 'c':
            parts.append('<xsl:comment><xsl:text>%s</xsl:text></xsl:comment>' % xesc(n['v']))
        else:
            parts.append('<xsl:processing-instruction name="%s"><xsl:text>%s</xsl:text></xsl:processing-instruction>' % (n['n'], xesc(n['v'])))
    for n in tree:
        walk(n)
    parts.append('</xsl:template></xsl:stylesheet>')
    return ''.join(parts)


# ------------------------------------------------------------------------------------------ oracles
def effective(opts, tree):
    o, s = opts['output'], opts['settings']
    method = o.get('method')
    if not method:
        top = [n for n in tree if n['t'] == 'e']
        method = 'html' if top and top[0]['n'].lower() == 'html' and ':' not in top[0]['n'] and not any(a[0] == 'xmlns' for a in top[0]['a']) else 'xml'
    enc = s.get('set.encoding') or o.get('encoding') or 'UTF-8'
    indent = (s['set.indent'] >= 0) if 'set.indent' in s else (o.get('indent', 'yes' if method == 'html' else 'no') == 'yes')
    return method, enc, indent


URI_ATTRS = {'href', 'src', 'cite', 'action', 'background', 'codebase', 'data', 'longdesc', 'profile', 'usemap', 'classid', 'for', 'archive'}


def uri_escaped(v):
    return ''.join(ch if (33 <= ord(ch) < 127 and ch != '"') or ch == ' ' else ''.join('%%%02X' % b for b in ch.encode('utf-8', 'surrogatepass')) for ch in v)


def uri_attrs_equal(exp, got):
    """XSLT 1.0 16.2: the html output method SHOULD escape non-ASCII characters in URI attribute values (HTML 4.0 B.2.1: UTF-8 bytes as %HH).
    Xalan (FormatterToHTML::writeAttrURI, on unless setEscapeURLs(No)) also escapes control characters, DEL and the double quote, which RFC 2396
    excludes from URIs.  For the URI attributes of HTML 4 the value is therefore compared modulo exactly that escaping; all other attributes exactly."""
    if set(exp) != set(got):
        return False
    for k, v in exp.items():
        g = got[k]
        if g == v:
            continue
        if k[1] in URI_ATTRS and uri_escaped(g).lower() == uri_escaped(v).lower():
            continue
        return False
    return True


def align(exp, got, path='', uri_escape=False):
    """exp == got except that got may contain additional whitespace-only text nodes"""
    i = j = 0
    while i < len(exp) or j < len(got):
        if i < len(exp) and j < len(got):
            x, y = exp[i], got[j]
            if x[0] == y[0] == 'E' and x[1] == y[1]:
                if x[2] != y[2] and not (uri_escape and uri_attrs_equal(x[2], y[2])):
                    return '%s/%d: attributes %r vs %r' % (path, i, sorted(x[2].items())[:5], sorted(y[2].items())[:5])
                d = align(x[3], y[3], '%s/%d' % (path, i), uri_escape)
                if d:
                    return d
                i += 1
                j += 1
                continue
            if x[0] != 'E' and x == y:
                i += 1
                j += 1
                continue
        if j < len(got) and got[j][0] == 'T' and got[j][1].strip(' \t\r\n') == '' and not (i < len(exp) and exp[i][0] == 'T'):
            j += 1   # inserted whitespace-only text node
            continue
        return '%s: expected %r got %r' % (path, gen_tree._short(exp[i]) if i < len(exp) else None, gen_tree._short(got[j]) if j < len(got) else None)
    return None


def text_of(tree):
    out = []

    def walk(n):
        if n['t'] == 'e':
            for c in n['c']:
                walk(c)
        elif n['t'] in ('t', 'd'):
            out.append(n['v'])
    for n in tree:
        walk(n)
    return ''.join(out)


class HP(html.parser.HTMLParser):
    def __init__(self):
        html.parser.HTMLParser.__init__(self, convert_charrefs=True)
        self.top = []
        self.stack = [self.top]
        self.names = []
        self.problems = []

    def handle_starttag(self, tag, attrs):
        e = ('E', ('', tag), {('', k): (v if v is not None else k) for k, v in attrs}, [])
        self.stack[-1].append(e)
        if tag not in VOID:
            self.stack.append(e[3])
            self.names.append(tag)

    def handle_startendtag(self, tag, attrs):
        e = ('E', ('', tag), {('', k): (v if v is not None else k) for k, v in attrs}, [])
        self.stack[-1].append(e)
        self.problems.append('self-closing:' + tag)

    def handle_endtag(self, tag):
        if tag in VOID:
            self.problems.append('end-tag-for-void:' + tag)
            return
        if not self.names or self.names[-1] != tag:
            self.problems.append('mismatched-end:' + tag)
            return
        self.names.pop()
        self.stack.pop()

    def handle_data(self, d):
        self.stack[-1].append(('T', d))

    def handle_comment(self, d):
        self.stack[-1].append(('C', d))

    def handle_pi(self, d):
        self.stack[-1].append(('P', d))


def html_expected(tree):
    def conv(n):
        if n['t'] == 'e':
            return ('E', ('', n['n'].lower()), {('', a.lower()): v for a, v in n['a'] if not a.startswith('xmlns')}, gen_tree.merge([conv(c) for c in n['c']]))
        if n['t'] in ('t', 'd'):
            return ('T', n['v'])
        if n['t'] == 'c':
            return ('C', n['v'])
        return ('P', n['n'] + ' ' + n['v'])
    return gen_tree.merge([conv(n) for n in tree])


def strip_meta(nodes):
    out = []
    for n in nodes:
        if n[0] == 'E':
            kids = strip_meta(n[3])
            if n[1][1] == 'head':
                kids = [k for k in kids if not (k[0] == 'E' and k[1][1] == 'meta' and any(a[1].lower() == 'http-equiv' for a in k[2]))]
            out.append(('E', n[1], n[2], kids))
        else:
            out.append(n)
    return out


def merge_rec(kids):
    out = []
    for k in gen_tree.merge(kids):
        out.append(('E', k[1], k[2], merge_rec(k[3])) if k[0] == 'E' else k)
    return out


def run_one(ctx, tree, opts):
    xsl = stylesheet(tree, opts['output'])
    fields = [(k, v) for k, v in opts['settings'].items()]
    r = ctx.drv.call('transform', fields, xsl=xsl.encode('utf-8'), xml=b'<x/>')
    return r, xsl


def judge(ctx, tree, opts, r):
    """None or a detail dict"""
    method, enc, indent = effective(opts, tree)
    if method in ('xml', 'default'):
        ver0 = opts['output'].get('version', '1.0')
        why = c04.unrepresentable([dict(n) for n in tree], enc if enc in c04.PYCODEC else 'UTF-8', ver0 if ver0 in ('1.0', '1.1') else '1.0')
        if why is not None:
            # T cannot be carried by an XML document of that version / encoding: C04's business
            ctx.counters['skipped:unrepresentable'] += 1
            return None
    if (r.gets('rc') != '0' and method == 'xml' and opts['output'].get('version') == '1.1' and opts['output'].get('cdata-section-elements')
            and _text_has(tree, c04.restricted11)):
        ctx.counters['lenient:restricted-in-cdata-1.1'] += 1   # same leniency as C04
        return None
    if r.gets('rc') != '0':
        return {'what': 'transformation-failed', 'err': (r.gets('err') or '')[:300], 'method': method, 'enc': enc}
    out = r.get('out') or b''
    try:
        exp = expected_tree(tree)
    except KeyError:
        return None
    if method == 'text':
        try:
            want = text_of(tree).encode(c04.PYCODEC.get(enc, 'utf-8'))
        except UnicodeEncodeError:
            return None
        got = out
        if enc == 'UTF-16':
            got = out.decode('utf-16', 'replace').encode('utf-16')
            want = text_of(tree).encode('utf-16')
        if got != want:
            return {'what': 'text-output-differs', 'expected': want[:200].decode('latin-1'), 'got': got[:200].decode('latin-1'), 'enc': enc}
        return None
    if method == 'xml':
        ver = opts['output'].get('version', '1.0')
        if not out.lstrip().startswith(b'<?xml') and enc not in ('UTF-8', 'UTF-16'):
            # no XML declaration: the encoding is external information (XSLT 16.1); hand the parser UTF-8
            try:
                out = out.decode(c04.PYCODEC[enc]).encode('utf-8')
            except (UnicodeDecodeError, KeyError) as e:
                return {'what': 'xml-not-decodable', 'err': str(e)[:100], 'enc': enc}
        got, err = c04.parse_xerces(ctx, out)
        if err:
            return {'what': 'xml-not-well-formed', 'err': err[:200], 'out': out[:300].decode('latin-1'), 'enc': enc, 'ver': ver}
        d = align(exp, got) if indent else tree_diff(exp, got)
        if d:
            return {'what': 'xml-tree-differs', 'diff': d[:400], 'indent': indent, 'enc': enc, 'ver': ver, 'cdata': opts['output'].get('cdata-section-elements')}
        return None
    # html
    try:
        text = out.decode(c04.PYCODEC.get(enc, 'utf-8'))
    except (UnicodeDecodeError, LookupError) as e:
        return {'what': 'html-not-decodable', 'err': str(e)[:100], 'enc': enc}
    if any(':' in n['n'] for n in iter_elems(tree)) or any(a[0].startswith('xmlns') for n in iter_elems(tree) for a in n['a']):
        return None   # namespaced elements inside html output are written as XML; not judged here
    p = HP()
    p.feed(text)
    p.close()
    if p.problems:
        return {'what': 'html-structure', 'problems': p.problems[:4], 'out': text[:300]}
    got = strip_meta(merge_rec(p.top))
    want = strip_meta(merge_rec(html_expected(tree)))
    d = align(want, got, uri_escape=opts['settings'].get('set.escapeurls') != 1)
    if d:
        return {'what': 'html-tree-differs', 'diff': d[:400], 'indent': indent, 'enc': enc, 'out': text[:300]}
    return None


def iter_elems(tree):
    for n in tree:
        if n['t'] == 'e':
            yield n
            for x in iter_elems(n['c']):
                yield x


def mixed(tree):
    for n in iter_elems(tree):
        kinds = {c['t'] for c in n['c']}
        if 'e' in kinds and ('t' in kinds):
            return True
    return False


def check(ctx, case):
    load_flags(ctx)
    tree = case['tree']
    results = {}
    nonascii = any(ord(ch) > 127 for _, s in gen_tree.all_strings(tree) for ch in s)
    for name in ('A', 'B'):
        opts = case[name]
        method, enc, indent = effective(opts, tree)
        nopt = len([k for k in opts['output'] if k != 'method']) + len(opts['settings'])
        ctx.note({'t': tree, 'o': opts}, mixed(tree) and nopt >= 2,
                 ['method:' + method, 'enc:' + enc, 'indent' if indent else 'noindent'] + (['mixed'] if mixed(tree) else []) +
                 (['cdata-elems'] if opts['output'].get('cdata-section-elements') else []))
        skip = False
        if ctx.tier != 'replay':
            for fid, pred in EXCLUSIONS:
                if fid in OPEN and pred(tree, opts, method, enc, indent, nonascii):
                    ctx.excluded[fid] += 1
                    skip = True
        if skip:
            continue
        r, xsl = run_one(ctx, tree, opts)
        d = judge(ctx, tree, opts, r)
        if d:
            d.update(side=name, method=method, options=opts, xsl=xsl[:1500],
                     trig=[fid for fid, pred in EXCLUSIONS if pred(tree, opts, method, enc, indent, nonascii)])
            return d
        results[name] = r
    return None


def _nonascii_in(tree, kinds):
    def walk(n):
        if n['t'] in kinds and any(ord(c) > 127 for c in n['v']):
            return True
        return n['t'] == 'e' and any(walk(c) for c in n['c'])
    return any(walk(n) for n in tree)


def _text_has(tree, pred):
    def walk(n):
        if n['t'] in ('t', 'd') and any(pred(ord(c)) for c in n['v']):
            return True
        return n['t'] == 'e' and any(walk(c) for c in n['c'])
    return any(walk(n) for n in tree)


def _raw_text_nonascii(tree):
    def walk(n, raw):
        if n['t'] in ('t', 'd'):
            return raw and any(ord(c) > 127 for c in n['v'])
        return n['t'] == 'e' and any(walk(c, n['n'].lower() in ('script', 'style')) for c in n['c'])
    return any(walk(n, False) for n in tree)


EXCLUSIONS = [
    ('F-C08-script-unencodable', lambda tree, opts, method, enc, indent, nonascii: method == 'html' and enc not in ('UTF-8', 'UTF-16') and _raw_text_nonascii(tree)),
    # the surrogate pair must straddle a 512-unit buffer: impossible while the whole result is shorter than that (the serialized form is
    # at most about 3x the text for the escapes that can occur), so short results with characters outside the BMP ARE judged
    ('F-C08-html-astral-split', lambda tree, opts, method, enc, indent, nonascii: method in ('html', 'text') and any(ord(ch) > 0xFFFF for _, t in gen_tree.all_strings(tree) for ch in t)
     and sum(len(t) + 8 for _, t in gen_tree.all_strings(tree)) > 150),
    ('F-C04-cdata-cr', lambda tree, opts, method, enc, indent, nonascii: method == 'xml' and opts['output'].get('cdata-section-elements') and
     _text_has(tree, lambda cp: cp == 13 or (opts['output'].get('version') == '1.1' and cp in (0x85, 0x2028)))),
    ('F-C08-indent-mixed-content', lambda tree, opts, method, enc, indent, nonascii: indent and method in ('xml', 'html') and mixed(tree)),
    ('F-C04-pi-comment-unencodable', lambda tree, opts, method, enc, indent, nonascii: method in ('xml', 'html') and enc not in ('UTF-8', 'UTF-16') and _nonascii_in(tree, ('c', 'p'))),
    # (finding id, predicate(tree, opts, method, enc, indent, nonascii))
    ('F-C08-double-bom', lambda tree, opts, method, enc, indent, nonascii: method == 'html' and not opts['output'].get('method') and enc == 'UTF-16'),
]


def signature(case, detail):
    if 'crash' in detail:
        return 'crash:%s' % detail['crash']
    # the last-but-one field lists the open-finding triggers present on the failing side: a finding's signature requires its own trigger
    sig = '%s|%s|%s|%s' % (detail['what'], detail.get('method'), 'indent' if detail.get('indent') else '', ','.join(detail.get('trig', [])))
    if detail['what'] == 'transformation-failed':
        sig += '|' + re.split(r'[:\s]', detail.get('err', '') or '?')[0]
    return sig
