"""C09 - a node matches a pattern exactly when the pattern, as an expression, selects it."""
import re

from hypothesis import strategies as st

from .. import gen_xml, gen_xpath, model, ref_xpath, xpcase

ID = 'C09'
LEVEL = 'exploration'
RULE = ('Hypothesis draws a pattern from the XSLT 1.0 section 5.2 grammar (1-3 alternatives; heads "", /, //, id(lit); 1-3 steps over child/attribute '
        'axes with every node test and 0-2 predicates incl. position()/last()/numeric; steps joined by / or //) and a document. For EVERY node of the '
        'document (root, elements, text, comments, PIs, attributes, namespace-declaration attributes) three routes are compared: XPath::getMatchScore '
        '!= none on the compiled pattern (the right-to-left matcher), the Python reference applying the defining relation literally (exists '
        'ancestor-or-self A such that evaluating the pattern as an expression from A selects the node), and Xalan\'s own forward evaluator on the '
        'defining expression (used to attribute a disagreement). Non-trivial: >= 2 steps or a predicate, and the pattern matches a non-empty proper '
        'subset of the nodes. distinct = distinct (pattern, document).')
ASSUMPTIONS = ['vf.ref_xpath pattern_matches implements the defining relation literally (slow, obviously right)',
               'order of attributes of one element is never observed (no positional predicate on a multi-attribute step)']

_loaded = []


def load_flags(ctx):
    if _loaded:
        return
    _loaded.append(1)
    for pid in ('C02', 'C09'):
        for e in ctx.findings.open_for(pid):
            for f in e.get('exclusion_flags', []):
                gen_xpath.FLAGS.add(f)


def budget(tier):
    if tier == 'quick':
        return dict(workers=14, examples=2500, wall=160)
    return dict(workers=14, examples=60000, wall=1700)


@st.composite
def cases(draw):
    p = draw(gen_xpath.patterns(1))
    xml = draw(gen_xml.documents(max_nodes=30, astral=False))
    return {'xml': xml, 'pattern': p['pattern'], 'ntok': p['ntok'], 'docform': draw(st.sampled_from(['native', 'native', 'xerces']))}


def strategy(ctx):
    load_flags(ctx)
    return cases()


def split_alternatives(p):
    """-> [[(separator, step text), ...] per top-level alternative]; separator of the first step is '', '/' or '//'"""
    alts = [[]]
    depth = 0
    quote = None
    sep = ''
    cur = ''
    i = 0
    started = False

    def flush():
        nonlocal cur, sep, started
        if cur.strip() or sep:
            alts[-1].append((sep, cur.strip()))
        cur = ''
        sep = ''
    while i < len(p):
        ch = p[i]
        if quote:
            cur += ch
            if ch == quote:
                quote = None
        elif ch in '"\'':
            quote = ch
            cur += ch
        elif ch in '[(':
            depth += 1
            cur += ch
        elif ch in '])':
            depth -= 1
            cur += ch
        elif depth == 0 and ch == '|':
            flush()
            alts.append([])
        elif depth == 0 and ch == '/':
            if cur.strip() or sep:
                flush()
            if p[i:i + 2] == '//':
                sep = '//'
                i += 1
            else:
                sep = '/'
        else:
            cur += ch
        i += 1
    flush()
    return alts


def dslash_shapes(p):
    """the three shapes of '//' inside a pattern that open findings are about (mirrors the generator flags of the same names)"""
    f = set()
    for alt in split_alternatives(p):
        if not alt:
            continue
        head_sep, head = alt[0]
        headkind = '/' if head_sep == '/' else '//' if head_sep == '//' else ('id' if re.match(r'(id|key)\s*\(', head) else '')
        for i in range(1, len(alt)):
            if alt[i][0] != '//':
                continue
            prev = alt[i - 1][1]
            if re.search(r'(?<![\w-])node\s*\(', re.sub(r'\[.*', '', prev)) and not re.match(r'\s*(@|attribute\s*::)', prev):
                f.add('node-before-dslash')
            if headkind == '/':
                f.add('abs-inner-dslash')
            if i >= 2 or headkind in ('id', '//'):
                f.add('multi-before-dslash')
    return f


def _attr_positional_ast(p):
    """an attribute step of the pattern carries a predicate that depends on the context position / size (uses position() or last(), or
    is number-valued: [string-length('x')] means [position() = 1])"""
    try:
        ast = ref_xpath.parse_pattern(p)
    except Exception:
        return False

    def uses_pos(a):
        if not isinstance(a, tuple):
            return False
        if a and a[0] == 'fn' and a[1] is None and a[2] in ('position', 'last'):
            return True
        return any(uses_pos(x) for x in a if isinstance(x, tuple))

    def walk(a, top=True):
        if not isinstance(a, tuple):
            return False
        if a and a[0] == 'step' and a[1] == 'attribute' and top:
            for pred in a[3]:
                if gen_xpath.numeric_valued(pred) or uses_pos(pred):
                    return True
        # only the steps of the pattern itself, not paths inside predicates
        if a and a[0] == 'step':
            return False
        return any(walk(x, top) for x in a if isinstance(x, tuple))
    return walk(ast)


def pat_features(p):
    f = set()
    if re.search(r'(@|attribute\s*::)', p):
        f.add('attr-step')
    if re.search(r'(@|attribute\s*::)\s*(node|text|comment|processing-instruction)\s*\(', p):
        f.add('attr-type-test')
    if re.search(r'(@|attribute\s*::)[^/|]*\[[^\]]*(position|last|\[\s*\d)', p) or re.search(r'(@|attribute\s*::)\s*[\w:*-]+\s*\[\s*\d', p) or _attr_positional_ast(p):
        f.add('attr-positional')
    if '//' in p:
        f.add('dslash')
    f |= dslash_shapes(p)
    if re.search(r'\bid\s*\(', p):
        f.add('id')
    if re.search(r'position|last|\[\s*[\d.]', p):
        f.add('positional')
    if '|' in p:
        f.add('union')
    if re.search(r'\[', p):
        f.add('pred')
    if re.search(r'(^|\|)\s*/\s*(\||$)', p):
        f.add('root')
    for t in ('text', 'comment', 'processing-instruction', 'node'):
        if re.search(r'(?<![\w-])%s\s*\(' % t, p):
            f.add(t + '()')
    return f


def check(ctx, case):
    load_flags(ctx)
    pat = case['pattern']
    try:
        doc = model.parse_document(case['xml'])
    except ValueError:
        return None
    form = case.get('docform', 'native')
    if form == 'xerces' and ('<![CDATA[' in case['xml'] or '<!DOCTYPE' in case['xml']):
        form = 'native'
    try:
        past = ref_xpath.parse_pattern(pat)
    except ref_xpath.XPathSyntaxError:
        ctx.counters['generator:not-a-pattern'] += 1
        return None
    rctx = ref_xpath.Context(doc.root, 1, 1, {}, dict(xpcase.NSMAP), {})
    nodes = doc.nodes(attrs=True, ns=False)
    try:
        ref = {n.key for n in nodes if ref_xpath.pattern_matches(past, n, rctx.derive(n))}
    except (ref_xpath.XPathStaticError, ref_xpath.XPathDynamicError):
        ctx.counters['ref:error'] += 1
        return None
    feats = pat_features(pat)
    nontrivial = ('pred' in feats or re.search(r'[^|/]\s*/', pat) is not None) and 0 < len(ref) < len(nodes)
    ctx.note({'x': case['xml'], 'p': pat}, nontrivial, ['form:' + form, 'matches:%s' % ('none' if not ref else 'all' if len(ref) == len(nodes) else 'some')] + sorted('f:' + f for f in feats),
             sample_text={'pattern': pat, 'xml': case['xml'][:200], 'matches': sorted(ref)[:8]})
    fields = [('ns', '%s=%s' % kv) for kv in xpcase.NSMAP.items()]
    from ..drv import DriverCrash, crash_signature
    kw = dict(doc=case['xml'].encode('utf-8'), pattern=pat, defexpr=1, docform=form, callerlists=1)
    try:
        r = ctx.drv.call('match', fields, **kw)
    except DriverCrash as e:
        kf = ctx.findings.match_any('crash:' + crash_signature(e.stderr))
        if kf is None or kf.get('fallback') != 'ndebug':
            raise
        ctx.known_seen[kf['id']] += 1
        ctx.counters['fallback:ndebug'] += 1
        r = ctx.drv_flavor('ndebug').call('match', fields, **kw)
    if r.has('fatal') or r.has('doc.err'):
        raise RuntimeError('harness: %r' % r.fields[:3])
    if not r.has('compile.ok'):
        return {'what': 'rejects-valid-pattern', 'pattern': pat, 'err': r.gets('compile.errmsg'), 'feats': sorted(feats)}
    if r.has('m.err'):
        return {'what': 'error-matching', 'pattern': pat, 'err': r.gets('m.errmsg'), 'node': r.gets('m.node'), 'feats': sorted(feats)}
    got = set()
    nsattr = set()
    for v in r.all('m'):
        k = v.decode('utf-8', 'surrogatepass').split('\t')[0]
        if '/ns:' in k:
            nsattr.add(k)
        else:
            got.add(k)
    evaluator = None
    if r.gets('d') is not None and not r.has('d.err'):
        evaluator = {k for k in r.gets('d').split('\n') if k and '/ns:' not in k}
    for key, name in (('ma', 'all-nodes'), ('ms', 'singleton')):
        if r.has(key + '.err'):
            return {'what': 'error-matching', 'pattern': pat, 'err': r.gets(key + '.errmsg'), 'feats': sorted(feats), 'callerlist': name}
        other = {v.decode('utf-8', 'surrogatepass') for v in r.all(key)}
        other = {k for k in other if '/ns:' not in k}
        if other != got:
            return {'what': 'match-depends-on-callers-node-list', 'pattern': pat, 'callerlist': name, 'only-with-it': sorted(other - got)[:6], 'only-without': sorted(got - other)[:6],
                    'feats': sorted(feats), 'form': form, 'dir': name, 'kinds': []}
    if nsattr:
        return {'what': 'matches-namespace-declaration', 'pattern': pat, 'nodes': sorted(nsattr)[:5], 'feats': sorted(feats), 'form': form}
    if got != ref:
        extra = sorted(got - ref)
        missing = sorted(ref - got)
        kinds = sorted({doc.by_key(k).kind for k in extra + missing if doc.by_key(k) is not None})
        return {'what': 'matcher-disagrees', 'pattern': pat, 'extra': extra[:6], 'missing': missing[:6], 'kinds': kinds,
                'evaluator_agrees_with_reference': None if evaluator is None else evaluator == ref,
                'dir': ('extra' if extra else '') + ('missing' if missing else ''), 'feats': sorted(feats), 'form': form}
    return None


def signature(case, detail):
    if 'crash' in detail:
        return 'crash:%s' % detail['crash']
    return '%s|%s|%s|%s' % (detail['what'], detail.get('dir', ''), '+'.join(detail.get('kinds', [])), '+'.join(detail.get('feats', [])))
