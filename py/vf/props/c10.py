"""C10 - template conflict resolution: import precedence, then priority, then last."""
import re

from hypothesis import strategies as st

from .. import gen_xml, gen_xpath, model, ref_xpath

ID = 'C10'
LEVEL = 'exploration'
RULE = ('Hypothesis draws 2-10 template rules over <= 3 modes whose patterns are chosen to overlap (names, *, prefix:*, node(), text(), @*, unions whose '
        'alternatives have different default priorities, predicates, generated 5.2 patterns), explicit priorities from a small set with ties, spread over an '
        'import tree of depth <= 3 with an included module; some rules call xsl:apply-imports; every rule writes (its id, the node id) and applies templates '
        'to attributes and children in a generated mode. Oracle: the winner per XSLT 5.5 computed in Python (matching by the reference\'s definition of '
        'patterns, import precedence from the tree, default priority per alternative, last in document order on ties, built-in rule otherwise; apply-imports '
        'restricted to the modules imported by the current rule\'s module), replayed as an interpreter that predicts the whole marker stream. Run through '
        'XalanTransformer (quiet conflict mode) and, where the driver offers it, the XSLTEngineImpl pipeline with conflict reporting on. '
        'Non-trivial: >= 2 rules match some processed node and differ in precedence or priority. distinct = case text.')
ASSUMPTIONS = ['vf.ref_xpath pattern_matches / pattern_alternatives (default priorities)', 'the 60-line interpreter below for 5.5 / 5.6 / 5.8 (built-in rules)']

XSL = 'http://www.w3.org/1999/XSL/Transform'
NS = {'p': 'urn:p', 'q': 'urn:q'}
PATS = ['a', 'b', '*', '*', 'p:*', 'node()', 'text()', '@*', '@i', 'a|b', '*[@i]', 'a/b', '*/a', 'a[1]', 'text()|*', '/', 'comment()|processing-instruction()',
        '@*|node()', 'a|*', 'p:a|p:*', 'b|node()', '*[*]', 'a[@j]|b', '@i|@*', '*/*', 'a//b', 'c', 'd', 'text()[1]', 'node()|@*', 'processing-instruction()',
        "processing-instruction('pi')", 'comment()', '*[not(*)]', 'q:*|a']
PRIOS = [None, None, None, '-1', '-0.5', '-0.25', '0', '0.5', '1', '0.25', '2']
MODES = [None, None, 'm1', 'm2', 'p:m1', 'q:m1']   # a mode is a QName: p:m1, q:m1 and m1 are three different modes
FLAGS = set()
_loaded = []


def load_flags(ctx):
    if _loaded:
        return
    _loaded.append(1)
    for pid in ('C02', 'C09', 'C10'):
        for e in ctx.findings.open_for(pid):
            for f in e.get('exclusion_flags', []):
                FLAGS.add(f)
                gen_xpath.FLAGS.add(f)


def budget(tier):
    if tier == 'quick':
        return dict(workers=14, examples=1500, wall=170)
    return dict(workers=14, examples=40000, wall=1700)


@st.composite
def cases(draw):
    xml = draw(gen_xml.documents(max_nodes=25, ids=False, astral=False, cdata=False))
    # modules: 0 = main; parent pointers give the import tree; 'inc' modules are included into their parent
    nmod = draw(st.integers(1, 5))
    modules = [{'parent': None, 'kind': 'main'}]
    for i in range(1, nmod):
        parent = draw(st.integers(0, i - 1))
        while modules[parent]['kind'] == 'inc':
            parent = modules[parent]['parent']
        depth = 0
        p = parent
        while p is not None:
            depth += 1
            p = modules[p]['parent']
        kind = draw(st.sampled_from(['imp', 'imp', 'inc']))
        if depth >= 3:
            kind = 'inc'
        modules.append({'parent': parent, 'kind': kind})
    templates = []
    for tid in range(draw(st.integers(2, 10))):
        pat = draw(st.sampled_from(PATS)) if draw(st.integers(0, 4)) else draw(gen_xpath.patterns(0))['pattern']
        mod = draw(st.integers(0, nmod - 1))
        templates.append({'id': tid, 'match': pat, 'priority': draw(st.sampled_from(PRIOS)), 'mode': draw(st.sampled_from(MODES)), 'module': mod,
                          'next_mode': draw(st.sampled_from(MODES + ['same', 'same', 'same'])),
                          'apply_imports': draw(st.integers(0, 3)) == 0 and modules[mod]['kind'] != 'inc'})
    return {'xml': xml, 'modules': modules, 'templates': templates}


def strategy(ctx):
    load_flags(ctx)
    return cases()


# ------------------------------------------------------------------------------------------ stylesheet text
NODEID = ("concat(count(ancestor::node()) + count(preceding::node()), "
          "substring(concat('@', name()), 1, 100 * number(count(../@*[count(.|current()) = 1]) &gt; 0)))")


def esc(s):
    return s.replace('&', '&amp;').replace('<', '&lt;').replace('"', '&quot;')


def module_texts(case):
    mods = case['modules']
    texts = {}
    for mi, m in enumerate(mods):
        parts = ['<xsl:stylesheet version="1.0" xmlns:xsl="%s" xmlns:p="urn:p" xmlns:q="urn:q">' % XSL]
        for ci, c in enumerate(mods):
            if c['parent'] == mi and c['kind'] == 'imp':
                parts.append('<xsl:import href="m%d.xsl"/>' % ci)
        if mi == 0:
            parts.append('<xsl:output method="text"/>')
        # includes first or last?  put them in between the templates: position matters for "last wins"
        own = [t for t in case['templates'] if t['module'] == mi]
        incs = [ci for ci, c in enumerate(mods) if c['parent'] == mi and c['kind'] == 'inc']
        half = len(own) // 2
        for t in own[:half]:
            parts.append(template_text(t))
        for ci in incs:
            parts.append('<xsl:include href="m%d.xsl"/>' % ci)
        for t in own[half:]:
            parts.append(template_text(t))
        parts.append('</xsl:stylesheet>')
        texts[mi] = ''.join(parts)
    return texts


def template_text(t):
    attrs = ' match="%s"' % esc(t['match'])
    if t['priority'] is not None:
        attrs += ' priority="%s"' % t['priority']
    if t['mode']:
        attrs += ' mode="%s"' % t['mode']
    nm = t['mode'] if t['next_mode'] == 'same' else t['next_mode']
    body = '[%d:<xsl:value-of select="%s"/>' % (t['id'], NODEID)
    if t['apply_imports']:
        body += '{<xsl:apply-imports/>}'
    body += '<xsl:apply-templates select="@*|node()"%s/>]' % (' mode="%s"' % nm if nm else '')
    return '<xsl:template%s>%s</xsl:template>' % (attrs, body)


# ------------------------------------------------------------------------------------------ XSLT 5.5 in Python
class Rules(object):
    def __init__(self, case):
        mods = case['modules']
        self.mods = mods
        # import precedence: post-order over the import tree, children in order of their import elements; an included
        # module has the precedence of the module that includes it
        self.prec = {}
        counter = [0]

        def visit(mi):
            for ci, c in enumerate(mods):
                if c['parent'] == mi and c['kind'] == 'imp':
                    visit(ci)
            self.prec[mi] = counter[0]
            counter[0] += 1
        visit(0)
        for mi, m in enumerate(mods):
            if m['kind'] == 'inc':
                self.prec[mi] = None
        for mi, m in enumerate(mods):
            if m['kind'] == 'inc':
                p = m['parent']
                while mods[p]['kind'] == 'inc':
                    p = mods[p]['parent']
                self.prec[mi] = self.prec[p]
        # document position after include expansion (same layout as module_texts)
        self.pos = {}
        order = [0]

        def layout(mi):
            own = [t for t in case['templates'] if t['module'] == mi]
            half = len(own) // 2
            for t in own[:half]:
                self.pos[t['id']] = order[0]
                order[0] += 1
            for ci, c in enumerate(mods):
                if c['parent'] == mi and c['kind'] == 'inc':
                    layout(ci)
            for t in own[half:]:
                self.pos[t['id']] = order[0]
                order[0] += 1
        for mi, m in enumerate(mods):
            if m['kind'] != 'inc':
                layout(mi)
        self.union_risk = False
        self.rules = []
        for t in case['templates']:
            past = ref_xpath.parse_pattern(t['match'])
            alts = ref_xpath.pattern_alternatives(past)
            self.rules.append((t, [(a, float(t['priority']) if t['priority'] is not None else dp) for a, dp in alts]))

    def imported_into(self, mi):
        """modules whose rules were imported into module mi (transitively), incl. what they include"""
        out = set()

        def add(m):
            for ci, c in enumerate(self.mods):
                if c['parent'] == m:
                    if c['kind'] == 'imp' or m != mi or True:
                        pass
            return
        stack = [ci for ci, c in enumerate(self.mods) if c['parent'] == mi and c['kind'] == 'imp']
        # imports reached through modules included by mi also count as imported into mi's stylesheet element? No: an include
        # is textual, but our included modules contain no imports.
        while stack:
            m = stack.pop()
            if m in out:
                continue
            out.add(m)
            stack += [ci for ci, c in enumerate(self.mods) if c['parent'] == m]
        return out

    def find(self, node, mode, restrict=None):
        best = None
        nmatch = []
        for t, alts in self.rules:
            if (t['mode'] or None) != (mode or None):
                continue
            if restrict is not None and t['module'] not in restrict:
                continue
            bp = None
            unmatched_max = None
            for a, prio in alts:
                if ref_xpath.pattern_matches(a, node, ref_xpath.Context(node, 1, 1, {}, NS, {})):
                    bp = prio if bp is None or prio > bp else bp
                else:
                    unmatched_max = prio if unmatched_max is None or prio > unmatched_max else unmatched_max
            if bp is None:
                continue
            if unmatched_max is not None and unmatched_max > bp:
                # known finding F-C10-union-alt-priority: Xalan may credit the template with the priority of an
                # alternative that does not match this node
                self.union_risk = True
            rank = (self.prec[t['module']], bp, self.pos[t['id']])
            nmatch.append(rank[:2])
            if best is None or rank > best[0]:
                best = (rank, t)
        return (best[1] if best else None), nmatch


def node_id(n, doc):
    nodes = doc.nodes(attrs=False)
    if n.kind == 'attribute':
        return '%d@%s' % (nodes.index(n.parent) + 1, n.qname)   # ancestors of an attribute include its owner
    return str(nodes.index(n))


def simulate(case, doc, rules, stats):
    out = []

    def process(node, mode):
        t, nm = rules.find(node, mode)
        if len(set(nm)) >= 2:
            stats['conflict'] = True
        if t is None:
            builtin(node, mode)
            return
        run(t, node, mode)

    def builtin(node, mode):
        if node.kind in ('root', 'element'):
            for c in node.children:
                process(c, mode)
        elif node.kind in ('text', 'attribute'):
            out.append(node.value)

    def run(t, node, mode):
        out.append('[%d:%s' % (t['id'], node_id(node, doc)))
        if t['apply_imports']:
            out.append('{')
            t2, _ = rules.find(node, mode, rules.imported_into(t['module']))
            stats['apply_imports'] = True
            if t2 is None:
                builtin(node, mode)
            else:
                run(t2, node, mode)
            out.append('}')
        nm = t['mode'] if t['next_mode'] == 'same' else t['next_mode']
        if node.kind in ('root', 'element'):
            for a in sorted(node.attributes, key=lambda x: x.order):
                process(a, nm)
            for c in node.children:
                process(c, nm)
        out.append(']')
    process(doc.root, None)
    return ''.join(out)


def check(ctx, case):
    load_flags(ctx)
    try:
        doc = model.parse_document(case['xml'])
        rules = Rules(case)
    except (ValueError, ref_xpath.XPathSyntaxError):
        return None
    stats = {}
    try:
        exp = simulate(case, doc, rules, stats)
    except (ref_xpath.XPathStaticError, ref_xpath.XPathDynamicError, RecursionError):
        ctx.counters['ref:error'] += 1
        return None
    if rules.union_risk and 'union_alt_priority_unjudged' in FLAGS and ctx.tier != 'replay':
        ctx.excluded['union_alt_priority_unjudged'] += 1
        return None
    texts = module_texts(case)
    res = [('res', 'm%d.xsl\0%s' % (i, t)) for i, t in texts.items() if i != 0]
    ctx.note(case, bool(stats.get('conflict')), ['modules:%d' % len(case['modules'])] + (['conflict'] if stats.get('conflict') else []) +
             (['apply-imports'] if stats.get('apply_imports') else []) + (['include'] if any(m['kind'] == 'inc' for m in case['modules']) else []),
             sample_text={'templates': case['templates'][:5], 'modules': case['modules'], 'xml': case['xml'][:150]})
    multi_attr = any(len(e.attributes) > 1 for e in doc.nodes(attrs=False) if e.kind == 'element')
    for mode in ('transformer', 'engine+conflict-reporting'):
        if mode == 'transformer':
            r = ctx.drv.call('transform', res, xsl=texts[0].encode('utf-8'), xml=case['xml'].encode('utf-8'))
        else:
            r = ctx.drv.call('lowlevel', res, xsl=texts[0].encode('utf-8'), xml=case['xml'].encode('utf-8'), quietconflicts=0)
        if r.gets('rc') != '0':
            return {'what': 'transformation-failed', 'err': (r.gets('err') or '')[:300], 'via': mode}
        got = (r.get('out') or b'').decode('utf-8')
        if got != exp:
            if multi_attr and sorted(re.findall(r'\[[^\[\]{}]*', got)) == sorted(re.findall(r'\[[^\[\]{}]*', exp)) and len(got) == len(exp):
                ctx.counters['attribute-order-only'] += 1   # the order in which the attributes of one element are processed is implementation-dependent
                continue
            i = 0
            while i < min(len(got), len(exp)) and got[i] == exp[i]:
                i += 1
            return {'what': 'wrong-template', 'via': mode, 'at': i, 'expected': exp[max(0, i - 40):i + 60], 'got': got[max(0, i - 40):i + 60],
                    'apply_imports': bool(stats.get('apply_imports')), 'union_risk': rules.union_risk, 'templates': case['templates'], 'modules': case['modules']}
    return None


def signature(case, detail):
    if 'crash' in detail:
        return 'crash:%s' % detail['crash']
    return '%s|%s|%s|%s' % (detail['what'], detail.get('via'), 'apply-imports' if detail.get('apply_imports') else '', 'union-risk' if detail.get('union_risk') else '')
