"""C11 - an expression has one value, whichever way the caller asks for it."""
import re

from hypothesis import strategies as st

from .. import gen_xml, gen_xpath, xpcase
from ..xpcase import Prepared, same_num, unbits, expr_features

ID = 'C11'
LEVEL = 'exploration'
RULE = ('Hypothesis draws (document, context node + list, variable bindings) and an expression whose TOP-LEVEL operation is chosen from the '
        '%d operations of the op-code interpreter (all binary/unary operators, union, literal, variables of 4 types, group, number, relative/'
        'absolute path, filter, each core function incl. zero-argument forms, extension call). The six public XPath::execute overloads are called '
        'on the same compiled expression and context. Oracle (no model): bool overload = G->boolean(), double = G->num() bit-for-bit, string = '
        'G->str() (all three str() forms and stringLength), character events = G->str(), node-list overload = G->nodeset() as the same sequence; '
        'errors must coincide. In a third of these cases 1-3 prior expressions are evaluated, converted and released on the same execution context '
        'first (recycled objects). A quarter of all cases are XSLT consumer cases: one expression E is placed in xsl:if/xsl:when test, xsl:value-of, an '
        'AVT, text and number sort keys, xsl:number value, a numeric function argument, a variable and a with-param, for-each/apply-templates/copy-of '
        'select, each next to the same consumer fed boolean(E) / string(E) / number(E) / a variable bound to E, for every node of a drawn context '
        'selection, under a drawn xsl:strip-space; both members of each pair must serialize identically. Non-trivial: every XPath-level case (the '
        'matrix cell top-op x overload is reported; all cells must be > 0); an XSLT case when >= 1 context node was processed. '
        'distinct = distinct (expression, document, context).' % len(gen_xpath.TOP_OPS))
ASSUMPTIONS = ['the generic XObjectPtr result with the standard conversions is the definition (C02 checks that value against the Recommendation)']

_loaded = []


def load_flags(ctx):
    if _loaded:
        return
    _loaded.append(1)
    for pid in ('C02', 'C11'):
        for e in ctx.findings.open_for(pid):
            for f in e.get('exclusion_flags', []):
                gen_xpath.FLAGS.add(f)


def budget(tier):
    if tier == 'quick':
        return dict(workers=14, examples=3000, wall=160)
    return dict(workers=14, examples=80000, wall=1700)


@st.composite
def cases(draw):
    op = draw(st.sampled_from(gen_xpath.TOP_OPS))
    e = draw(gen_xpath.top_expression(op))
    xml = draw(gen_xml.documents(astral='no_astral_strings' not in gen_xpath.FLAGS))
    return {'xml': xml, 'expr': e['expr'], 'op': op, 'ntok': e['ntok'], 'ctx': draw(st.integers(0, 80)),
            'ctxlist': draw(st.one_of(st.just([]), st.lists(st.integers(0, 80), max_size=4))),
            'vars': draw(gen_xpath.bindings()), 'docform': draw(st.sampled_from(['native', 'native', 'xerces'])), 'prior': draw(xpcase.priors())}


@st.composite
def xslt_cases(draw):
    """the 'Consequently ...' clause: the same expression placed in every kind of XSLT consumer"""
    k = draw(st.sampled_from(['ns', 'ns', 'num', 'str', 'bool']))
    e = draw(gen_xpath.expressions(2, k))
    strip = draw(st.sampled_from([None, None, '*', 'a b', 'p:*']))
    xml = draw(gen_xml.documents(astral=False, max_nodes=25, ws_rich=strip is not None))
    return {'mode': 'xslt', 'xml': xml, 'expr': e['expr'], 'kind': k, 'ntok': e['ntok'], 'strip': strip,
            'ctxsel': draw(st.sampled_from(['/', '/*', '//*', '//node()', '//@*', '//*[last()]', '(//node()|//@*)[position() mod 3 = 1]', '//text()'])),
            'vars': draw(gen_xpath.bindings())}


def strategy(ctx):
    load_flags(ctx)
    return st.one_of(cases(), cases(), cases(), xslt_cases())


XSL = 'http://www.w3.org/1999/XSL/Transform'


def _num_literal(x):
    if x != x:
        return '(0 div 0)'
    if x in (float('inf'), float('-inf')):
        return '(1 div 0)' if x > 0 else '(-1 div 0)'
    if x == 0 and str(x).startswith('-'):
        return '(-0)'
    return ('%.10f' % x).rstrip('0').rstrip('.') if abs(x) < 1e15 else '%d' % x


def _nodeset_select(idx):
    if not idx:
        return '/..'
    return '(//node()|//@*)[%s]' % ' or '.join('position()=%d' % (i % 40 + 1) for i in idx)


def xslt_stylesheet(case):
    """every consumer of the expression E next to the same consumer fed with the explicit conversion of E.  Pairs:
    if / when: E vs boolean(E); value-of, AVT: E vs string(E); xsl:number value, numeric function argument, number sort key:
    E vs number(E); text sort key: E vs string(E); a variable bound to E observed in each way vs the conversions of E;
    for a node-set E: for-each select=E (node-list overload) vs for-each over a variable bound to E."""
    E = case['expr']
    esc = E.replace('&', '&amp;').replace('<', '&lt;').replace('"', '&quot;').replace('\n', '&#10;').replace('\t', '&#9;')
    v = case['vars']
    decl = []
    for n in ('n1', 'n2'):
        decl.append('<xsl:variable name="%s" select="%s"/>' % (n, _num_literal(float(v[n]))))
    for n in ('s1', 's2'):
        decl.append('<xsl:variable name="%s" select="\'%s\'"/>' % (n, v[n]))
    decl.append('<xsl:variable name="b1" select="%s"/>' % ('true()' if v['b1'] else 'false()'))
    decl.append('<xsl:variable name="ns1" select="%s"/>' % _nodeset_select(v['ns1']))
    decl.append('<xsl:variable name="ns2" select="%s"/>' % _nodeset_select(v['ns2']))
    decl.append('<xsl:variable name="ns3" select="%s"/>' % ('$ns1' if v['ns3'] is None else '/..'))
    nsd = ' '.join('xmlns:%s="%s"' % kv for kv in xpcase.NSMAP.items())

    def pair(k, a, b):
        return '<p k="%s"><a>%s</a><b>%s</b></p>' % (k, a, b)
    body = [
        pair('if', '<xsl:if test="%s">T</xsl:if>' % esc, '<xsl:if test="boolean(%s)">T</xsl:if>' % esc),
        pair('when', '<xsl:choose><xsl:when test="%s">T</xsl:when><xsl:otherwise>F</xsl:otherwise></xsl:choose>' % esc,
             '<xsl:choose><xsl:when test="boolean(%s)">T</xsl:when><xsl:otherwise>F</xsl:otherwise></xsl:choose>' % esc),
        pair('value-of', '<xsl:value-of select="%s"/>' % esc, '<xsl:value-of select="string(%s)"/>' % esc),
        pair('var-string', '<xsl:variable name="v" select="%s"/><xsl:value-of select="$v"/>' % esc, '<xsl:value-of select="string(%s)"/>' % esc),
        # xsl:value-of streams the string-value as character events (also for string(E): the function hands the events on); a variable
        # bound to string(E) holds the string computed by the generic evaluation
        pair('value-of-vs-string-variable', '<xsl:value-of select="%s"/>' % esc, '<xsl:variable name="s" select="string(%s)"/><xsl:value-of select="$s"/>' % esc),
        # ... and string(E) itself streams events into a string; an argument of concat() is converted by the string form of the conversion
        pair('value-of-vs-concat', '<xsl:value-of select="%s"/>' % esc, '<xsl:value-of select="concat(%s, \'\')"/>' % esc),
        pair('string-length', '<xsl:value-of select="string-length(%s)"/>' % esc, '<xsl:variable name="s" select="string(%s)"/><xsl:value-of select="string-length($s)"/>' % esc),
        pair('var-boolean', '<xsl:variable name="v" select="%s"/><xsl:if test="$v">T</xsl:if>' % esc, '<xsl:if test="boolean(%s)">T</xsl:if>' % esc),
        pair('var-number', '<xsl:variable name="v" select="%s"/><xsl:value-of select="$v + 0"/>' % esc, '<xsl:value-of select="number(%s) + 0"/>' % esc),
        pair('with-param', '<xsl:call-template name="show"><xsl:with-param name="x" select="%s"/></xsl:call-template>' % esc,
             '<xsl:value-of select="string(%s)"/>|<xsl:value-of select="boolean(%s)"/>|<xsl:value-of select="number(%s)"/>' % (esc, esc, esc)),
        pair('numeric-arg', '<xsl:value-of select="substring(\'abcdefghijklmnopqrstuvwxyz\', %s, 2)"/>' % esc,
             '<xsl:value-of select="substring(\'abcdefghijklmnopqrstuvwxyz\', number(%s), 2)"/>' % esc),
        pair('sort-text', '<xsl:for-each select="//*"><xsl:sort select="%s"/><xsl:value-of select="generate-id()"/>,</xsl:for-each>' % esc,
             '<xsl:for-each select="//*"><xsl:sort select="string(%s)"/><xsl:value-of select="generate-id()"/>,</xsl:for-each>' % esc),
        pair('sort-number', '<xsl:for-each select="//*"><xsl:sort select="%s" data-type="number"/><xsl:value-of select="generate-id()"/>,</xsl:for-each>' % esc,
             '<xsl:for-each select="//*"><xsl:sort select="number(%s)" data-type="number"/><xsl:value-of select="generate-id()"/>,</xsl:for-each>' % esc),
    ]
    if '{' not in E and '}' not in E:
        body.append('<p k="avt"><a><x v="{%s}"/></a><b><x v="{string(%s)}"/></b></p>' % (esc, esc))
    if case['kind'] == 'ns':
        body.append(pair('for-each', '<xsl:for-each select="%s"><xsl:value-of select="generate-id()"/>,</xsl:for-each>' % esc,
                         '<xsl:variable name="v" select="%s"/><xsl:for-each select="$v"><xsl:value-of select="generate-id()"/>,</xsl:for-each>' % esc))
        body.append(pair('apply-templates', '<xsl:apply-templates select="%s" mode="id"/>' % esc,
                         '<xsl:variable name="v" select="%s"/><xsl:apply-templates select="$v" mode="id"/>' % esc))
        body.append(pair('copy-of', '<xsl:variable name="c"><xsl:copy-of select="%s"/></xsl:variable><xsl:value-of select="string($c)"/>' % esc,
                         '<xsl:variable name="v" select="%s"/><xsl:variable name="c"><xsl:copy-of select="$v"/></xsl:variable><xsl:value-of select="string($c)"/>' % esc))
    # xsl:number value= is last: a value it cannot format ends the transformation in some configurations
    num = pair('number-value', '<xsl:number value="%s"/>' % esc, '<xsl:number value="number(%s)"/>' % esc)
    return ('<xsl:stylesheet version="1.0" xmlns:xsl="%s" %s exclude-result-prefixes="%s">' % (XSL, nsd, ' '.join(xpcase.NSMAP)) +
            '<xsl:output method="xml" omit-xml-declaration="yes"/>' + ('<xsl:strip-space elements="%s"/>' % case['strip'] if case.get('strip') else '') +
            ''.join(decl) +
            '<xsl:template name="show"><xsl:param name="x"/><xsl:value-of select="$x"/>|<xsl:value-of select="boolean($x)"/>|<xsl:value-of select="number($x)"/></xsl:template>'
            '<xsl:template match="node()|@*" mode="id"><xsl:value-of select="generate-id()"/>,</xsl:template>'
            '<xsl:template match="/"><o><xsl:for-each select="%s"><c>%s%s</c></xsl:for-each></o></xsl:template></xsl:stylesheet>'
            % (case['ctxsel'], ''.join(body), num))


def check_xslt(ctx, case):
    xsl = xslt_stylesheet(case)
    from ..drv import DriverCrash, crash_signature
    try:
        r = ctx.drv.call('transform', xsl=xsl.encode('utf-8'), xml=case['xml'].encode('utf-8'))
    except DriverCrash as e:
        # a recorded Debug-configuration assertion (fallback: ndebug) is answered by the NDEBUG sanitizer build (DESIGN 2.7 point 6)
        kf = ctx.findings.match_any('crash:' + crash_signature(e.stderr))
        if kf is None or kf.get('fallback') != 'ndebug':
            raise
        ctx.known_seen[kf['id']] += 1
        ctx.counters['fallback:ndebug'] += 1
        r = ctx.drv_flavor('ndebug').call('transform', xsl=xsl.encode('utf-8'), xml=case['xml'].encode('utf-8'))
    if r.gets('rc') != '0':
        ctx.counters['xslt:transformation-fails'] += 1
        ctx.note({'x': case['xml'], 'e': case['expr'], 'm': 'xslt', 's': case['ctxsel']}, False, ['mode:xslt', 'xslt:fails'])
        return None
    out = (r.get('out') or b'').decode('utf-8', 'replace')
    pairs = []
    for m in re.finditer(r'<p k="([^"]+)">(<a/>|<a>.*?</a>)(<b/>|<b>.*?</b>)</p>', out, re.S):
        pairs.append((m.group(1), '' if m.group(2) == '<a/>' else m.group(2)[3:-4], '' if m.group(3) == '<b/>' else m.group(3)[3:-4]))
    nctx = out.count('<c>') + out.count('<c/>')
    if nctx and len(pairs) != nctx * (14 + ('{' not in case['expr'] and '}' not in case['expr']) + 3 * (case['kind'] == 'ns')):
        raise RuntimeError('harness: cannot parse the consumer pairs: %r' % out[:300])
    ctx.note({'x': case['xml'], 'e': case['expr'], 'm': 'xslt', 's': case['ctxsel']}, nctx >= 1,
             ['mode:xslt', 'xslt-kind:' + case['kind'], 'xslt-contexts:%s' % ('0' if nctx == 0 else '1' if nctx == 1 else '2+'),
              'xslt-strip:%s' % ('yes' if case.get('strip') else 'no')],
             sample_text={'expr': case['expr'], 'ctxsel': case['ctxsel'], 'contexts': nctx, 'pairs': len(pairs)})
    for k, a, b in pairs:
        ctx.counters['xslt-consumer:' + k] += 1
        if a != b:
            return {'what': 'xslt-consumer', 'op': k, 'overload': 'xslt', 'gtype': case['kind'], 'expr': case['expr'], 'direct': a[:200], 'converted': b[:200],
                    'ctxsel': case['ctxsel']}
    return None


def check(ctx, case):
    load_flags(ctx)
    if case.get('mode') == 'xslt':
        return check_xslt(ctx, case)
    try:
        prep = Prepared(case)
    except ValueError:
        return None
    if case.get('docform') == 'xerces' and ('<![CDATA[' in case['xml'] or '<!DOCTYPE' in case['xml'] or re.search(r'namespace\s*::', case['expr'])):
        case = dict(case, docform='native')
        prep.case = case
    expr = case['expr']
    r = prep.call(ctx, expr, only='gbnscl')
    op = case.get('op', '?')
    if not r.has('compile.ok'):
        ctx.counters['compile-error'] += 1
        ctx.note({'x': case['xml'], 'e': expr, 'c': case['ctx']}, False, ['op:' + op, 'compile-error'])
        return None
    gerr = r.gets('g.err')
    classes = ['op:' + op, 'type:' + (r.gets('g.type') or 'error')]
    for o in 'gbnscl':
        classes.append('cell:%s/%s' % (op, o))
    classes.append('prior:%d' % len(case.get('prior') or []))
    ctx.note({'x': case['xml'], 'e': expr, 'c': case['ctx'], 'l': case.get('ctxlist')}, True, classes,
             sample_text={'expr': expr, 'xml': case['xml'][:200], 'ctx': prep.ctx.key, 'type': r.gets('g.type')})
    feats = sorted(expr_features(expr))

    def fail(what, **kw):
        d = {'what': what, 'expr': expr, 'op': op, 'gtype': r.gets('g.type'), 'feats': feats}
        d.update(kw)
        return d
    if gerr is not None:
        # the generic evaluation failed: every overload must fail too
        for o in 'bnscl':
            if r.gets(o + '.err') is None:
                return fail('overload-succeeds-where-generic-fails', overload=o, gerr=r.gets('g.errmsg'))
        return None
    for o in 'bnsc':
        if r.gets(o + '.err') is not None:
            return fail('overload-fails', overload=o, err=r.gets(o + '.errmsg'))
    if r.gets('g.bool.err') or r.gets('g.num.err') or r.gets('g.str.err'):
        return fail('conversion-fails', err=r.gets('g.str.errmsg') or r.gets('g.num.errmsg') or r.gets('g.bool.errmsg'))
    if r.gets('b') != r.gets('g.bool'):
        return fail('bool', overload='b', generic=r.gets('g.bool'), direct=r.gets('b'))
    if not same_num(unbits(r.gets('n')), unbits(r.gets('g.num'))):
        return fail('number', overload='n', generic=repr(unbits(r.gets('g.num'))), direct=repr(unbits(r.gets('n'))))
    if r.has('s.prefixlost'):
        return fail('string-overload-does-not-append', overload='s', direct=r.gets('s'))
    gs = r.gets('g.str')
    for k in ('g.str2', 'g.str3', 's', 'c'):
        if r.gets(k) != gs:
            return fail('string', overload=k, generic=gs, direct=r.gets(k))
    if r.gets('g.strlen') is not None and int(r.gets('g.strlen')) != len(gs.encode('utf-16-le', 'surrogatepass')) // 2:
        return fail('stringLength', generic=gs, direct=r.gets('g.strlen'))
    if r.gets('g.nodes.err') is not None:
        if r.gets('l.err') is None:
            return fail('nodelist-overload-succeeds-for-non-nodeset', overload='l', got=r.gets('l'))
    else:
        if r.gets('l.err') is not None:
            return fail('nodelist-overload-fails', overload='l', err=r.gets('l.errmsg'))
        if (r.gets('l') or '') != (r.gets('g.nodes') or ''):
            return fail('nodelist', overload='l', generic=(r.gets('g.nodes') or '').split('\n')[:20], direct=(r.gets('l') or '').split('\n')[:20])
    return None


def signature(case, detail):
    if 'crash' in detail:
        return 'crash:%s' % detail['crash']
    return '%s|%s|%s|%s' % (detail['what'], detail.get('op'), detail.get('overload', ''), detail.get('gtype'))


def evidence_extra(results):
    from collections import Counter
    c = Counter()
    for r in results:
        for k, v in r['counters'].items():
            if k.startswith('cell:'):
                c[k[5:]] += v
    ops = gen_xpath.TOP_OPS
    empty = [('%s/%s' % (op, o)) for op in ops for o in 'gbnscl' if c.get('%s/%s' % (op, o), 0) == 0]
    return {'matrix_cells': len(ops) * 6, 'matrix_cells_empty': empty, 'matrix_min': min([c.get('%s/%s' % (op, o), 0) for op in ops for o in 'gbnscl'])}
