"""C11 - an expression has one value, whichever way the caller asks for it."""
import re

from hypothesis import strategies as st

from .. import gen_xml, gen_xpath, xpcase
from ..xpcase import Prepared, same_num, unbits, expr_features

ID = 'C11'
LEVEL = 'exploration'
RULE = ('Hypothesis draws (document, context node + list, variable bindings) and an expression whose TOP-LEVEL operation is chosen from the '
        '%d operations of the op-code interpreter (all binary/unary operators, union, literal, variables of 4 types, group, number, relative/'
        'absolute path, filter, each core function incl. zero-argument forms, extension call). The six public XPath::execute overloads are called '
        'on the same compiled expression and context. Oracle (no model): bool overload = G->boolean(), double = G->num() bit-for-bit, string = '
        'G->str() (all three str() forms and stringLength), character events = G->str(), node-list overload = G->nodeset() as the same sequence; '
        'errors must coincide. Non-trivial: every case (the matrix cell top-op x overload is reported; all cells must be > 0). '
        'distinct = distinct (expression, document, context).' % len(gen_xpath.TOP_OPS))
ASSUMPTIONS = ['the generic XObjectPtr result with the standard conversions is the definition (C02 checks that value against the Recommendation)']

_loaded = []


def load_flags(ctx):
    if _loaded:
        return
    _loaded.append(1)
    for pid in ('C02', 'C11'):
        for e in ctx.findings.open_for(pid):
            for f in e.get('exclusion_flags', []):
                gen_xpath.FLAGS.add(f)


def budget(tier):
    if tier == 'quick':
        return dict(workers=14, examples=3000, wall=160)
    return dict(workers=14, examples=80000, wall=1700)


@st.composite
def cases(draw):
    op = draw(st.sampled_from(gen_xpath.TOP_OPS))
    e = draw(gen_xpath.top_expression(op))
    xml = draw(gen_xml.documents(astral='no_astral_strings' not in gen_xpath.FLAGS))
    return {'xml': xml, 'expr': e['expr'], 'op': op, 'ntok': e['ntok'], 'ctx': draw(st.integers(0, 80)),
            'ctxlist': draw(st.one_of(st.just([]), st.lists(st.integers(0, 80), max_size=4))),
            'vars': draw(gen_xpath.bindings()), 'docform': draw(st.sampled_from(['native', 'native', 'xerces'])), 'prior': draw(xpcase.priors())}


def strategy(ctx):
    load_flags(ctx)
    return cases()


def check(ctx, case):
    load_flags(ctx)
    try:
        prep = Prepared(case)
    except ValueError:
        return None
    if case.get('docform') == 'xerces' and ('<![CDATA[' in case['xml'] or '<!DOCTYPE' in case['xml'] or re.search(r'namespace\s*::', case['expr'])):
        case = dict(case, docform='native')
        prep.case = case
    expr = case['expr']
    r = prep.call(ctx, expr, only='gbnscl')
    op = case.get('op', '?')
    if not r.has('compile.ok'):
        ctx.counters['compile-error'] += 1
        ctx.note({'x': case['xml'], 'e': expr, 'c': case['ctx']}, False, ['op:' + op, 'compile-error'])
        return None
    gerr = r.gets('g.err')
    classes = ['op:' + op, 'type:' + (r.gets('g.type') or 'error')]
    for o in 'gbnscl':
        classes.append('cell:%s/%s' % (op, o))
    classes.append('prior:%d' % len(case.get('prior') or []))
    ctx.note({'x': case['xml'], 'e': expr, 'c': case['ctx'], 'l': case.get('ctxlist')}, True, classes,
             sample_text={'expr': expr, 'xml': case['xml'][:200], 'ctx': prep.ctx.key, 'type': r.gets('g.type')})
    feats = sorted(expr_features(expr))

    def fail(what, **kw):
        d = {'what': what, 'expr': expr, 'op': op, 'gtype': r.gets('g.type'), 'feats': feats}
        d.update(kw)
        return d
    if gerr is not None:
        # the generic evaluation failed: every overload must fail too
        for o in 'bnscl':
            if r.gets(o + '.err') is None:
                return fail('overload-succeeds-where-generic-fails', overload=o, gerr=r.gets('g.errmsg'))
        return None
    for o in 'bnsc':
        if r.gets(o + '.err') is not None:
            return fail('overload-fails', overload=o, err=r.gets(o + '.errmsg'))
    if r.gets('g.bool.err') or r.gets('g.num.err') or r.gets('g.str.err'):
        return fail('conversion-fails', err=r.gets('g.str.errmsg') or r.gets('g.num.errmsg') or r.gets('g.bool.errmsg'))
    if r.gets('b') != r.gets('g.bool'):
        return fail('bool', overload='b', generic=r.gets('g.bool'), direct=r.gets('b'))
    if not same_num(unbits(r.gets('n')), unbits(r.gets('g.num'))):
        return fail('number', overload='n', generic=repr(unbits(r.gets('g.num'))), direct=repr(unbits(r.gets('n'))))
    if r.has('s.prefixlost'):
        return fail('string-overload-does-not-append', overload='s', direct=r.gets('s'))
    gs = r.gets('g.str')
    for k in ('g.str2', 'g.str3', 's', 'c'):
        if r.gets(k) != gs:
            return fail('string', overload=k, generic=gs, direct=r.gets(k))
    if r.gets('g.strlen') is not None and int(r.gets('g.strlen')) != len(gs.encode('utf-16-le', 'surrogatepass')) // 2:
        return fail('stringLength', generic=gs, direct=r.gets('g.strlen'))
    if r.gets('g.nodes.err') is not None:
        if r.gets('l.err') is None:
            return fail('nodelist-overload-succeeds-for-non-nodeset', overload='l', got=r.gets('l'))
    else:
        if r.gets('l.err') is not None:
            return fail('nodelist-overload-fails', overload='l', err=r.gets('l.errmsg'))
        if (r.gets('l') or '') != (r.gets('g.nodes') or ''):
            return fail('nodelist', overload='l', generic=(r.gets('g.nodes') or '').split('\n')[:20], direct=(r.gets('l') or '').split('\n')[:20])
    return None


def signature(case, detail):
    if 'crash' in detail:
        return 'crash:%s' % detail['crash']
    return '%s|%s|%s|%s' % (detail['what'], detail.get('op'), detail.get('overload', ''), detail.get('gtype'))


def evidence_extra(results):
    from collections import Counter
    c = Counter()
    for r in results:
        for k, v in r['counters'].items():
            if k.startswith('cell:'):
                c[k[5:]] += v
    ops = gen_xpath.TOP_OPS
    empty = [('%s/%s' % (op, o)) for op in ops for o in 'gbnscl' if c.get('%s/%s' % (op, o), 0) == 0]
    return {'matrix_cells': len(ops) * 6, 'matrix_cells_empty': empty, 'matrix_min': min([c.get('%s/%s' % (op, o), 0) for op in ops for o in 'gbnscl'])}
