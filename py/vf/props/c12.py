"""C12 - node-sets are duplicate-free sets in one consistent document order."""
import re

from hypothesis import strategies as st

from .. import gen_xml, gen_xpath, model, xpcase
from ..xpcase import Prepared

ID = 'C12'
LEVEL = 'exploration'
RULE = ('Three generated sub-domains. (hist) insertion histories into a MutableNodeRefList through its ordered interface: addNodeInDocOrder(node), '
        'addNodesInDocOrder(list built by addNode with a truthful unknown/document/reverse order flag, or a document-ordered list spanning several documents built by the ordered interface itself), clear - over the nodes (elements, text, '
        'comments, PIs, attributes, root) of 1-3 documents in one representation (native indexed tree, Xerces wrapper with indexes, Xerces wrapper in '
        'lazy mapping mode = structural comparison); insertion orders are generated so that the append fast path, the binary search and the linear '
        'scan are all taken. After every step the list must be duplicate-free, contain exactly the inserted nodes, keep each document contiguous and '
        'be sorted by the pre-order numbering of the reference model. (pairs) DOMServices::isNodeAfter on all ordered pairs of non-root nodes must '
        'be the strict total order of the pre-order numbering, identically for the three representations. (expr) union laws A|B = B|A, '
        '(A|B)|C = A|(B|C), A|A = A and sortedness on sequences delivered by the node-list overload for generated node-set expressions. '
        'Non-trivial: history with >= 2 documents or an insertion that is not an append; every pairs case with >= 4 nodes; every expr case with '
        '>= 2 selected nodes. distinct = distinct case text.'
        ' A fifth of the expression cases have operands on the namespace axis (native form): for these only what needs no model is judged - no duplicates and the union laws as equal sequences.')
ASSUMPTIONS = ['pre-order numbering of vf.model (root, element, attributes, children) is document order; order among the attributes of one '
               'element is not judged', 'order between different documents is not judged, only contiguity']

FLAGS = set()
_loaded = []


def load_flags(ctx):
    if _loaded:
        return
    _loaded.append(1)
    for pid in ('C02', 'C12'):
        for e in ctx.findings.open_for(pid):
            for f in e.get('exclusion_flags', []):
                FLAGS.add(f)
                gen_xpath.FLAGS.add(f)


def budget(tier):
    if tier == 'quick':
        return dict(workers=14, examples=3000, wall=160)
    return dict(workers=14, examples=80000, wall=1700)


FORMS = ['native', 'xerces', 'xerces-lazy']


@st.composite
def hist_cases(draw):
    ndocs = draw(st.sampled_from([1, 1, 2, 3]))
    docs = [draw(gen_xml.documents(max_nodes=14, ids=False, cdata=False, prolog_misc=False)) for _ in range(ndocs)]
    ops = []
    for _ in range(draw(st.integers(1, 12))):
        k = draw(st.integers(0, 9))
        if k <= 5:
            ops.append(['ins', draw(st.integers(0, ndocs - 1)), draw(st.integers(0, 40))])
        elif k <= 8 and ndocs > 1 and draw(st.sampled_from([0, 0, 1])):
            # a document-ordered source list that spans documents, built by the ordered interface itself (what a location step over a
            # multi-document node-set hands to addNodesInDocOrder); wave 5: bulk lists never spanned documents
            ops.append(['bulkm', [[draw(st.integers(0, ndocs - 1)), draw(st.integers(0, 40))] for _ in range(draw(st.integers(1, 6)))]])
        elif k <= 8:
            n = draw(st.integers(0, 6))
            ops.append(['bulk', draw(st.sampled_from(['unk', 'doc', 'rev'])), draw(st.integers(0, ndocs - 1)),
                        [draw(st.integers(0, 40)) for _ in range(n)]])
        else:
            ops.append(['clear'])
    return {'k': 'hist', 'form': draw(st.sampled_from(FORMS)), 'docs': docs, 'ops': ops}


@st.composite
def pair_cases(draw):
    return {'k': 'pairs', 'docs': [draw(gen_xml.documents(max_nodes=16, ids=False, cdata=False, prolog_misc=True))]}


@st.composite
def expr_cases(draw):
    base = draw(xpcase.cases(depth=2, kind='ns'))
    base['k'] = 'expr'
    base['A'] = gen_xpath.render(gen_xpath.fix_bare_slash(draw(gen_xpath.nodeset(1))), [' '])
    base['B'] = gen_xpath.render(gen_xpath.fix_bare_slash(draw(gen_xpath.nodeset(1))), [' '])
    base['C'] = gen_xpath.render(gen_xpath.fix_bare_slash(draw(gen_xpath.nodeset(0))), [' '])
    if draw(st.sampled_from([0, 0, 0, 0, 1])):
        # namespace nodes as operands of a union (judged by the laws only, see check_expr)
        for name in draw(st.sampled_from([('A',), ('B',), ('A', 'B'), ('A', 'C')])):
            base[name] = draw(st.sampled_from(NS_EXPRS))
    return base


NS_EXPRS = ['namespace::*', '*/namespace::*', '//namespace::*', 'descendant-or-self::*/namespace::*', 'ancestor-or-self::*/namespace::*', '../namespace::*',
            'namespace::* | @*', '(//*)[last()]/namespace::*', '//*[@*]/namespace::*', 'namespace::p | namespace::q', '//namespace::*[name() != \'xml\']']


def strategy(ctx):
    load_flags(ctx)
    return st.one_of(hist_cases(), hist_cases(), pair_cases(), expr_cases())


def _resolve(mdocs, di, ni):
    nodes = mdocs[di].nodes(attrs=True, ns=False)
    return nodes[ni % len(nodes)]


def check_list(keys, expected_nodes, label):
    """keys: ['N:key', ...] delivered; expected_nodes: set of (doc index, Node).  Returns None or reason"""
    if len(keys) != len(set(keys)):
        return 'duplicates'
    exp = {'%d:%s' % (d, n.key): (d, n) for d, n in expected_nodes}
    if set(keys) != set(exp):
        return 'wrong-members'
    # contiguity per document, pre-order within
    seen_docs = []
    last = {}
    for k in keys:
        d, n = exp[k]
        if seen_docs and seen_docs[-1] != d and d in seen_docs:
            return 'documents-interleaved'
        if not seen_docs or seen_docs[-1] != d:
            seen_docs.append(d)
        if d in last:
            a, b = last[d], n
            if b.order < a.order and not (a.kind == 'attribute' and b.kind == 'attribute' and a.parent is b.parent):
                return 'not-in-document-order'
            if b.order > a.order or True:
                last[d] = b if b.order > a.order else a
        else:
            last[d] = n
    return None


def check(ctx, case):
    load_flags(ctx)
    k = case['k']
    if k == 'hist':
        return check_hist(ctx, case)
    if k == 'pairs':
        return check_pairs(ctx, case)
    return check_expr(ctx, case)


def check_hist(ctx, case):
    try:
        mdocs = [model.parse_document(x) for x in case['docs']]
    except ValueError:
        return None
    ops = case['ops']
    multi = len(mdocs) > 1
    if multi and 'single_doc_histories' in FLAGS and ctx.tier != 'replay':
        ctx.excluded['single_doc_histories'] += 1
        mdocs = mdocs[:1]
        multi = False
    fields = [('d', x.encode('utf-8')) for x in case['docs'][:len(mdocs)]]
    content = set()
    expect = []   # expected content after each op
    touched_docs = set()
    nonappend = False
    for op in ops:
        if op[0] == 'ins':
            di = op[1] % len(mdocs)
            n = _resolve(mdocs, di, op[2])
            if n.kind == 'root' and 'no_root_in_history' in FLAGS and ctx.tier != 'replay':
                ctx.excluded['no_root_in_history'] += 1
                n = mdocs[di].root.children[0]
            if content and any(d == di and m.order > n.order for d, m in content):
                nonappend = True
            content.add((di, n))
            touched_docs.add(di)
            fields.append(('ins', '%d:%s' % (di, n.key)))
        elif op[0] == 'bulkm':
            sel = []
            for d, i in op[1]:
                d = d % len(mdocs)
                n = _resolve(mdocs, d, i)
                if n.kind == 'root' and 'no_root_in_history' in FLAGS and ctx.tier != 'replay':
                    n = mdocs[d].root.children[0]
                sel.append((d, n))
            for d, n in sel:
                if content and any(dd == d and m.order > n.order for dd, m in content):
                    nonappend = True
                content.add((d, n))
                touched_docs.add(d)
            fields.append(('bulk', '\n'.join(['docself'] + ['%d:%s' % (d, n.key) for d, n in sel])))
        elif op[0] == 'bulk':
            di = op[2] % len(mdocs)
            sel = [_resolve(mdocs, di, i) for i in op[3]]
            if 'no_root_in_history' in FLAGS and ctx.tier != 'replay':
                sel = [mdocs[di].root.children[0] if n.kind == 'root' else n for n in sel]
            flag = op[1]
            if flag in ('doc', 'rev'):
                # a truthful flag: the list really is sorted (and duplicate-free), attributes in model order
                sel = sorted(set(sel), key=lambda n: n.order, reverse=(flag == 'rev'))
                # the relative order of the attributes of one element is implementation-dependent, so a list with two of
                # them cannot be flagged truthfully: keep one attribute per element
                seen_parents = set()
                kept = []
                for n in sel:
                    if n.kind == 'attribute':
                        if id(n.parent) in seen_parents:
                            continue
                        seen_parents.add(id(n.parent))
                    kept.append(n)
                sel = kept
            for n in sel:
                if content and any(d == di and m.order > n.order for d, m in content):
                    nonappend = True
                content.add((di, n))
            if sel:
                touched_docs.add(di)
            fields.append(('bulk', '\n'.join([flag] + ['%d:%s' % (di, n.key) for n in sel])))
        else:
            content = set()
            fields.append(('clear', ''))
        expect.append(set(content))
    nontrivial = len(touched_docs) > 1 or nonappend
    ctx.note(case, nontrivial, ['k:hist', 'form:' + case['form'], 'docs:%d' % len(mdocs)] + (['nonappend'] if nonappend else []),
             sample_text={'form': case['form'], 'ops': [f[1] if isinstance(f[1], str) else '<doc>' for f in fields][:14]})
    r = ctx.drv.call('nodelist', fields, form=case['form'])
    if r.has('fatal'):
        raise RuntimeError('harness: ' + r.gets('fatal'))
    states = [dec_state(v) for kk, v in r.fields if kk == 'state']
    if len(states) != len(expect):
        raise RuntimeError('harness: %d states for %d ops' % (len(states), len(expect)))
    for i, ((keys, flag), exp) in enumerate(zip(states, expect)):
        why = check_list(keys, exp, i)
        if why:
            return {'what': why, 'step': i, 'op': fields[len(mdocs) + i][0], 'got': keys[:20], 'expected': sorted('%d:%s' % (d, n.key) for d, n in exp)[:20],
                    'form': case['form'], 'multi': multi, 'root': any(n.kind == 'root' for d, n in exp)}
    return None


def dec_state(v):
    s = v.decode('utf-8', 'surrogatepass')
    body, flag = s.rsplit('|', 1)
    return ([x for x in body.split('\n') if x], flag)


def check_pairs(ctx, case):
    try:
        mdoc = model.parse_document(case['docs'][0])
    except ValueError:
        return None
    nodes = [n for n in mdoc.nodes(attrs=True, ns=False) if n.kind != 'root']
    ctx.note(case, len(nodes) >= 4, ['k:pairs'])
    mats = {}
    for form in FORMS:
        r = ctx.drv.call('nodelist', [('d', case['docs'][0].encode('utf-8')), ('after', '')], form=form)
        keys = (r.gets('after.nodes') or '').split('\n') if r.gets('after.nodes') else []
        m = r.gets('after.matrix') or ''
        if set(keys) != {n.key for n in nodes}:
            return {'what': 'pairs-node-set-differs', 'form': form, 'got': keys[:30], 'expected': [n.key for n in nodes][:30]}
        by = {n.key: n for n in nodes}
        n_ = len(keys)
        for a in range(n_):
            for b in range(n_):
                if a == b:
                    continue
                na, nb = by[keys[a]], by[keys[b]]
                if na.kind == 'attribute' and nb.kind == 'attribute' and na.parent is nb.parent:
                    # order among the attributes of one element is implementation-dependent; it must still be a strict order
                    if m[a * n_ + b] == m[b * n_ + a]:
                        return {'what': 'pairs-not-antisymmetric', 'form': form, 'a': keys[a], 'b': keys[b], 'indexed': r.gets('after.indexed')}
                    continue
                exp = '1' if na.order > nb.order else '0'
                if m[a * n_ + b] != exp:
                    return {'what': 'isNodeAfter-wrong', 'form': form, 'a': keys[a], 'b': keys[b], 'got': m[a * n_ + b], 'expected': exp,
                            'indexed': r.gets('after.indexed'), 'kinds': na.kind + '/' + nb.kind}
    return None


def seq(r):
    if r.gets('l.err') is not None or not r.has('compile.ok') or r.gets('l') is None:
        return None, None
    return [k for k in r.gets('l').split('\n') if k], r.gets('l.order')


def check_expr(ctx, case):
    try:
        prep = Prepared(case)
    except ValueError:
        return None
    if case.get('docform') == 'xerces' and ('<![CDATA[' in case['xml'] or '<!DOCTYPE' in case['xml']):
        case = dict(case, docform='native')
        prep.case = case
    A, B, C = case['A'], case['B'], case['C']
    nsaxis = any(re.search(r'namespace\s*::', e) for e in (A, B, C))
    if nsaxis and case.get('docform') == 'xerces':
        return None          # F-C02-namespace-axis: the Xerces form lacks the xml namespace node
    # namespace nodes are not in the reference's node table (they are the declaring elements' xmlns attributes in Xalan, shared between
    # elements: F-C02-namespace-axis), so with the namespace axis only what needs no model is judged: no duplicates, and the union
    # laws as equal SEQUENCES (the implementation's document order is one total order, whatever it is for namespace nodes)
    by = {n.key: n for n in prep.doc.nodes(attrs=True, ns=False)}

    def ev(e):
        return seq(prep.call(ctx, e, only='l'))
    res = {}
    for name, e in (('A', A), ('AB', '(%s) | (%s)' % (A, B)), ('BA', '(%s) | (%s)' % (B, A)), ('AA', '(%s) | (%s)' % (A, A)),
                    ('AB_C', '((%s) | (%s)) | (%s)' % (A, B, C)), ('A_BC', '(%s) | ((%s) | (%s))' % (A, B, C))):
        res[name] = ev(e)
        if res[name][0] is None:
            ctx.note(case, False, ['k:expr', 'expr-error'])
            return None
    nsel = len(res['AB_C'][0])
    rootin = '/' in res['AB_C'][0]
    ctx.note(case, nsel >= 2, ['k:expr', 'form:' + case.get('docform', 'native')] + (['root-in-result'] if rootin else []) + (['namespace-axis'] if nsaxis else []),
             sample_text={'A': A, 'B': B, 'C': C, 'n': nsel})
    for name, (keys, flag) in res.items():
        if len(keys) != len(set(keys)):
            return {'what': 'expr-duplicates', 'expr': name, 'A': A, 'B': B, 'C': C, 'got': keys[:20], 'root': rootin}
        if nsaxis:
            continue
        if name != 'A' or flag == 'doc':
            # a union result is delivered in document order
            exp = sorted(keys, key=lambda k: by[k].order)
            if flag == 'rev':
                exp = exp[::-1]
            if flag in ('doc', 'rev') and not same_order(keys, exp, by):
                return {'what': 'expr-not-sorted', 'expr': name, 'A': A, 'B': B, 'C': C, 'got': keys[:20], 'flag': flag, 'root': rootin,
                        'form': case.get('docform')}
    for x, y in (('AB', 'BA'), ('AB_C', 'A_BC'), ('A', 'AA')):
        kx, fx = res[x]
        ky, fy = res[y]
        if set(kx) != set(ky):
            return {'what': 'law-set-differs', 'law': x + '=' + y, 'A': A, 'B': B, 'C': C, 'x': kx[:20], 'y': ky[:20], 'root': rootin}
        if fx == fy == 'doc' and not (kx == ky if nsaxis else same_order(kx, ky, by)):
            return {'what': 'law-order-differs', 'law': x + '=' + y, 'A': A, 'B': B, 'C': C, 'x': kx[:20], 'y': ky[:20], 'root': rootin}
    return None


def same_order(a, b, by):
    """equal sequences, ignoring the relative order of attributes of one element"""
    if a == b:
        return True
    if len(a) != len(b):
        return False

    def norm(keys):
        out = []
        for k in keys:
            n = by[k]
            out.append((n.parent.order, 'attr') if n.kind == 'attribute' else (n.order, 'n'))
        return out
    return norm(a) == norm(b) and set(a) == set(b)


def signature(case, detail):
    if 'crash' in detail:
        return 'crash:%s' % detail['crash']
    parts = [detail['what']]
    if 'form' in detail:
        parts.append(str(detail['form']))
    if detail.get('multi'):
        parts.append('multi-doc')
    if detail.get('root'):
        parts.append('root')
    if 'kinds' in detail:
        parts.append(detail['kinds'])
    if 'indexed' in detail:
        parts.append('indexed=' + str(detail['indexed']))
    return '|'.join(parts)
