"""C13 - whitespace stripping acts as if the stripped text nodes were not in the source."""
import re

from hypothesis import strategies as st

from .. import gen_xml, model

ID = 'C13'
LEVEL = 'exploration'
RULE = ('Hypothesis draws xsl:strip-space / xsl:preserve-space declarations (QNames, prefix:*, *, several declarations in conflict resolved by '
        'priority, by position and by import precedence through an imported module) x a document rich in whitespace-only text nodes (between '
        'elements, first/last child, next to comments/PIs, in stripped and preserved elements, xml:space attributes) x an observer stylesheet composed of '
        '2-4 observation templates from a pool that reaches every code path asking "strip this node?": child/descendant/following/preceding axes, '
        'position()/last(), count(), string values of elements and of the root, number(), sort keys, key use, node-set = string comparisons, keys on '
        'text(), xsl:number count="node()", copy-of, copy + built-in rules. Oracle (metamorphic, both sides on Xalan): result(S with declarations, D) must '
        'equal result(S without declarations, D\') where D\' is D with the nodes selected by XSLT 3.4 physically removed by a 30-line Python function. '
        'Non-trivial: D\' != D and the observers\' output differs between D and D\' without declarations. distinct = case text.')
ASSUMPTIONS = ['the Python stripper (XSLT 3.4 incl. xml:space ancestors, priority, import precedence, last-wins recovery) is the only trusted piece',
               'both documents are re-serialized by the same serializer so that they differ only by the removed nodes']

XSL = 'http://www.w3.org/1999/XSL/Transform'
FLAGS = set()
_loaded = []


def load_flags(ctx):
    if _loaded:
        return
    _loaded.append(1)
    for e in ctx.findings.open_for(ID):
        for f in e.get('exclusion_flags', []):
            FLAGS.add(f)


def budget(tier):
    if tier == 'quick':
        return dict(workers=14, examples=1500, wall=170)
    return dict(workers=14, examples=40000, wall=1700)


NAMETESTS = ['a', 'b', 'c', 'd', '*', 'p:*', 'p:a', 'q:b', 'q:*', 'a b', 'c d', '* ', 'b']

OBSERVERS = [
    '<xsl:copy-of select="/"/>',
    '<xsl:for-each select="//*"><e n="{name()}" c="{count(node())}" t="{count(text())}" l="{string-length(.)}" f="{name(node()[1])}|{string(node()[1])}|{string(node()[last()])}"/></xsl:for-each>',
    '<s><xsl:value-of select="string(/)"/></s><s2><xsl:value-of select="string-length(/)"/></s2>',
    '<xsl:for-each select="//text()"><t p="{position()}" l="{last()}"><xsl:number level="any" count="node()"/>.<xsl:number level="single" count="node()"/></t></xsl:for-each>',
    '<k1><xsl:value-of select="count(key(\'tl\', 1))"/>,<xsl:value-of select="count(key(\'tl\', 2))"/>,<xsl:value-of select="count(key(\'ev\', \' \'))"/></k1>',
    '<bi><xsl:apply-templates/></bi>',
    '<xsl:for-each select="//*"><ax f="{count(following::text())}" p="{count(preceding::node())}" fs="{name(following-sibling::node()[1])}" ps="{count(preceding-sibling::node()[1][self::text()])}"/></xsl:for-each>',
    '<xsl:for-each select="//*"><xsl:sort select="."/><xsl:sort select="count(node())" data-type="number"/><so n="{name()}" v="{.}"/></xsl:for-each>',
    '<cmp a="{count(//*[. = \' \'])}" b="{count(//*[node()[1][self::text()]])}" c="{boolean(//*[text() = \'&#10;\'])}" n="{count(//*[number(.) = number(.)])}"/>',
    '<xsl:for-each select="//*"><av x="{.}" y="{node()[2]}" z="{text()[1]}"/></xsl:for-each>',
    '<xsl:apply-templates select="/" mode="cp"/>',
    '<xsl:for-each select="//*[text()]"><xsl:value-of select="concat(name(), \':\', count(text()[normalize-space(.) = \'\']), \';\')"/></xsl:for-each>',
    '<xsl:for-each select="//node()"><nd k="{count(ancestor::*)}.{count(preceding-sibling::node())}" t="{boolean(self::text())}"/></xsl:for-each>',
    '<d><xsl:value-of select="count(//node())"/>/<xsl:value-of select="count(/descendant::text()[last()]/preceding::text())"/></d>',
]
COMMON = ('<xsl:key name="tl" match="text()" use="string-length(.)"/><xsl:key name="ev" match="*" use="."/>'
          '<xsl:template match="@*|node()" mode="cp"><xsl:copy><xsl:apply-templates select="@*|node()" mode="cp"/></xsl:copy></xsl:template>')


@st.composite
def cases(draw):
    load = 'no_xml_space_in_source' in FLAGS
    xml = draw(gen_xml.documents(max_nodes=30, ws_rich=True, ids=False, astral=False, cdata=draw(st.booleans()), odd_names=False))
    if not load and draw(st.integers(0, 2)) == 0:
        # sprinkle xml:space attributes
        xml = _add_xml_space(draw, xml)
    decls = []
    if draw(st.integers(0, 2)) > 0:
        # most cases strip broadly first, then carve out exceptions, so that something is actually stripped
        decls.append(['strip', draw(st.sampled_from(['*', '*', 'a b c d', 'a b', 'c d p:*', '* q:*']))])
    for _ in range(draw(st.integers(1, 3))):
        decls.append([draw(st.sampled_from(['strip', 'strip', 'preserve'])), draw(st.sampled_from(NAMETESTS))])
    imp = []
    if draw(st.integers(0, 2)) == 0:
        for _ in range(draw(st.integers(1, 2))):
            imp.append([draw(st.sampled_from(['strip', 'preserve'])), draw(st.sampled_from(NAMETESTS))])
    obs = draw(st.lists(st.integers(0, len(OBSERVERS) - 1), min_size=2, max_size=4, unique=True))
    return {'xml': xml, 'decls': decls, 'imp': imp, 'obs': obs}


def _add_xml_space(draw, xml):
    out = []
    i = 0
    for m in re.finditer(r'<([a-z][\w.:-]*)(?=[\s/>])', xml):
        if draw(st.integers(0, 3)) == 0:
            out.append(xml[i:m.end()])
            out.append(' xml:space="%s"' % draw(st.sampled_from(['preserve', 'preserve', 'default'])))
            i = m.end()
    out.append(xml[i:])
    return ''.join(out)


def strategy(ctx):
    load_flags(ctx)
    return cases()


# ------------------------------------------------------------------------------------------ the trusted stripper
NSMAP = {'p': 'urn:p', 'q': 'urn:q'}
XML_NS = 'http://www.w3.org/XML/1998/namespace'


def nametest_matches(tok, el):
    if tok == '*':
        return True, -0.5
    if tok.endswith(':*'):
        return (el.uri == NSMAP[tok[:-2]]), -0.25
    if ':' in tok:
        p, l = tok.split(':')
        return (el.uri == NSMAP[p] and el.local == l), 0.0
    return (el.uri == '' and el.local == tok), 0.0


def preserves(el, decls):
    """decls: list of (precedence, index, kind, token).  XSLT 3.4: element names are whitespace-preserving unless a
    matching strip-space wins: highest import precedence, then highest priority, then the last one (recovery)."""
    best = None
    for prec, idx, kind, tok in decls:
        ok, prio = nametest_matches(tok, el)
        if not ok:
            continue
        rank = (prec, prio, idx)
        if best is None or rank > best[0]:
            best = (rank, kind)
    return best is None or best[1] == 'preserve'


def stripped_nodes(doc, decls):
    out = set()
    for n in doc.nodes(attrs=False):
        if n.kind != 'text' or n.value.strip(' \t\r\n') != '':
            continue
        el = n.parent
        if el.kind != 'element':
            continue
        if preserves(el, decls):
            continue
        # xml:space on the nearest ancestor-or-self (of the parent) that has one
        a = el
        keep = False
        while a is not None and a.kind == 'element':
            v = [x.value for x in a.attributes if x.uri == XML_NS and x.local == 'space']
            if v:
                keep = v[0] == 'preserve'
                break
            a = a.parent
        if not keep:
            out.add(n)
    return out


def serialize(doc, skip=()):
    def esc(s, attr=False):
        s = s.replace('&', '&amp;').replace('<', '&lt;').replace('>', '&gt;').replace('\r', '&#13;')
        if attr:
            s = s.replace('"', '&quot;').replace('\n', '&#10;').replace('\t', '&#9;')
        return s
    parts = []

    def walk(n):
        if n in skip:
            return
        if n.kind == 'element':
            parts.append('<' + n.qname)
            for p, u in n.nsdecls:
                parts.append(' xmlns%s="%s"' % (':' + p if p else '', esc(u, True)))
            for a in n.attributes:
                parts.append(' %s="%s"' % (a.qname, esc(a.value, True)))
            parts.append('>')
            for c in n.children:
                walk(c)
            parts.append('</%s>' % n.qname)
        elif n.kind == 'text':
            parts.append(esc(n.value))
        elif n.kind == 'comment':
            parts.append('<!--%s-->' % n.value)
        elif n.kind == 'pi':
            parts.append('<?%s %s?>' % (n.local, n.value) if n.value else '<?%s?>' % n.local)
    for c in doc.root.children:
        walk(c)
    return ''.join(parts)


def stylesheet(case, with_decls):
    def d(lst):
        return ''.join('<xsl:%s-space elements="%s"/>' % (k, t) for k, t in lst)
    head = '<xsl:stylesheet version="1.0" xmlns:xsl="%s" xmlns:p="urn:p" xmlns:q="urn:q" exclude-result-prefixes="p q">' % XSL
    imp = '<xsl:import href="imp.xsl"/>' if (case['imp'] and with_decls) else ''
    body = ''.join(OBSERVERS[i] for i in case['obs'])
    main = (head + imp + (d(case['decls']) if with_decls else '') + '<xsl:output method="xml" omit-xml-declaration="yes" indent="no"/>' + COMMON +
            '<xsl:template match="/"><out>' + body + '</out></xsl:template></xsl:stylesheet>')
    imported = head + d(case['imp']) + '</xsl:stylesheet>'
    return main, imported


def check(ctx, case):
    load_flags(ctx)
    try:
        doc = model.parse_document(case['xml'])
    except ValueError:
        return None
    has_xml_space = 'xml:space' in case['xml']
    if has_xml_space and 'no_xml_space_in_source' in FLAGS and ctx.tier != 'replay':
        ctx.excluded['no_xml_space_in_source'] += 1
        return None
    decls = [(1, i, k, t2) for i, (k, t) in enumerate(case['decls']) for t2 in t.split()] + \
            [(0, i, k, t2) for i, (k, t) in enumerate(case['imp']) for t2 in t.split()]
    skip = stripped_nodes(doc, decls)
    D = serialize(doc)
    D2 = serialize(doc, skip)
    s_with, imported = stylesheet(case, True)
    s_without, _ = stylesheet(case, False)
    res = [('res', 'imp.xsl\0' + imported)]

    def run(xsl, xml, fields=()):
        r = ctx.drv.call('transform', list(fields), xsl=xsl.encode('utf-8'), xml=xml.encode('utf-8'))
        return r.gets('rc'), (r.get('out') or b'').decode('utf-8', 'replace'), r.gets('err')
    a = run(s_with, D, res)
    b = run(s_without, D2)
    c = run(s_without, D) if skip else b
    sensitive = bool(skip) and c[1] != b[1]
    ctx.note(case, sensitive, ['stripped:%s' % ('0' if not skip else '1-3' if len(skip) <= 3 else '>3'), 'sensitive' if sensitive else 'insensitive'] +
             (['xml:space'] if has_xml_space else []) + (['import'] if case['imp'] else []) + ['obs:%d' % i for i in case['obs']],
             sample_text={'decls': case['decls'], 'imp': case['imp'], 'obs': case['obs'], 'xml': case['xml'][:200], 'stripped': len(skip)})
    if a[0] != '0' or b[0] != '0':
        if a[0] != b[0]:
            return {'what': 'status-differs', 'with': a[0], 'err_with': (a[2] or '')[:200], 'without': b[0], 'err_without': (b[2] or '')[:200]}
        return None
    if a[1] != b[1]:
        # locate the first differing observer by running them one at a time
        culprit = None
        for i in case['obs']:
            one = dict(case, obs=[i])
            sw, im = stylesheet(one, True)
            so, _ = stylesheet(one, False)
            if run(sw, D, [('res', 'imp.xsl\0' + im)])[1] != run(so, D2)[1]:
                culprit = i
                break
        return {'what': 'result-differs', 'observer': culprit, 'with_decls': a[1][:500], 'prestripped': b[1][:500], 'xml_space': has_xml_space,
                'D': D[:400], 'Dstripped': D2[:400], 'decls': case['decls'], 'imp': case['imp']}
    return None


def signature(case, detail):
    if 'crash' in detail:
        return 'crash:%s' % detail['crash']
    return '%s|obs%s|%s' % (detail['what'], detail.get('observer'), 'xml:space' if detail.get('xml_space') else '')
