"""C14 - result elements/attributes get the requested expanded names; prefixes resolve."""
import re

from hypothesis import strategies as st

from . import c04

ID = 'C14'
LEVEL = 'exploration'
RULE = ('Hypothesis draws nestings of literal result elements (own xmlns declarations re-binding prefixes, default namespace on/off/undeclared, prefixed '
        'and unprefixed literal attributes with AVTs), xsl:element and xsl:attribute (name / namespace static or computed by an AVT; prefixes bound to a '
        'DIFFERENT namespace on the enclosing element; namespace=""; the xml prefix), attribute sets, xsl:copy and xsl:copy-of of source nodes carrying '
        'their own namespace nodes, under generated exclude-result-prefixes (incl. #default) and an optional xsl:namespace-alias. The generator records the '
        'intended (namespace URI, local name) of every constructed element and attribute. Oracle: the serialized result, parsed namespace-aware by Xerces '
        '(and expat), must be namespace-well-formed, give every element/attribute exactly the intended expanded name in order (attributes as a set, later '
        'xsl:attribute replacing earlier), and contain no declaration of an excluded namespace that nothing in its scope uses nor of the stylesheet side of '
        'an alias. Non-trivial: >= 2 namespaces and a collision (prefix re-bound, or an attribute whose requested prefix is taken / unavailable). '
        'distinct = case text.'
        ' The source elements that can be copied include one in no namespace that has no namespace declaration of its own (below xmlns="" of its parent).')
ASSUMPTIONS = ['the 80-line interpreter of this instruction subset below defines the intended names (XSLT 7.1.1-7.1.4, 7.5)', 'Xerces / expat namespace processing']

XSL = 'http://www.w3.org/1999/XSL/Transform'
XML_NS = 'http://www.w3.org/XML/1998/namespace'
ROOT_NS = {'p': 'urn:p', 'q': 'urn:q', 'r': 'urn:r'}
URIS = ['urn:p', 'urn:q', 'urn:r', 'urn:p2', 'urn:zzz', 'urn:d']
# the source uses its own namespace URIs, so that copied source namespace nodes cannot be mistaken for excluded / aliased stylesheet namespaces
SOURCE = ('<s xmlns:p="urn:srcp" xmlns="urn:sd"><p:x a="1" p:b="2"><y xmlns="" c="3"/>t</p:x><z xmlns:q="urn:srcq" q:k="4"/><w xml:lang="en" xmlns:p="urn:srcp2"/>'
          '<v xmlns="" xmlns:r="urn:srcr" r:m="5"><r:n/><u d="6"/></v></s>')
# the source elements an instruction can copy: the four children of the document element, and (5) an element in no namespace that has NO
# namespace declaration of its own (xsl:copy of it below a result element with a default namespace must undeclare that namespace itself)
# a second source document WITHOUT a default namespace on its document element: its elements in no namespace (w, v, u, y) have no
# xmlns="" anywhere among their ancestors, so nothing that is copied along with them undeclares a default namespace of the result
SOURCE2 = ('<s xmlns:p="urn:srcp"><p:x a="1" p:b="2"><y c="3"/>t</p:x><z xmlns="urn:sd" xmlns:q="urn:srcq" q:k="4"/><w xml:lang="en" xmlns:p="urn:srcp2"/>'
           '<v xmlns:r="urn:srcr" r:m="5"><r:n/><u d="6"/></v></s>')
SOURCES = [SOURCE, SOURCE2]
SEL_PATH = {1: '/*/*[1]', 2: '/*/*[2]', 3: '/*/*[3]', 4: '/*/*[4]', 5: '/*/*[4]/*[2]'}
FLAGS = set()
_loaded = []


def load_flags(ctx):
    if _loaded:
        return
    _loaded.append(1)
    for e in ctx.findings.open_for(ID):
        for f in e.get('exclusion_flags', []):
            FLAGS.add(f)


def budget(tier):
    if tier == 'quick':
        return dict(workers=14, examples=2500, wall=170)
    return dict(workers=14, examples=60000, wall=1700)


LOCALS = ['e', 'f', 'g']
ALOCALS = ['k', 'm', 'n']


@st.composite
def qname(draw, locals_, prefixes=('', '', 'p', 'q', 'r')):
    p = draw(st.sampled_from(prefixes))
    l = draw(st.sampled_from(locals_))
    return (p + ':' + l) if p else l


@st.composite
def attr_instr(draw):
    k = draw(st.integers(0, 9))
    name = draw(qname(ALOCALS, ('', '', 'p', 'q', 'r', 'xml') if 'no_xml_prefix_computed' not in FLAGS else ('', '', 'p', 'q', 'r')))
    if name.startswith('xml:'):
        name = 'xml:lang'
    ns = None
    if k <= 3 and not name.startswith('xml:') and 'no_namespace_attr_on_xsl_attribute' not in FLAGS:
        ns = draw(st.sampled_from(URIS + ['']))
    return {'k': 'attr', 'name': name, 'ns': ns, 'avt': draw(st.booleans()), 'v': draw(st.sampled_from(['v', '1', 'x y', '']))}


@st.composite
def instr(draw, depth):
    k = draw(st.integers(0, 11))
    kids = []
    if depth < 3:
        nattr = draw(st.integers(0, 2))
        kids = [draw(attr_instr()) for _ in range(nattr)]
        if draw(st.integers(0, 4)) == 0:
            # the attribute NODES of a source element, copied on their own (their namespace nodes do not come along)
            kids.insert(draw(st.integers(0, len(kids))), {'k': 'copyattrs', 'sel': draw(st.integers(1, 5)), 'via': draw(st.sampled_from(['copy-of', 'copy']))})
        for _ in range(draw(st.integers(0, 2))):
            kids.append(draw(instr(depth + 1)))
    if k <= 4:
        decl = []
        if draw(st.integers(0, 2)) == 0:
            for p in draw(st.lists(st.sampled_from(['p', 'q', 'r', '']), max_size=2, unique=True)):
                decl.append([p, draw(st.sampled_from(URIS + ([''] if p == '' else [])))])
        latt = []
        for _ in range(draw(st.integers(0, 2))):
            latt.append([draw(qname(ALOCALS, ('', '', 'p', 'q', 'r'))), draw(st.sampled_from(['v', '{1+1}', 'a{{b}}', '']))])
        return {'k': 'lre', 'n': draw(qname(LOCALS)), 'decl': decl, 'attrs': latt, 'c': kids, 'sets': draw(st.sampled_from([None, None, 's1', 's1 s2']))}
    if k <= 7:
        name = draw(qname(LOCALS))
        ns = draw(st.sampled_from([None, None] + URIS + ['']))
        return {'k': 'elem', 'name': name, 'ns': ns, 'avt': draw(st.booleans()), 'c': kids, 'sets': draw(st.sampled_from([None, None, 's2']))}
    if k == 8:
        return {'k': 'copy', 'sel': draw(st.integers(1, 5)), 'c': kids}
    if k == 9:
        return {'k': 'copyof', 'sel': draw(st.integers(1, 5))}
    if k == 10:
        return {'k': 'text', 'v': draw(st.sampled_from(['t', ' ', 'x&y']))}
    return {'k': 'lre', 'n': draw(qname(LOCALS)), 'decl': [], 'attrs': [], 'c': kids, 'sets': None}


@st.composite
def cases(draw):
    top = draw(instr(0))
    while top['k'] in ('text',):
        top = draw(instr(0))
    excl = draw(st.lists(st.sampled_from(['p', 'q', 'r', '#default']), max_size=3, unique=True))
    alias = None
    if draw(st.integers(0, 3)) == 0:
        alias = [draw(st.sampled_from(['r', 'q'])), draw(st.sampled_from(['p', 'q', '#default']))]
    default_ns = draw(st.sampled_from([None, None, 'urn:d']))
    if default_ns is None:
        # it is an error to exclude (or alias) a default namespace that is not declared
        excl = [e for e in excl if e != '#default']
        if alias and alias[1] == '#default':
            alias = None
    sets = {'s1': [draw(attr_instr()) for _ in range(draw(st.integers(1, 2)))], 's2': [draw(attr_instr())]}
    sets_use = draw(st.booleans())   # s1 uses s2
    return {'top': top, 'excl': excl, 'alias': alias, 'default_ns': default_ns, 'sets': sets, 's1_uses_s2': sets_use, 'src': draw(st.sampled_from([0, 0, 1]))}


def strategy(ctx):
    load_flags(ctx)
    return cases().map(lambda c: apply_flags(c, ctx))


def apply_flags(case, ctx):
    """remove, by construction, the triggers of open findings (counted)"""
    base = dict(ROOT_NS)
    if case['default_ns']:
        base[''] = case['default_ns']
    alias_from = base.get(case['alias'][0]) if case['alias'] else None
    alias_pfx = case['alias'][0] if case['alias'] else None
    excluded = {base.get('' if p == '#default' else p) for p in case['excl']}

    def walk(n):
        if n['k'] == 'lre':
            keep = []
            for p, u in n['decl']:
                if 'alias_only_via_own_prefix' in FLAGS and alias_from and (u == alias_from or p == alias_pfx):
                    ctx.excluded['alias_only_via_own_prefix'] += 1
                    continue
                if 'no_lre_redeclare_excluded' in FLAGS and u in excluded:
                    ctx.excluded['no_lre_redeclare_excluded'] += 1
                    continue
                keep.append([p, u])
            n['decl'] = keep
        if n['k'] in ('attr', 'elem') and 'alias_only_via_own_prefix' in FLAGS and alias_pfx and n['name'].startswith(alias_pfx + ':'):
            ctx.excluded['alias_only_via_own_prefix'] += 1
            n['name'] = n['name'].split(':')[1]
        for c in n.get('c', []):
            walk(c)
    walk(case['top'])
    for lst in case['sets'].values():
        for a in lst:
            walk(a)
    return case


# ------------------------------------------------------------------------------------------ stylesheet text
def esc(s):
    return s.replace('&', '&amp;').replace('<', '&lt;').replace('"', '&quot;')


def attr_text(a):
    name = "{'%s'}" % a['name'] if a['avt'] else a['name']
    ns = ''
    if a['ns'] is not None:
        ns = ' namespace="%s"' % ("{'%s'}" % a['ns'] if a['avt'] and a['ns'] else a['ns'])
    return '<xsl:attribute name="%s"%s>%s</xsl:attribute>' % (name, ns, esc(a['v']))


def instr_text(n):
    k = n['k']
    if k == 'text':
        return '<xsl:text>%s</xsl:text>' % esc(n['v'])
    if k == 'attr':
        return attr_text(n)
    if k == 'copyof':
        return '<xsl:copy-of select="%s"/>' % SEL_PATH[n['sel']]
    if k == 'copyattrs':
        if n['via'] == 'copy':
            return '<xsl:for-each select="%s/@*"><xsl:copy/></xsl:for-each>' % SEL_PATH[n['sel']]
        return '<xsl:copy-of select="%s/@*"/>' % SEL_PATH[n['sel']]
    kids = ''.join(instr_text(c) for c in n.get('c', []))
    if k == 'copy':
        return '<xsl:for-each select="%s"><xsl:copy>%s</xsl:copy></xsl:for-each>' % (SEL_PATH[n['sel']], kids)
    if k == 'elem':
        name = "{'%s'}" % n['name'] if n['avt'] else n['name']
        ns = '' if n['ns'] is None else ' namespace="%s"' % n['ns']
        sets = ' use-attribute-sets="%s"' % n['sets'] if n.get('sets') else ''
        return '<xsl:element name="%s"%s%s>%s</xsl:element>' % (name, ns, sets, kids)
    decl = ''.join(' xmlns%s="%s"' % (':' + p if p else '', u) for p, u in n['decl'])
    attrs = ''.join(' %s="%s"' % (an, esc(av)) for an, av in n['attrs'])
    sets = ' xsl:use-attribute-sets="%s"' % n['sets'] if n.get('sets') else ''
    return '<%s%s%s%s>%s</%s>' % (n['n'], decl, attrs, sets, kids, n['n'])


def stylesheet(case):
    root_decl = ''.join(' xmlns:%s="%s"' % kv for kv in ROOT_NS.items())
    if case['default_ns']:
        root_decl += ' xmlns="%s"' % case['default_ns']
    excl = ' exclude-result-prefixes="%s"' % ' '.join(case['excl']) if case['excl'] else ''
    parts = ['<xsl:stylesheet version="1.0" xmlns:xsl="%s"%s%s>' % (XSL, root_decl, excl), '<xsl:output method="xml" omit-xml-declaration="yes" indent="no"/>']
    if case['alias']:
        parts.append('<xsl:namespace-alias stylesheet-prefix="%s" result-prefix="%s"/>' % tuple(case['alias']))
    parts.append('<xsl:attribute-set name="s1"%s>%s</xsl:attribute-set>' % (' use-attribute-sets="s2"' if case['s1_uses_s2'] else '', ''.join(attr_text(a) for a in case['sets']['s1'])))
    parts.append('<xsl:attribute-set name="s2">%s</xsl:attribute-set>' % ''.join(attr_text(a) for a in case['sets']['s2']))
    # the wrapper is in no namespace; xmlns="" is only written when there is a default namespace to undeclare, so that both ways of
    # "no default namespace in scope" (never declared / undeclared) are exercised
    parts.append('<xsl:template match="/"><out%s>%s</out></xsl:template></xsl:stylesheet>' % (' xmlns=""' if case['default_ns'] else '', instr_text(case['top'])))
    return ''.join(parts)


# ------------------------------------------------------------------------------------------ intended names
class Invalid(Exception):
    pass


def src_model(case=None):
    from .. import model
    return model.parse_document(SOURCES[(case or {}).get('src', 0)])


def expected(case):
    """-> expected_tree-style list; raises Invalid when the generated stylesheet would be in error"""
    doc = src_model(case)
    srcs = list(doc.root.children[0].children)   # /*/*[n]
    srcs.append(srcs[3].children[1])             # SEL_PATH[5]
    alias_from = alias_to = None
    base = dict(ROOT_NS)
    if case['default_ns']:
        base[''] = case['default_ns']
    if case['alias']:
        sp, rp = case['alias']
        alias_from = base.get(sp)
        alias_to = base.get('', '') if rp == '#default' else base.get(rp)
        if alias_from is None or alias_to is None:
            raise Invalid('alias prefix undeclared')
        if rp == '#default' and '' not in base:
            raise Invalid('alias to undeclared default')
    stats = {'collision': False, 'namespaces': set()}

    def aliased(u):
        return alias_to if (alias_from is not None and u == alias_from) else u

    def attr_name(a, scope):
        nm = a['name']
        if a['ns'] is not None:
            local = nm.split(':')[-1]
            if ':' in nm and nm.split(':')[0] == 'xml':
                raise Invalid('xml prefix with namespace')
            if a['ns']:
                stats['collision'] = stats['collision'] or (':' in nm and scope.get(nm.split(':')[0]) != a['ns']) or ':' not in nm
            return (a['ns'], local)
        if ':' in nm:
            p, l = nm.split(':')
            if p == 'xml':
                return (XML_NS, l)
            if p not in scope:
                raise Invalid('unbound prefix')
            return (scope[p], l)
        return ('', nm)

    def set_attrs(names, scope, out, depth=0):
        for s in (names or '').split():
            if s == 's1' and case['s1_uses_s2']:
                set_attrs('s2', scope, out)
            for a in case['sets'][s]:
                out[attr_name(a, dict(base))] = a['v']   # attribute sets are top-level: stylesheet root scope

    def conv_src(n):
        if n.kind == 'element':
            return ('E', (n.uri, n.local), {(a.uri, a.local): a.value for a in n.attributes}, [x for x in (conv_src(c) for c in n.children) if x])
        if n.kind == 'text':
            return ('T', n.value)
        return None

    def run(n, scope, cur_attrs):
        """returns list of result nodes; attribute instructions write into cur_attrs"""
        k = n['k']
        if k == 'text':
            return [('T', n['v'])]
        if k == 'attr':
            if cur_attrs is None:
                raise Invalid('attribute outside element')
            cur_attrs[attr_name(n, scope)] = n['v']
            return []
        if k == 'copyattrs':
            if cur_attrs is None:
                raise Invalid('attribute outside element')
            s = srcs[n['sel'] - 1] if n['sel'] - 1 < len(srcs) else None
            for a in (s.attributes if s is not None and s.kind == 'element' else []):
                cur_attrs[(a.uri, a.local)] = a.value
                if a.uri and a.uri != XML_NS:
                    stats['namespaces'].add(a.uri)
                    stats['copied_ns_attr'] = True
                    if scope.get(a.prefix) not in (None, a.uri):
                        stats['collision'] = True
            return []
        if k == 'copyof':
            s = srcs[n['sel'] - 1] if n['sel'] - 1 < len(srcs) else None
            if s is not None and s.kind == 'element':
                for x in s.doc.nodes(attrs=True):
                    pass
                stats['namespaces'].add(s.uri)
            x = conv_src(s) if s is not None else None
            return [x] if x else []
        attrs = {}
        if k == 'copy':
            s = srcs[n['sel'] - 1] if n['sel'] - 1 < len(srcs) else None
            if s is None:
                return []
            if s.kind != 'element':
                return [('T', s.value)] if s.kind == 'text' else []
            name = (s.uri, s.local)
            # namespace nodes of the source element are copied: in scope for nothing in the STYLESHEET sense
            kids = body(n['c'], scope, attrs)
            stats['namespaces'].add(s.uri)
            return [('E', name, attrs, kids)]
        if k == 'elem':
            nm = n['name']
            if n['ns'] is not None:
                name = (n['ns'], nm.split(':')[-1])
                if ':' in nm and scope.get(nm.split(':')[0]) != n['ns']:
                    stats['collision'] = True
            elif ':' in nm:
                p, l = nm.split(':')
                if p not in scope:
                    raise Invalid('unbound prefix')
                name = (scope[p], l)
            else:
                name = (scope.get('', ''), nm)
            set_attrs(n.get('sets'), scope, attrs)
            kids = body(n['c'], scope, attrs)
            stats['namespaces'].add(name[0])
            return [('E', name, attrs, kids)]
        # literal result element
        scope = dict(scope)
        for p, u in n['decl']:
            if p == '' and u == '':
                scope.pop('', None)
            else:
                if p in scope and scope[p] != u:
                    stats['collision'] = True
                scope[p] = u
        nm = n['n']
        if ':' in nm:
            p, l = nm.split(':')
            if p not in scope:
                raise Invalid('unbound prefix')
            name = (aliased(scope[p]), l)
        else:
            name = (aliased(scope.get('', '')), nm)
        set_attrs(n.get('sets'), scope, attrs)
        for an, av in n['attrs']:
            v = av.replace('{1+1}', '2').replace('{{', '{').replace('}}', '}')
            if ':' in an:
                p, l = an.split(':')
                if p not in scope:
                    raise Invalid('unbound prefix')
                key = (aliased(scope[p]), l)
            else:
                key = ('', an)
            if key in [x for x in attrs if False]:
                pass
            attrs[key] = v
        lits = [((aliased(scope[an.split(':')[0]]), an.split(':')[1]) if ':' in an else ('', an)) for an, _ in n['attrs']]
        if len(lits) != len(set(lits)):
            raise Invalid('duplicate literal attribute')
        kids = body(n['c'], scope, attrs)
        stats['namespaces'].add(name[0])
        return [('E', name, attrs, kids)]

    def body(children, scope, attrs):
        out = []
        seen_child = False
        for c in children:
            if c['k'] in ('attr', 'copyattrs'):
                if seen_child:
                    raise Invalid('attribute after child')
                run(c, scope, attrs)
            else:
                r = run(c, scope, None)
                if r:
                    seen_child = True
                out += r
        return out
    inner = dict(base)
    inner.pop('', None)          # the wrapper <out xmlns=""> undeclares the default namespace for its content
    top = run(case['top'], inner, None)
    from .. import gen_tree
    return [('E', ('', 'out'), {}, merge_rec(top))], stats


def merge_rec(kids):
    from .. import gen_tree
    out = []
    for k in gen_tree.merge(kids):
        out.append(('E', k[1], k[2], merge_rec(k[3])) if k[0] == 'E' else k)
    return out


def declarations(ctx, data):
    """[(depth path, prefix, uri)] of namespace declarations in the output, via the driver's parseback (NS events follow their SE)"""
    r = ctx.drv.call('parseback', bytes=data)
    out = []
    stack = []
    for k, v in r.fields:
        s = v.decode('utf-8', 'surrogatepass')
        if k == 'SE':
            parts = s.split('\0')
            names = [c04._exp(parts[0])] + [c04._exp(parts[i]) for i in range(1, len(parts) - 1, 2)]
            stack.append({'names': names, 'decls': [], 'desc': []})
            for anc in stack[:-1]:
                anc['desc'] += names
        elif k == 'NS':
            p, u = s.split('\0')
            stack[-1]['decls'].append((p, u))
        elif k == 'EE':
            e = stack.pop()
            out.append(e)
    return out


def check(ctx, case):
    load_flags(ctx)
    try:
        exp, stats = expected(case)
    except Invalid as e:
        ctx.counters['invalid:' + str(e)] += 1
        return None
    nontrivial = len([u for u in stats['namespaces'] if u]) >= 2 and stats['collision']
    ctx.note(case, nontrivial, ['collision' if stats['collision'] else 'no-collision', 'alias' if case['alias'] else 'no-alias', 'excl:%d' % len(case['excl'])],
             sample_text={'xsl': stylesheet(case)[:700]})
    xsl = stylesheet(case)
    r = ctx.drv.call('transform', xsl=xsl.encode('utf-8'), xml=SOURCES[case.get('src', 0)].encode('utf-8'))
    if r.gets('rc') != '0':
        return {'what': 'transformation-failed', 'err': (r.gets('err') or '')[:300], 'xsl': xsl[:1500]}
    out = r.get('out') or b''
    got, err = c04.parse_xerces(ctx, out)
    if err:
        return {'what': 'not-namespace-well-formed', 'err': err[:200], 'out': out[:600].decode('utf-8', 'replace'), 'xsl': xsl[:1500]}
    from ..gen_tree import tree_diff
    d = tree_diff(exp, got)
    if d:
        return {'what': 'wrong-expanded-name', 'diff': d[:400], 'out': out[:600].decode('utf-8', 'replace'), 'xsl': xsl[:1500],
                'xmlprefix': 'xml:' in xsl and XML_NS in d}
    # excluded / aliased namespaces
    base = dict(ROOT_NS)
    if case['default_ns']:
        base[''] = case['default_ns']
    excluded = set()
    for p in case['excl']:
        u = base.get('' if p == '#default' else p)
        if u:
            excluded.add(u)
    alias_from = base.get(case['alias'][0]) if case['alias'] else None
    alias_to = (base.get('', '') if case['alias'][1] == '#default' else base.get(case['alias'][1])) if case['alias'] else None
    for e in declarations(ctx, out):
        for p, u in e['decls']:
            used = any(n[0] == u for n in e['names'] + e['desc'])
            if u in excluded and not used and not (alias_to == u and alias_from not in excluded):
                return {'what': 'excluded-namespace-declared', 'uri': u, 'prefix': p, 'out': out[:600].decode('utf-8', 'replace'), 'xsl': xsl[:1500]}
            if alias_from and u == alias_from and alias_from != alias_to and not used:
                return {'what': 'aliased-namespace-declared', 'uri': u, 'prefix': p, 'out': out[:600].decode('utf-8', 'replace'), 'xsl': xsl[:1500]}
    return None


def signature(case, detail):
    if 'crash' in detail:
        return 'crash:%s' % detail['crash']
    extra = ''
    if detail['what'] == 'transformation-failed':
        extra = re.split(r'[:.(]', detail.get('err', ''))[0][:60]
    if detail.get('xmlprefix'):
        extra = 'xml-prefix'
    return '%s|%s|%s' % (detail['what'], extra, ','.join(triggers(case)))


def triggers(case):
    """which constructions that open findings are about does the case contain (so that a finding can only ever cover cases that contain its trigger)"""
    t = set()
    base = dict(ROOT_NS)
    if case['default_ns']:
        base[''] = case['default_ns']
    alias_from = base.get(case['alias'][0]) if case['alias'] else None
    alias_pfx = case['alias'][0] if case['alias'] else None
    excluded = {base.get('' if p == '#default' else p) for p in case['excl']}

    def walk(n):
        if n['k'] == 'attr' and n.get('ns') is not None:
            t.add('nsattr')
        if n['k'] == 'attr' and n['name'].startswith('xml:') and n.get('avt'):
            t.add('xmlattr')
        if n['k'] == 'lre':
            for p, u in n['decl']:
                if alias_from and (u == alias_from or p == alias_pfx):
                    t.add('alias-rebound')
                if u in excluded:
                    t.add('excluded-redeclared')
        if n['k'] in ('attr', 'elem') and alias_pfx and n['name'].startswith(alias_pfx + ':'):
            t.add('alias-rebound')
        for c in n.get('c', []):
            walk(c)
    walk(case['top'])
    for lst in case['sets'].values():
        for a in lst:
            walk(a)
    return sorted(t)
