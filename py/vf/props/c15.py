"""C15 - key() returns exactly the nodes its xsl:key declaration defines."""
import re

from hypothesis import strategies as st

from .. import gen_xml, gen_xpath, model, ref_xpath

ID = 'C15'
LEVEL = 'exploration'
RULE = ('Hypothesis draws 1-4 xsl:key declarations (2 names, the same name possibly declared twice; match = a generated section 5.2 pattern over elements, '
        'attributes, text; use = string-, number-, node-set-valued expressions incl. position()/last()), a main document plus 0-2 documents loaded with '
        'document(), and a generated ORDER of 3-10 lookups key(name, value) - value a literal or a node-set expression - each with a context node in one of the '
        'documents. Each lookup writes the identity of every returned node. Oracle: the independent reference computes, per lookup, the nodes of the context '
        'document that match the pattern and for which some value of use has that string value (XSLT 12.2; use evaluated with the node as a singleton '
        'context); the returned set must be equal and in document order. The same lookups in reversed order must give the same answers (history '
        'independence). Non-trivial: >= 2 documents or >= 2 declarations, and some lookup returns >= 2 nodes. distinct = case text.')
ASSUMPTIONS = ['vf.ref_xpath (patterns + expressions) defines the expected node sets', 'every element carries a unique u attribute, used only to identify nodes in the output']

XSL = 'http://www.w3.org/1999/XSL/Transform'
USES = ['@i', '@i', '.', 'name()', 'local-name()', 'string-length(.)', 'count(*)', '*', 'text()', '@*', '../@i', 'position()', 'last()',
        "concat(@i,'-',@j)", 'b/@i', 'ancestor::*/@k', 'substring(., 1, 1)', 'number(@i) + 1', '@i | @j', 'normalize-space(.)', '@u mod 3', '..//b', "'c'"]
VALUES = ["'x'", "'1'", "'2'", "''", "'a b'", "'ab'", "'0'", "'NaN'", "'a'", "'b'", "'y'", '1', '2', '0', "'k1'", "'-'", "'10'", "'2.5'", "'c'", "'x-'", "'-x'"]
NSVALUES = ['//@i', '//b', '/*/*', '//*[@j]/@j', '//text()', '/*', '//a | //c']
FLAGS = set()
_loaded = []


def load_flags(ctx):
    if _loaded:
        return
    _loaded.append(1)
    for pid in ('C02', 'C09', 'C15'):
        for e in ctx.findings.open_for(pid):
            for f in e.get('exclusion_flags', []):
                FLAGS.add(f)
                gen_xpath.FLAGS.add(f)


def budget(tier):
    if tier == 'quick':
        return dict(workers=14, examples=1500, wall=170)
    return dict(workers=14, examples=40000, wall=1700)


def add_u(xml):
    n = [0]

    def rep(m):
        n[0] += 1
        return '%s u="%d"' % (m.group(0), n[0])
    return re.sub(r'<[A-Za-z_][\w.:-]*(?=[\s/>])', rep, xml)


@st.composite
def cases(draw):
    ndocs = draw(st.sampled_from([1, 2, 2, 3]))
    docs = [add_u(draw(gen_xml.documents(max_nodes=25, ids=False, astral=False, prolog_misc=False))) for _ in range(ndocs)]
    decls = []
    for _ in range(draw(st.integers(1, 4))):
        p = draw(gen_xpath.patterns(1))['pattern']
        use = draw(st.sampled_from(USES))
        if use in ('position()', 'last()') and gen_xpath.flag('no_position_in_key_use'):
            use = '@i'
        # the declarations of a key may be spread over import levels (all of them count: XSLT 12.2); module 0 = the main stylesheet,
        # 1 = imported by it, 2 = imported by module 1
        decls.append({'name': draw(st.sampled_from(['k1', 'k1', 'k2'])), 'match': p, 'use': use, 'mod': draw(st.sampled_from([0, 0, 0, 1, 1, 2]))})
    lookups = []
    for _ in range(draw(st.integers(3, 10))):
        lk = {'doc': draw(st.integers(0, ndocs - 1)), 'name': draw(st.sampled_from(['k1', 'k1', 'k2'])),
              'value': draw(st.sampled_from(VALUES + VALUES + NSVALUES))}
        if draw(st.integers(0, 4)) >= 2:
            lk['pick'] = draw(st.integers(0, 50))   # resolved in check(): one of the use values that actually occur
        lookups.append(lk)
    return {'docs': docs, 'decls': decls, 'lookups': lookups}


def strategy(ctx):
    load_flags(ctx)
    return cases()


IDEXPR = "concat(name(), '|', @u, '|', ../@u, '|', count(preceding-sibling::node()))"


def node_id(n):
    if n.kind == 'element':
        u = [a.value for a in n.attributes if a.qname == 'u']
        pu = [a.value for a in n.parent.attributes if a.qname == 'u'] if n.parent.kind == 'element' else []
        return '%s|%s|%s|%d' % (n.qname, u[0] if u else '', pu[0] if pu else '', n.parent.children.index(n))
    if n.kind == 'attribute':
        pu = [a.value for a in n.parent.attributes if a.qname == 'u']
        return '%s||%s|0' % (n.qname, pu[0] if pu else '')
    if n.kind == 'root':
        return '|||0'
    pu = [a.value for a in n.parent.attributes if a.qname == 'u'] if n.parent.kind == 'element' else []
    nm = n.local if n.kind == 'pi' else ''
    return '%s||%s|%d' % (nm, pu[0] if pu else '', n.parent.children.index(n))


def esc(s):
    return (s.replace('&', '&amp;').replace('<', '&lt;').replace('"', '&quot;')
            .replace('\n', '&#10;').replace('\t', '&#9;').replace('\r', '&#13;'))


HEAD = '<xsl:stylesheet version="1.0" xmlns:xsl="%s" xmlns:p="urn:p" xmlns:q="urn:q" exclude-result-prefixes="p q">' % XSL


def key_decl(d):
    return '<xsl:key name="%s" match="%s" use="%s"/>' % (d['name'], esc(d['match']), esc(d['use']))


def modules(case):
    """-> {file name: text} of the imported modules (empty when every declaration is in the main stylesheet)"""
    mods = {d.get('mod', 0) for d in case['decls']}
    out = {}
    if 2 in mods:
        out['m2.xsl'] = HEAD + ''.join(key_decl(d) for d in case['decls'] if d.get('mod', 0) == 2) + '</xsl:stylesheet>'
    if mods & {1, 2}:
        out['m1.xsl'] = (HEAD + ('<xsl:import href="m2.xsl"/>' if 2 in mods else '') +
                         ''.join(key_decl(d) for d in case['decls'] if d.get('mod', 0) == 1) + '</xsl:stylesheet>')
    return out


def stylesheet(case, order):
    parts = [HEAD]
    if any(d.get('mod', 0) for d in case['decls']):
        parts.append('<xsl:import href="m1.xsl"/>')
    parts.append('<xsl:output method="text"/>')
    for d in case['decls']:
        if d.get('mod', 0) == 0:
            parts.append(key_decl(d))
    parts.append('<xsl:template match="/">')
    for i in order:
        lk = case['lookups'][i]
        ctxsel = '/' if lk['doc'] == 0 else "document('d%d.xml')" % lk['doc']
        parts.append('<xsl:for-each select="%s">L%d=<xsl:for-each select="key(\'%s\', %s)"><xsl:value-of select="%s"/>;</xsl:for-each><xsl:text>&#10;</xsl:text></xsl:for-each>'
                     % (ctxsel, i, lk['name'], esc(lk['value']), IDEXPR))
    parts.append('</xsl:template></xsl:stylesheet>')
    return ''.join(parts)


def resolve_picks(case, mdocs):
    """a lookup with 'pick' uses the pick-th (sorted) of the use values occurring in its document for its key name"""
    ns = {'p': 'urn:p', 'q': 'urn:q'}
    cache = {}
    for lk in case['lookups']:
        if 'pick' not in lk:
            continue
        key = (lk['doc'], lk['name'])
        if key not in cache:
            vals = set()
            doc = mdocs[lk['doc']]
            for n in doc.nodes(attrs=True, ns=False):
                for d in case['decls']:
                    if d['name'] == lk['name'] and ref_xpath.pattern_matches(d['_pat'], n, ref_xpath.Context(n, 1, 1, {}, ns, {})):
                        u = ref_xpath.evaluate(d['_use'], ref_xpath.Context(n, 1, 1, {}, ns, {}))
                        vals |= {x.string_value() for x in u} if isinstance(u, list) else {ref_xpath.to_string(u)}
            cache[key] = sorted(v for v in vals if "'" not in v or '"' not in v)
        vals = cache[key]
        if vals:
            v = vals[lk['pick'] % len(vals)]
            lk['value'] = ('"%s"' % v) if "'" in v else ("'%s'" % v)
        lk.pop('pick')


def expected(case, mdocs, i):
    lk = case['lookups'][i]
    doc = mdocs[lk['doc']]
    ns = {'p': 'urn:p', 'q': 'urn:q'}
    root_ctx = ref_xpath.Context(doc.root, 1, 1, {}, ns, {})
    v = ref_xpath.evaluate(ref_xpath.parse(lk['value']), root_ctx)
    if isinstance(v, list):
        wanted = {n.string_value() for n in v}
    else:
        wanted = {ref_xpath.to_string(v)}
    res = []
    for n in doc.nodes(attrs=True, ns=False):
        hit = False
        for d in case['decls']:
            if d['name'] != lk['name']:
                continue
            if not ref_xpath.pattern_matches(d['_pat'], n, ref_xpath.Context(n, 1, 1, {}, ns, {})):
                continue
            u = ref_xpath.evaluate(d['_use'], ref_xpath.Context(n, 1, 1, {}, ns, {}))
            vals = {x.string_value() for x in u} if isinstance(u, list) else {ref_xpath.to_string(u)}
            if vals & wanted:
                hit = True
                break
        if hit:
            res.append(n)
    return res


def check(ctx, case):
    load_flags(ctx)
    declared = {d['name'] for d in case['decls']}
    for lk in case['lookups']:
        if lk['name'] not in declared:
            lk['name'] = case['decls'][0]['name']   # a lookup of an undeclared key is an error (XSLT 12.2): not in the domain
    try:
        mdocs = [model.parse_document(x) for x in case['docs']]
        for d in case['decls']:
            d['_pat'] = ref_xpath.parse_pattern(d['match'])
            d['_use'] = ref_xpath.parse(d['use'])
    except (ValueError, ref_xpath.XPathSyntaxError):
        return None
    try:
        resolve_picks(case, mdocs)
        exp = [expected(case, mdocs, i) for i in range(len(case['lookups']))]
    except (ref_xpath.XPathStaticError, ref_xpath.XPathDynamicError):
        ctx.counters['ref:error'] += 1
        return None
    finally:
        for d in case['decls']:
            d.pop('_pat', None)
            d.pop('_use', None)
    big = any(len(e) >= 2 for e in exp)
    uses_pos = any(re.search(r'position|last', d['use']) for d in case['decls'])
    ctx.note(case, (len(mdocs) >= 2 or len(case['decls']) >= 2) and big,
             ['docs:%d' % len(mdocs), 'decls:%d' % len(case['decls'])] + (['>=2 nodes'] if big else []) + (['use:position'] if uses_pos else []) +
             (['nodeset-value'] if any(lk['value'] in NSVALUES for lk in case['lookups']) else []),
             sample_text={'decls': case['decls'], 'lookups': case['lookups'][:4], 'doc0': case['docs'][0][:200]})
    res = [('res', 'd%d.xml\0%s' % (i, case['docs'][i])) for i in range(1, len(case['docs']))]
    res += [('res', '%s\0%s' % kv) for kv in sorted(modules(case).items())]
    n = len(case['lookups'])
    answers = []
    for order in (list(range(n)), list(range(n - 1, -1, -1))):
        r = ctx.drv.call('transform', res, xsl=stylesheet(case, order).encode('utf-8'), xml=case['docs'][0].encode('utf-8'))
        if r.gets('rc') != '0':
            return {'what': 'transformation-failed', 'err': (r.gets('err') or '')[:300], 'decls': case['decls'], 'uses_pos': uses_pos}
        out = (r.get('out') or b'').decode('utf-8')
        got = {}
        for line in out.split('\n'):
            m = re.match(r'L(\d+)=(.*)$', line, re.S)
            if m:
                got[int(m.group(1))] = [x for x in m.group(2).split(';') if x]
        answers.append(got)
    for i in range(n):
        want = [node_id(x) for x in exp[i]]
        g = answers[0].get(i, [])
        lk = case['lookups'][i]
        relevant = [d for d in case['decls'] if d['name'] == lk['name']]
        if sorted(g) != sorted(want) or len(g) != len(set(g)):
            return {'what': 'wrong-nodes', 'lookup': lk, 'decls': relevant, 'expected': want[:12], 'got': g[:12], 'uses_pos': any(re.search(r'position|last', d['use']) for d in relevant),
                    'extra': sorted(set(g) - set(want))[:5], 'missing': sorted(set(want) - set(g))[:5], 'doc': case['docs'][lk['doc']][:500]}
        if g != want:
            return {'what': 'not-document-order', 'lookup': lk, 'decls': relevant, 'expected': want[:12], 'got': g[:12], 'uses_pos': False}
        if answers[1].get(i, []) != g:
            return {'what': 'depends-on-lookup-order', 'lookup': lk, 'decls': relevant, 'forward': g[:12], 'reversed': answers[1].get(i, [])[:12], 'uses_pos': False}
    return None


def signature(case, detail):
    if 'crash' in detail:
        return 'crash:%s' % detail['crash']
    kinds = ''
    if 'extra' in detail or 'missing' in detail:
        kinds = ('extra' if detail.get('extra') else '') + ('missing' if detail.get('missing') else '')
        if any(x.startswith('|||') for x in detail.get('extra', [])):
            kinds += ':root'
    feat = 'use-position' if detail.get('uses_pos') else ''
    if any('//' in d.get('match', '') and re.search(r'[\w)\]*]\s*/\s*[\w@*(:\s]+//', d.get('match', '')) for d in detail.get('decls', [])):
        feat += 'multi-step-dslash'
    return '%s|%s|%s' % (detail['what'], kinds, feat)
