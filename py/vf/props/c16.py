"""C16 - xsl:sort yields a stable permutation ordered by its keys."""
import math

from hypothesis import strategies as st

from .. import model, ref_xpath

ID = 'C16'
LEVEL = 'exploration'
RULE = ('Hypothesis draws a list of 0-30 items (attributes n = numeric strings incl. NaN-producing junk, Infinity, -0, 1e3, the value 135792468, '
        'duplicates; t = text over [a-z0-9] incl. empty and duplicates; g = group flag), a selection (all, filtered, via a reverse axis), 1-3 sort keys '
        '(select from a pool incl. computed expressions and position(); order ascending|descending; data-type text|number) and the instruction '
        '(xsl:for-each | xsl:apply-templates). The body writes id, position(), last() per processed node. Oracle (validity predicate, key values computed '
        'by the independent XPath reference): the output is a permutation of the selected nodes; every adjacent pair is ordered lexicographically under '
        'the per-key comparators (number: NaN first when ascending, -0 = 0; text: code-point order on the restricted alphabet); nodes equal on all keys '
        'keep document order; position() = 1..n, last() = n. Non-trivial: >= 5 nodes and >= 2 nodes tie on the first key. distinct = case text.'
        ' In a third of the cases the text values differ in case only (a/A/ab/Ab/aB...), every text key has lang="en" and a drawn case-order; such keys are compared by a collation key (letters without case first, digits before letters, a prefix before the longer string, then case position by position: lower case first unless case-order="upper-first").')
ASSUMPTIONS = ['ICU collation of strings over [a-z0-9] equals code-point order (verified by an ad-hoc run of 600 cases); other collation is not judged',
               'vf.ref_xpath computes the key values']

XSL = 'http://www.w3.org/1999/XSL/Transform'
NUMS = ['1', '2', '3', '10', '2.5', '-1', '0', '-0', '007', ' 4 ', '1e3', 'x', '', 'NaN', 'Infinity', '-Infinity', '135792468', '135792468', '0.1', '100', '3', '3', '2']
TEXTS = ['a', 'b', 'c', 'ab', 'abc', 'b2', '0', '1', '10', '2', 'z', '', 'a', 'b', 'aa', 'a0', 'zz9']
# values that differ only in case: judged only when every text key names lang="en" (the ICU collation of 'en': letters compare without case
# first, digits before letters; strings equal so far are ordered by case, position by position, lower case first unless case-order says
# upper-first)
TEXTS_CASE = ['a', 'A', 'b', 'B', 'ab', 'Ab', 'aB', 'AB', 'a1', 'A1', '', 'b2', 'B2', 'aa', 'aA', 'Aa', 'a', 'A']
KEYS = [('@n', 'number'), ('@n', 'text'), ('@t', 'text'), ('.', 'text'), ('number(@n) mod 3', 'number'), ('string-length(@t)', 'number'),
        ('position()', 'number'), ('@g', 'text'), ('concat(@t, @g)', 'text'), ('-number(@n)', 'number'), ('count(preceding-sibling::i)', 'number'),
        ('substring(@t, 2)', 'text'), ('@missing', 'text'), ('@missing', 'number'), ('last() - position()', 'number')]
SELECTS = ['/r/i', '/r/i', "/r/i[@g='1']", '//i', '/r/i[last()]/preceding-sibling::i', "/r/i[@g='0'] | /r/i[@t='a']", '/r/i[position() mod 2 = 1]']


def budget(tier):
    if tier == 'quick':
        return dict(workers=14, examples=2500, wall=160)
    return dict(workers=14, examples=60000, wall=1700)


@st.composite
def cases(draw):
    n = draw(st.one_of(st.integers(0, 8), st.integers(0, 30)))
    small = draw(st.booleans())   # small value pools give many ties
    mixed = draw(st.sampled_from([False, False, True]))   # values that differ in case only, every text key with lang="en" and a drawn case-order
    texts = TEXTS_CASE if mixed else TEXTS
    items = []
    for i in range(n):
        items.append({'n': draw(st.sampled_from(NUMS[:6] if small else NUMS)), 't': draw(st.sampled_from(texts[:4] if small else texts)),
                      'g': draw(st.sampled_from(['0', '1'])), 'x': draw(st.sampled_from(texts))})
    keys = []
    for _ in range(draw(st.integers(1, 3))):
        sel, dt = draw(st.sampled_from(KEYS))
        keys.append({'select': sel, 'data-type': dt if draw(st.integers(0, 5)) else None, 'dt': dt,
                     'order': draw(st.sampled_from([None, 'ascending', 'descending'])),
                     # text keys over [a-z0-9]: the collation of 'en' orders them like code points, so lang= must not change the result
                     'lang': draw(st.sampled_from([None, None, 'en', 'en-US'])) if dt == 'text' else None})
    for k in keys:
        if k['data-type'] is None:
            k['dt'] = 'text'
        if mixed and k['dt'] == 'text':
            k['lang'] = 'en'
            k['case-order'] = draw(st.sampled_from([None, None, 'upper-first', 'lower-first']))
    return {'items': items, 'keys': keys, 'select': draw(st.sampled_from(SELECTS)), 'how': draw(st.sampled_from(['for-each', 'apply-templates'])),
            'nested': draw(st.integers(0, 4)) == 0}


def strategy(ctx):
    return cases()


def source(case):
    parts = ['<r>']
    for i, it in enumerate(case['items']):
        parts.append('<i id="%d" n="%s" t="%s" g="%s">%s</i>' % (i, it['n'], it['t'], it['g'], it['x']))
        if case.get('nested') and i % 3 == 2:
            parts.append('<w><i id="w%d" n="%s" t="%s" g="1">%s</i></w>' % (i, it['t'], it['n'].strip() or 'q', it['x']))
    parts.append('</r>')
    return ''.join(parts)


def stylesheet(case):
    sorts = ''.join('<xsl:sort select="%s"%s%s/>' % (k['select'].replace('<', '&lt;'),
                                                   ' data-type="%s"' % k['data-type'] if k['data-type'] else '',
                                                   (' order="%s"' % k['order'] if k['order'] else '') + (' lang="%s"' % k['lang'] if k.get('lang') else '') +
                                                   (' case-order="%s"' % k['case-order'] if k.get('case-order') else '')) for k in case['keys'])
    body = '<xsl:value-of select="@id"/>,<xsl:value-of select="position()"/>,<xsl:value-of select="last()"/>;'
    if case['how'] == 'for-each':
        main = '<xsl:for-each select="%s">%s%s</xsl:for-each>' % (case['select'], sorts, body)
        extra = ''
    else:
        main = '<xsl:apply-templates select="%s" mode="m">%s</xsl:apply-templates>' % (case['select'], sorts)
        extra = '<xsl:template match="i" mode="m">%s</xsl:template>' % body
    return ('<xsl:stylesheet version="1.0" xmlns:xsl="%s"><xsl:output method="text"/><xsl:template match="/">%s</xsl:template>%s</xsl:stylesheet>'
            % (XSL, main, extra))


def numkey(x):
    """sort rank of a number under ascending order: NaN first, then by value (-0 == 0)"""
    if x != x:
        return (0, 0.0)
    return (1, x + 0.0)


def check(ctx, case):
    xml = source(case)
    doc = model.parse_document(xml)
    rctx = ref_xpath.Context(doc.root, 1, 1, {}, {}, {})
    selected = ref_xpath.evaluate(ref_xpath.parse(case['select']), rctx)
    n = len(selected)
    ids = [e.attributes and [a.value for a in e.attributes if a.local == 'id'][0] for e in selected]
    keyvals = {}
    asts = [ref_xpath.parse(k['select']) for k in case['keys']]
    for pos, node in enumerate(selected):
        vals = []
        for k, ast in zip(case['keys'], asts):
            v = ref_xpath.evaluate(ast, ref_xpath.Context(node, pos + 1, n, {}, {}, {}))
            if k['dt'] == 'number':
                vals.append(numkey(ref_xpath.to_number(v)))
            else:
                vals.append(ref_xpath.to_string(v))
        keyvals[ids[pos]] = vals
    docpos = {i: p for p, i in enumerate(ids)}
    first = [tuple(v[:1]) for v in keyvals.values()]
    ties = len(first) != len(set(first))
    ctx.note(case, n >= 5 and ties, ['how:' + case['how'], 'keys:%d' % len(case['keys']), 'n>=5' if n >= 5 else 'n<5'] + (['ties'] if ties else []) +
             ['dt:' + k['dt'] for k in case['keys']] + (['desc'] if any(k['order'] == 'descending' for k in case['keys']) else []) +
             (['case-order'] if any(k.get('case-order') for k in case['keys']) else []) +
             (['mixed-case-values'] if any(isinstance(v, str) and v != v.lower() for kv in keyvals.values() for v in kv) else []),
             sample_text={'select': case['select'], 'keys': case['keys'], 'n': n})
    r = ctx.drv.call('transform', xsl=stylesheet(case).encode('utf-8'), xml=xml.encode('utf-8'))
    if r.gets('rc') != '0':
        return {'what': 'transformation-failed', 'err': (r.gets('err') or '')[:300]}
    out = (r.get('out') or b'').decode('utf-8')
    rows = [x.split(',') for x in out.split(';') if x]
    got = [x[0] for x in rows]
    if sorted(got) != sorted(ids):
        return {'what': 'not-a-permutation', 'expected': ids[:40], 'got': got[:40]}
    for p, row in enumerate(rows):
        if row[1] != str(p + 1) or row[2] != str(n):
            return {'what': 'position-last', 'row': row, 'index': p, 'n': n}

    # a key with lang= is collated by the ICU tailoring of that language, which this oracle only knows for [a-z0-9] (there it is code
    # point order): if such a key sees any other character (e.g. the upper-case 'NaN') the ordering is not judged
    import re as _re
    for i, k in enumerate(case['keys']):
        if k.get('lang') and any(isinstance(kv[i], str) and not _re.fullmatch(r'[a-zA-Z0-9]*', kv[i]) for kv in keyvals.values()):
            ctx.counters['unjudged:lang-key-outside-a-zA-Z0-9'] += 1
            return None
        if not k.get('lang') and k['dt'] == 'text' and any(isinstance(kv[i], str) and _re.search(r'[A-Z]', kv[i]) for kv in keyvals.values()):
            # without lang= the collation is that of the environment: upper case is only judged under lang="en"
            ctx.counters['unjudged:upper-case-without-lang'] += 1
            return None

    def collkey(sv, k):
        """rank of a string over [a-zA-Z0-9] under the collation of 'en': letters without case first (digits before letters, a prefix before
        the longer string), then case position by position"""
        upper_first = k.get('case-order') == 'upper-first'
        return (sv.lower(), tuple((0 if ch.isupper() else 1) if upper_first else (1 if ch.isupper() else 0) for ch in sv))

    def cmp_pair(a, b):
        """-1 if a must come before b, 1 if after, 0 if equal on all keys"""
        for i, k in enumerate(case['keys']):
            x, y = keyvals[a][i], keyvals[b][i]
            if x == y:
                continue
            if k.get('lang') and isinstance(x, str):
                x, y = collkey(x, k), collkey(y, k)
            c = -1 if x < y else 1
            if k['order'] == 'descending':
                c = -c
            return c
        return 0
    for a, b in zip(got, got[1:]):
        c = cmp_pair(a, b)
        if c > 0:
            return {'what': 'not-sorted', 'a': a, 'b': b, 'ka': _j(keyvals[a]), 'kb': _j(keyvals[b]), 'keys': case['keys'], 'got': got[:40]}
        if c == 0 and docpos[a] > docpos[b]:
            return {'what': 'not-stable', 'a': a, 'b': b, 'ka': _j(keyvals[a]), 'keys': case['keys'], 'got': got[:40]}
    return None


def _j(v):
    return [list(x) if isinstance(x, tuple) else x for x in v]


def signature(case, detail):
    if 'crash' in detail:
        return 'crash:%s' % detail['crash']
    dts = '+'.join(sorted({k['dt'] for k in detail.get('keys', [])}))
    return '%s|%s' % (detail['what'], dts)
