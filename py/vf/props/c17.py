"""C17 - xsl:number counts per the Recommendation, independent of evaluation history."""
import re

from hypothesis import strategies as st

from .. import gen_xml, gen_xpath, model, ref_xpath

ID = 'C17'
LEVEL = 'exploration'
RULE = ('Hypothesis draws a document, 1-3 xsl:number instructions (level single|multiple|any; count / from patterns from a pool plus generated section 5.2 '
        'patterns, or the defaults; format strings built from tokens 1 01 001 a A i I with prefixes, separators, suffixes; grouping-separator/size), a set of '
        'visited nodes (elements, optionally text/comments) and a VISITING ORDER (document, reverse, two pseudo-random permutations) realised with xsl:sort '
        'inside one transformation, so that the instructions share the counters table; plus value= forms over positive integers. Oracle: the number list '
        'of XSLT 7.7 computed by a direct Python implementation over the independent model/pattern reference, rendered by a Python implementation of 7.7.1; '
        'the output for a node must be the same under every visiting order. Where the Recommendation is silent (current node matches from, nothing matches '
        'from, empty lists, zero) the reference comparison is skipped and only order-independence is judged. Non-trivial: level=any with from, or >= 2 '
        'orders over >= 5 counted nodes. distinct = case text.'
        ' Every transformation is run a second time on the same XalanTransformer (new source tree, same counters): status and output must repeat.')
ASSUMPTIONS = ['the Python implementation of XSLT 7.7 / 7.7.1 below (about 80 lines) and vf.ref_xpath.pattern_matches',
               'roman numerals judged for 1..3999, alphabetic for >= 1, no lang / letter-value']

XSL = 'http://www.w3.org/1999/XSL/Transform'
PATS = ['a', 'b', 'c', '*', 'a|b', 'a|c', '*[@i]', 'a[@j]', 'b/a', '*/*', 'a//b', 'node()', 'text()', 'a|text()', 'd', 'p:*', '*[not(self::a)]', 'c|d', '/*', '*[*]']
FORMATS = ['1', '1', '1.', '1.1', '01', '001', 'a', 'A', 'i', 'I', '1.a', 'A.1.i', '(1)', '[1-a]', '1) ', 'I.', '1.1.1', 'a-1', '§1', '1. ', ' 1 ', '-1-', '0001', 'i.I.a.A.1.01']
FLAGS = set()
REPLAY = [False]
_loaded = []


def load_flags(ctx):
    if _loaded:
        return
    _loaded.append(1)
    for pid in ('C02', 'C09', 'C17'):
        for e in ctx.findings.open_for(pid):
            for f in e.get('exclusion_flags', []):
                FLAGS.add(f)
                gen_xpath.FLAGS.add(f)


def budget(tier):
    if tier == 'quick':
        return dict(workers=14, examples=1200, wall=170)
    return dict(workers=14, examples=30000, wall=1700)


@st.composite
def number_instr(draw):
    k = draw(st.integers(0, 9))
    ins = {}
    if k == 0:
        ins['value'] = draw(st.sampled_from(['count(preceding-sibling::*) + 1', 'count(preceding::*) + 1', '3', '26', '27', '52', '703', '4', '9', '14', '40', '90', '400', '1999', '3999',
                                             'count(ancestor::*) * 1000 + 1', '1000000', '123456', 'string-length(name()) + 25', '2.5', '1.49',
                                             # carries of the alphabetic numbering: ...YZ, ZZ -> AAA, ZY/ZZ borders, and a running range
                                             '676', '677', '702', '1352', '17576', '18278', '18279', '475254', 'count(preceding::node()) * 13 + 650', 'count(preceding::node()) * 26 + 17550']))
    else:
        ins['level'] = draw(st.sampled_from(['single', 'single', 'multiple', 'multiple', 'any', 'any', None]))
        if draw(st.integers(0, 2)) > 0:
            ins['count'] = draw(st.sampled_from(PATS)) if draw(st.integers(0, 3)) else draw(gen_xpath.patterns(0))['pattern']
        if draw(st.integers(0, 2)) == 0:
            ins['from'] = draw(st.sampled_from(PATS))
    if draw(st.integers(0, 2)) > 0:
        ins['format'] = draw(st.sampled_from(FORMATS))
    if draw(st.integers(0, 5)) == 0:
        ins['grouping-separator'] = draw(st.sampled_from([',', '.', ' ']))
        ins['grouping-size'] = draw(st.sampled_from(['3', '2', '1']))
    return ins


@st.composite
def cases(draw):
    xml = draw(gen_xml.documents(max_nodes=35, ids=False, astral=False, prolog_misc=draw(st.booleans()), min_children=draw(st.sampled_from([0, 1, 2]))))
    return {'xml': xml, 'instrs': [draw(number_instr()) for _ in range(draw(st.integers(1, 3)))],
            'visit': draw(st.sampled_from(['//*', '//*', '//*|//text()', '//node()', '//processing-instruction()|//comment()', '//a|//b', '//*[not(*)]', '//@*', '//*|//@*'])),
            'orders': draw(st.lists(st.sampled_from(['doc', 'rev', 'mix7', 'mix3']), min_size=2, max_size=3, unique=True))}


def strategy(ctx):
    load_flags(ctx)
    return cases()


# ------------------------------------------------------------------------------------------ XSLT 7.7 in Python
NS = {'p': 'urn:p', 'q': 'urn:q'}


class Unjudged(Exception):
    pass


def matches(pat, n):
    return ref_xpath.pattern_matches(pat, n, ref_xpath.Context(n, 1, 1, {}, NS, {}))


def default_count(cur):
    """nodes with the same node type and, if the current node has an expanded-name, the same expanded-name"""
    if cur.kind in ('element', 'attribute'):
        return lambda n: n.kind == cur.kind and n.uri == cur.uri and n.local == cur.local
    if cur.kind == 'pi':
        return lambda n: n.kind == 'pi' and n.local == cur.local
    return lambda n: n.kind == cur.kind


def ancestors_or_self(n):
    out = []
    while n is not None:
        out.append(n)
        n = n.parent
    return out   # innermost first


def number_list(ins, cur, doc):
    cnt = (lambda n: matches(ins['_count'], n)) if '_count' in ins else default_count(cur)
    frm = (lambda n: matches(ins['_from'], n)) if '_from' in ins else None
    level = ins.get('level') or 'single'
    chain = ancestors_or_self(cur)
    if level in ('single', 'multiple'):
        limit = None
        if frm is not None:
            if frm(cur):
                raise Unjudged('current node matches from')
            anc = [a for a in chain[1:] if frm(a)]
            if not anc:
                raise Unjudged('no ancestor matches from')
            limit = anc[0]   # nearest
        cands = []
        for a in chain:
            if a is limit:
                break
            if cnt(a):
                cands.append(a)
        if level == 'single':
            cands = cands[:1]
        out = []
        for t in reversed(cands):   # document order = outermost first
            sibs = t.parent.children if t.parent is not None else [t]
            if t.kind == 'namespace':
                raise Unjudged('namespace target')
            if t.kind == 'attribute':
                out.append(1)    # an attribute has no siblings: "one plus the number of preceding siblings that match"
                continue
            out.append(1 + sum(1 for s in sibs[:sibs.index(t)] if cnt(s)))
        return out
    # any
    if cur.kind in ('attribute', 'namespace'):
        raise Unjudged('level any on an attribute node')
    if cnt(doc.root):
        raise Unjudged('count pattern matches the root node')
    nodes = [n for n in doc.nodes(attrs=False) if n.order <= cur.order]
    start = 0
    if frm is not None:
        if frm(cur):
            raise Unjudged('current node matches from')
        before = [n for n in nodes if n is not cur and frm(n)]
        if not before:
            raise Unjudged('nothing before matches from')
        if 'any_from_unjudged' in FLAGS and not REPLAY[0]:
            raise Unjudged('known finding: level=any with from')
        start = before[-1].order   # "the first node before the current node that matches from" = nearest, going backwards
        nodes = [n for n in nodes if n.order > start]
    c = sum(1 for n in nodes if cnt(n))
    if c == 0:
        raise Unjudged('zero count')
    return [c]


def roman(n, upper):
    if not (1 <= n <= 3999):
        raise Unjudged('roman out of range')
    vals = [(1000, 'm'), (900, 'cm'), (500, 'd'), (400, 'cd'), (100, 'c'), (90, 'xc'), (50, 'l'), (40, 'xl'), (10, 'x'), (9, 'ix'), (5, 'v'), (4, 'iv'), (1, 'i')]
    out = ''
    for v, s in vals:
        while n >= v:
            out += s
            n -= v
    return out.upper() if upper else out


def alpha(n, upper):
    if n < 1:
        raise Unjudged('alphabetic < 1')
    out = ''
    while n > 0:
        n -= 1
        out = chr(ord('a') + n % 26) + out
        n //= 26
    return out.upper() if upper else out


def fmt_one(n, tok, gsep, gsize):
    if tok in ('a', 'A'):
        return alpha(n, tok == 'A')
    if tok in ('i', 'I'):
        return roman(n, tok == 'I')
    if re.match(r'^0*1$', tok):
        s = str(n).rjust(len(tok), '0')
        if gsep and gsize and len(tok) > 1:
            raise Unjudged('zero padding combined with grouping')
        if gsep and gsize:
            g = int(gsize)
            parts = []
            while len(s) > g:
                parts.insert(0, s[-g:])
                s = s[:-g]
            parts.insert(0, s)
            s = gsep.join(parts)
        return s
    raise Unjudged('format token ' + tok)


def format_list(nums, ins):
    f = ins.get('format', '1')
    toks = re.findall(r'[^\W_]+|[\W_]+', f, re.UNICODE)
    alnum = [t for t in toks if re.match(r'^[^\W_]+$', t, re.UNICODE)]
    prefix = toks[0] if toks and toks[0] not in alnum else ''
    suffix = toks[-1] if toks and toks[-1] not in alnum and len(toks) > 1 or (toks and toks[-1] not in alnum and not alnum) else ''
    if not alnum:
        # no format token: default token 1, separator '.'; the whole string is prefix... (7.7.1 is silent) -> unjudged
        raise Unjudged('format without token')
    if toks[-1] not in alnum:
        suffix = toks[-1]
    else:
        suffix = ''
    seps = []
    core = toks[(1 if prefix else 0):(len(toks) - (1 if suffix else 0))]
    for i in range(1, len(core), 2):
        seps.append(core[i])
    out = prefix
    gsep, gsize = ins.get('grouping-separator'), ins.get('grouping-size')
    for i, n in enumerate(nums):
        tok = alnum[i] if i < len(alnum) else alnum[-1]
        if i > 0:
            out += seps[i - 1] if i - 1 < len(seps) else (seps[-1] if seps else '.')
        out += fmt_one(n, tok, gsep, gsize)
    return out + suffix


# ------------------------------------------------------------------------------------------ stylesheet
def esc(s):
    return s.replace('&', '&amp;').replace('<', '&lt;').replace('"', '&quot;')


ORDER_KEYS = {'doc': ('$id', 'ascending'), 'rev': ('$id', 'descending'), 'mix7': ('($id * 7) mod 11', 'ascending'), 'mix3': ('($id * 3 + 1) mod 5', 'descending')}
IDX = 'count(preceding::node()) + count(ancestor::node())'
# unique label of a visited node: IDX, for attribute nodes the IDX of the element followed by '@' and the attribute's qualified name
LABEL = "concat(count(preceding::node()) + count(ancestor::node()) - number(count(.|../@*) = count(../@*)), substring(concat('@', name()), 1, number(count(.|../@*) = count(../@*)) * 200))"


def stylesheet(case):
    parts = ['<xsl:stylesheet version="1.0" xmlns:xsl="%s" xmlns:p="urn:p" xmlns:q="urn:q" exclude-result-prefixes="p q"><xsl:output method="text"/>' % XSL,
             '<xsl:template match="/">']
    for oi, o in enumerate(case['orders']):
        key, direction = ORDER_KEYS[o]
        parts.append('<xsl:for-each select="%s"><xsl:sort select="%s" data-type="number" order="%s"/><xsl:sort select="%s" data-type="number"/>'
                     % (esc(case['visit']), esc(key.replace('$id', '(' + IDX + ')')), direction, esc(IDX)))
        parts.append('O%d N<xsl:value-of select="%s"/>=' % (oi, esc(LABEL)))
        for ins in case['instrs']:
            attrs = ''.join(' %s="%s"' % (k, esc(v)) for k, v in ins.items() if v is not None and not k.startswith('_'))
            parts.append('<xsl:number%s/>|' % attrs)
        parts.append('<xsl:text>&#10;</xsl:text></xsl:for-each>')
    parts.append('</xsl:template></xsl:stylesheet>')
    return ''.join(parts)


def check(ctx, case):
    load_flags(ctx)
    REPLAY[0] = ctx.tier == 'replay'
    try:
        doc = model.parse_document(case['xml'])
        for ins in case['instrs']:
            if 'count' in ins:
                ins['_count'] = ref_xpath.parse_pattern(ins['count'])
            if 'from' in ins:
                ins['_from'] = ref_xpath.parse_pattern(ins['from'])
    except (ValueError, ref_xpath.XPathSyntaxError):
        for ins in case['instrs']:
            ins.pop('_count', None)
            ins.pop('_from', None)
        return None
    try:
        return _check(ctx, case, doc)
    finally:
        for ins in case['instrs']:
            ins.pop('_count', None)
            ins.pop('_from', None)


def _check(ctx, case, doc):
    nodes = doc.nodes(attrs=False)
    rctx = ref_xpath.Context(doc.root, 1, 1, {}, NS, {})
    visited = ref_xpath.evaluate(ref_xpath.parse(case['visit']), rctx)
    # followup=2: the same transformation is run a second time on the same XalanTransformer (a new source tree, the same counters)
    r = ctx.drv.call('transform', xsl=stylesheet(case).encode('utf-8'), xml=case['xml'].encode('utf-8'), followup=2)
    any_from = any(i.get('level') == 'any' and 'from' in i for i in case['instrs'])
    ctx.note(case, any_from or len(visited) >= 5,
             ['visited>=5' if len(visited) >= 5 else 'visited<5'] + ['level:%s' % (i.get('level') or ('value' if 'value' in i else 'default')) for i in case['instrs']] +
             (['from'] if any('from' in i for i in case['instrs']) else []) + (['count'] if any('count' in i for i in case['instrs']) else []) +
             (['any+from'] if any_from else []),
             sample_text={'instrs': [{k: v for k, v in i.items() if not k.startswith('_')} for i in case['instrs']], 'visit': case['visit'], 'orders': case['orders'],
                          'xml': case['xml'][:200]})
    if r.gets('rc') != '0':
        err = r.gets('err') or ''
        return {'what': 'transformation-failed', 'err': err[:300], 'instrs': _clean(case['instrs']), 'pi': 'processing-instruction' in err}
    out = (r.get('out') or b'').decode('utf-8')
    if r.gets('g.rc') != '0' or (r.get('g.out') or b'') != (r.get('out') or b''):
        # "does not depend on which nodes were numbered before": not on those of an earlier transformation of the same transformer either
        return {'what': 'second-transformation-differs', 'instrs': _clean(case['instrs']), 'visit': case['visit'], 'first': out[:300],
                'second': (r.get('g.out') or b'').decode('utf-8', 'replace')[:300], 'g.err': (r.gets('g.err') or '')[:200]}
    per_order = {}
    for line in out.split('\n'):
        m = re.match(r'O(\d+) N([^=]+)=(.*)$', line, re.S)
        if m:
            per_order.setdefault(int(m.group(1)), {})[m.group(2)] = m.group(3).split('|')[:-1]
    base = per_order.get(0, {})
    pos = {n.order: i for i, n in enumerate(nodes)}

    def label(n):
        if n.kind == 'attribute':
            return '%d@%s' % (pos[n.parent.order], n.qname)
        return '%d' % pos[n.order]
    idx = {n.order: label(n) for n in visited}
    for oi in range(1, len(case['orders'])):
        if per_order.get(oi, {}) != base:
            diff = [k for k in base if per_order.get(oi, {}).get(k) != base[k]][:3]
            return {'what': 'depends-on-visiting-order', 'orders': case['orders'], 'nodes': diff, 'a': [base.get(k) for k in diff],
                    'b': [per_order.get(oi, {}).get(k) for k in diff], 'instrs': _clean(case['instrs'])}
    if len(base) != len(visited):
        return {'what': 'visited-set-differs', 'expected': len(visited), 'got': len(base), 'instrs': _clean(case['instrs'])}
    for n in visited:
        i = idx[n.order]
        got = base.get(i)
        if got is None:
            return {'what': 'visited-node-missing', 'node': n.key}
        for j, ins in enumerate(case['instrs']):
            try:
                if 'value' in ins:
                    v = ref_xpath.to_number(ref_xpath.evaluate(ref_xpath.parse(ins['value']), ref_xpath.Context(n, 1, 1, {}, NS, {})))
                    if v != v or v < 0.5 or v != int(v):
                        raise Unjudged('value not a positive integer')
                    nums = [int(v)]
                else:
                    nums = number_list(ins, n, doc)
                    if not nums:
                        raise Unjudged('empty list')
                exp = format_list(nums, ins)
            except Unjudged as u:
                ctx.counters['unjudged:' + str(u)] += 1
                continue
            except (ref_xpath.XPathStaticError, ref_xpath.XPathDynamicError):
                ctx.counters['unjudged:ref-error'] += 1
                continue
            ctx.counters['judged'] += 1
            if got[j] != exp:
                return {'what': 'wrong-number', 'node': n.key, 'kind': n.kind, 'instr': _clean([ins])[0], 'expected': exp, 'got': got[j], 'numbers': nums,
                        'level': ins.get('level') or ('value' if 'value' in ins else 'single'), 'has_from': 'from' in ins, 'has_count': 'count' in ins}
    return None


def _clean(instrs):
    return [{k: v for k, v in i.items() if not k.startswith('_')} for i in instrs]


def signature(case, detail):
    if 'crash' in detail:
        return 'crash:%s' % detail['crash']
    extra = ''
    if detail['what'] == 'wrong-number':
        extra = '%s|%s|%s|%s' % (detail.get('level'), 'from' if detail.get('has_from') else '', 'count' if detail.get('has_count') else 'default', detail.get('kind'))
        if detail.get('expected', '') and detail.get('got', '') and _digits(detail['expected']) == _digits(detail['got']):
            extra += '|format'
    if detail['what'] == 'transformation-failed' and detail.get('pi'):
        extra = 'pi'
    return '%s|%s' % (detail['what'], extra)


def _digits(s):
    return re.sub(r'\W', '', s)
