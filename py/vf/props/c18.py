"""C18 - number/string conversions follow XPath and round-trip exactly."""
import math, re, struct
from fractions import Fraction

from hypothesis import strategies as st

ID = 'C18'
LEVEL = 'exploration'
RULE = ('Hypothesis draws (a) doubles by bit pattern: uniform over sign x exponent x mantissa plus boundary classes '
        '(powers of two/ten +-k ulp, 2^53 and 2^63 neighbourhoods, subnormals, n+0.5 ties, 0.49999999999999994, +-0, NaN, +-inf) '
        'and (b) strings over digits . - + e whitespace and junk (numerals with up to 400 digits, near-valid numerals). '
        'Each is pushed through NumberToDOMString, NumberToCharacters, DoubleSupport::toDouble (both overloads), round/floor/ceiling '
        'and through XPath string()/number()/round()/floor()/ceiling() and numeric literals; oracle = exact arithmetic in Python '
        '(float() is correctly rounded; fractions.Fraction for rounding). Non-trivial: |x| outside [1e-5,1e15] or a boundary-class '
        'double; for strings: a numeral with whitespace, >=10 characters or >17 significant digits, or a near-valid non-numeral. '
        'distinct = distinct canonical case text.'
        ' string() is also applied to a COMPUTED number ($v * 1) after other numbers have been computed, converted and released on the same execution context.')
ASSUMPTIONS = ['CPython float()/repr() are correctly rounded (IEEE 754 double)',
               'the driver passes doubles by bit pattern, so no conversion of its own is involved']

WS = ' \t\r\n'
NUM_RE = re.compile(r'^[ \t\r\n]*-?([0-9]+(\.[0-9]*)?|\.[0-9]+)[ \t\r\n]*$')
OUT_RE = re.compile(r'^-?(0|[1-9][0-9]*)(\.[0-9]*[1-9])?$')


def bits_of(x):
    return struct.unpack('<Q', struct.pack('<d', x))[0]


def dbl_of(b):
    return struct.unpack('<d', struct.pack('<Q', b & 0xFFFFFFFFFFFFFFFF))[0]


def hexbits(b):
    return 'x%016x' % b


def parse_bits(s):
    return dbl_of(int(s, 16))


def budget(tier):
    if tier == 'quick':
        return dict(workers=14, examples=25000, wall=150)
    return dict(workers=14, examples=400000, wall=1500)


# ---------------------------------------------------------------- generators
def _ulps(x, k):
    b = bits_of(x)
    if b & (1 << 63):
        return dbl_of(max(0, (b & ~(1 << 63)) + k) | (1 << 63))
    return dbl_of(max(0, b + k))


@st.composite
def doubles(draw):
    cls = draw(st.sampled_from(['bits', 'exp', 'pow2', 'pow10', 'p53', 'p63', 'subn', 'tie', 'int', 'special', 'frac', 'short']))
    sign = draw(st.booleans())
    if cls == 'bits':
        x = dbl_of(draw(st.integers(0, 2 ** 64 - 1)))
    elif cls == 'exp':
        e = draw(st.integers(0, 2046))
        m = draw(st.integers(0, 2 ** 52 - 1))
        x = dbl_of((e << 52) | m)
    elif cls == 'pow2':
        x = _ulps(math.ldexp(1.0, draw(st.integers(-1074, 1023))), draw(st.integers(-3, 3)))
    elif cls == 'pow10':
        x = _ulps(float('1e%d' % draw(st.integers(-323, 308))), draw(st.integers(-3, 3)))
    elif cls == 'p53':
        x = _ulps(2.0 ** 53, draw(st.integers(-40, 40)))
    elif cls == 'p63':
        x = _ulps(2.0 ** draw(st.sampled_from([62, 63, 64])), draw(st.integers(-40, 40)))
    elif cls == 'subn':
        x = dbl_of(draw(st.integers(1, 2 ** 52 - 1)))
    elif cls == 'tie':
        n = draw(st.one_of(st.integers(0, 40), st.integers(0, 2 ** 52)))
        x = n + 0.5
        x = _ulps(x, draw(st.sampled_from([0, 0, 0, -1, 1])))
    elif cls == 'int':
        x = float(draw(st.one_of(st.integers(0, 1000), st.integers(0, 2 ** 70))))
    elif cls == 'special':
        x = draw(st.sampled_from([0.0, float('nan'), float('inf'), 0.49999999999999994, 0.5, 1.0, 135792468.0,
                                  1e15, 1e16, 1e21, 1e22, 9.223372036854775e18, 9.223372036854776e18, 1e89, 1e90, 1e100,
                                  1.7976931348623157e308, 5e-324, 1e-5, 1e-6, 1e-7, 1e-10, 1e-34, 1e-35, 1e-36, 2.2250738585072014e-308]))
    elif cls == 'frac':
        # decimal fractions as users write them
        x = float('%d.%s' % (draw(st.integers(0, 10 ** 6)), draw(st.text('0123456789', min_size=1, max_size=18))))
    else:
        x = float(draw(st.integers(0, 99999))) / float(10 ** draw(st.integers(0, 12)))
    if sign:
        x = -x
    return {'cls': cls, 'x': hexbits(bits_of(x))[1:]}


digits = st.text('0123456789', min_size=0, max_size=30)
ws = st.text(WS, max_size=3)


@st.composite
def numeral(draw):
    k = draw(st.sampled_from(['plain', 'long', 'fraclong', 'tiny', 'huge']))
    if k == 'plain':
        ip = draw(st.text('0123456789', min_size=0, max_size=12))
        fp = draw(st.text('0123456789', min_size=0, max_size=12))
    elif k == 'long':
        ip = draw(st.text('0123456789', min_size=10, max_size=400))
        fp = draw(st.text('0123456789', min_size=0, max_size=40))
    elif k == 'fraclong':
        ip = draw(st.text('0123456789', min_size=0, max_size=3))
        fp = draw(st.text('0123456789', min_size=15, max_size=400))
    elif k == 'tiny':
        ip = draw(st.sampled_from(['', '0']))
        fp = '0' * draw(st.integers(0, 340)) + draw(st.text('0123456789', min_size=1, max_size=20))
    else:
        ip = draw(st.text('123456789', min_size=1, max_size=20)) + '0' * draw(st.integers(0, 320))
        fp = draw(st.text('0123456789', min_size=0, max_size=3))
    dot = draw(st.booleans())
    s = ip + ('.' + fp if dot else '')
    if s in ('', '.'):
        s = '0'
    if draw(st.booleans()):
        s = '-' + s
    return draw(ws) + s + draw(ws)


@st.composite
def strings(draw):
    k = draw(st.sampled_from(['numeral', 'numeral', 'mut', 'junk', 'sci', 'special']))
    if k == 'numeral':
        s = draw(numeral())
    elif k == 'mut':
        s = draw(numeral())
        pos = draw(st.integers(0, max(0, len(s))))
        op = draw(st.sampled_from(['ins', 'del', 'dup']))
        ch = draw(st.sampled_from(list('+-.eE, x ٣１') + ['\t', '\n', 'Infinity', 'NaN', '0x', '--']))
        if op == 'ins':
            s = s[:pos] + ch + s[pos:]
        elif op == 'del' and s:
            pos = min(pos, len(s) - 1)
            s = s[:pos] + s[pos + 1:]
        else:
            pos = min(pos, max(0, len(s) - 1))
            s = s[:pos] + s[pos:pos + 1] * 2 + s[pos + 1:]
    elif k == 'junk':
        s = draw(st.text('0123456789.-+eE \t\r\nxINfaity ١', max_size=20))
    elif k == 'sci':
        s = '%s%s%s%d' % (draw(st.sampled_from(['', '-', '+'])), draw(st.text('0123456789.', min_size=1, max_size=6)),
                         draw(st.sampled_from(['e', 'E', 'e+', 'e-'])), draw(st.integers(0, 400)))
    else:
        s = draw(st.sampled_from(['', ' ', '.', '-', '-.', '+1', '1.', '.1', '-0', '-0.0', ' -.5 ', 'NaN', 'Infinity', '-Infinity', 'INF',
                                  '1e3', '0x10', '1 2', '1..2', '1.2.3', '--1', '- 1', '1-', ' 1', '1 ', '١', '1,5',
                                  '123456789', '1234567890', '12345678901', '999999999', '.000000001', '0.000000001']))
    return {'s': s}


def strategy(ctx):
    d = doubles()
    s = strings()
    return st.one_of(
        st.builds(lambda v: dict(v, k='tostr'), d),
        st.builds(lambda v: dict(v, k='tostr'), d),
        st.builds(lambda v: dict(v, k='round'), d),
        st.builds(lambda v, f: dict(v, k=f), d, st.sampled_from(['floor', 'ceiling'])),
        st.builds(lambda v: dict(v, k='todouble'), s),
        st.builds(lambda v: dict(v, k='todouble'), s),
        st.builds(lambda v, f: dict(v, k='xp', f=f), d, st.sampled_from(['string', 'round', 'floor', 'ceiling'])),
        st.builds(lambda v: dict(v, k='xpnum'), s),
        st.builds(lambda v: dict(v, k='xplit'), d),
    )


# ---------------------------------------------------------------- oracle
def same(a, b):
    if a != a and b != b:
        return True
    return bits_of(a) == bits_of(b)


def ref_number(s):
    if NUM_RE.match(s):
        return float(s.strip(WS))
    return float('nan')


def same_number(got, exp):
    """string -> number: XPath asks for the double nearest to the *mathematical* value of the numeral; a
    numeral such as -0 or -0.000..1 (underflow) has the value 0, to which +0 and -0 are equally near, so
    either zero is accepted (a stricter reading produced a false alarm for toDouble("-0") = +0)"""
    if exp == 0 and got == 0:
        return True
    return same(got, exp)


def ref_round(x):
    if x != x or x in (float('inf'), float('-inf')) or x == 0:
        return x
    f = Fraction(x) + Fraction(1, 2)
    n = f.numerator // f.denominator  # floor
    if n == 0:
        return -0.0 if x < 0 else 0.0
    return float(n)


def ref_floor(x):
    if x != x or x in (float('inf'), float('-inf')) or x == 0:
        return x
    f = Fraction(x)
    n = f.numerator // f.denominator
    if n == 0:
        return 0.0  # only for 0 < x < 1
    return float(n)


def ref_ceiling(x):
    if x != x or x in (float('inf'), float('-inf')) or x == 0:
        return x
    f = Fraction(x)
    n = -((-f.numerator) // f.denominator)
    if n == 0:
        return -0.0  # only for -1 < x < 0
    return float(n)


def check_string_of(x, s):
    """None if s is an acceptable XPath string(x); else reason"""
    if x != x:
        return None if s == 'NaN' else 'nan-text'
    if x == float('inf'):
        return None if s == 'Infinity' else 'inf-text'
    if x == float('-inf'):
        return None if s == '-Infinity' else 'inf-text'
    if x == 0:
        return None if s == '0' else 'zero-text'
    if not OUT_RE.match(s):
        return 'grammar'
    if s.startswith('-') != (x < 0):
        return 'sign'
    try:
        back = float(s)
    except ValueError:
        return 'grammar'
    if not same(back, x):
        return 'roundtrip'
    return None


def magclass(x):
    if x != x:
        return 'nan'
    a = abs(x)
    if a == float('inf'):
        return 'inf'
    if a == 0:
        return 'zero'
    if a >= 1e90:
        return '>=1e90'
    if a >= 2.0 ** 63:
        return '>=2^63'
    if a >= 1e15:
        return '>=1e15'
    if a < 1e-35:
        return '<1e-35'
    if a < 1e-5:
        return '<1e-5'
    return 'mid'


def check(ctx, case):
    k = case['k']
    d = ctx.drv
    if 'x' in case:
        x = parse_bits(case['x'])
        mc = magclass(x)
        nontriv = mc != 'mid' or case.get('cls') in ('pow2', 'pow10', 'p53', 'p63', 'subn', 'tie', 'special')
        ctx.note(case, nontriv, ['k:' + k, 'mag:' + mc, 'cls:' + case.get('cls', '?')])
    else:
        s = case['s']
        valid = bool(NUM_RE.match(s))
        sig = len(re.sub(r'[^0-9]', '', s).strip('0'))
        nontriv = (valid and (len(s) >= 10 or sig > 17 or s != s.strip(WS))) or (not valid and len(s) > 0)
        ctx.note(case, nontriv, ['k:' + k, 'valid' if valid else 'invalid', 'len>=10' if len(s) >= 10 else 'len<10'])

    if k == 'tostr':
        for op in ('tostr', 'tochars'):
            r = d.call('num', [('x', 'x' + case['x'])], op=op)
            out = r.gets('r')
            why = check_string_of(x, out)
            if why:
                return {'op': op, 'x': repr(x), 'got': out, 'why': why, 'mag': mc}
        return None
    if k in ('round', 'floor', 'ceiling'):
        r = d.call('num', [('x', 'x' + case['x'])], op=k)
        got = parse_bits(r.gets('r'))
        exp = {'round': ref_round, 'floor': ref_floor, 'ceiling': ref_ceiling}[k](x)
        if not same(got, exp):
            return {'op': k, 'x': repr(x), 'got': repr(got), 'exp': repr(exp), 'why': 'value', 'mag': mc}
        return None
    if k == 'todouble':
        exp = ref_number(s)
        for op in ('todouble', 'todoublep'):
            if op == 'todoublep' and '\0' in s:
                continue
            r = d.call('num', [('s', s)], op=op)
            got = parse_bits(r.gets('r'))
            if not same_number(got, exp):
                return {'op': op, 's': s, 'got': repr(got), 'exp': repr(exp), 'why': 'value', 'valid': valid, 'len': len(s)}
        return None
    if k == 'xp':
        f = case['f']
        r = d.call('xpath', [('var', 'v\x1fn\x1fx' + case['x'])], doc='<a/>', expr='%s($v)' % f, ctx='/', only='gns')
        if r.has('g.err') or r.has('compile.err'):
            return {'op': 'xp-' + f, 'x': repr(x), 'why': 'error', 'err': r.gets('g.errmsg') or r.gets('compile.errmsg'), 'mag': mc}
        if f == 'string':
            for key in ('g.str', 's'):
                why = check_string_of(x, r.gets(key))
                if why:
                    return {'op': 'xp-string', 'via': key, 'x': repr(x), 'got': r.gets(key), 'why': why, 'mag': mc}
            # a COMPUTED number (an XNumber taken from the object factory), after other numbers have been computed, converted to strings
            # and released on the same execution context: the conversion must not depend on that history
            r = d.call('xpath', [('var', 'v\x1fn\x1fx' + case['x']), ('prior', 'string(1 div 4)'), ('prior', 'concat(7 * 6, 1 div 3)')], doc='<a/>',
                       expr='string($v * 1)', ctx='/', only='gs')
            if r.has('g.err') or r.has('compile.err'):
                return {'op': 'xp-string-computed', 'x': repr(x), 'why': 'error', 'err': r.gets('g.errmsg') or r.gets('compile.errmsg'), 'mag': mc}
            for key in ('g.str', 's'):
                why = check_string_of(x, r.gets(key))
                if why:
                    return {'op': 'xp-string-computed', 'via': key, 'x': repr(x), 'got': r.gets(key), 'why': why, 'mag': mc}
            return None
        exp = {'round': ref_round, 'floor': ref_floor, 'ceiling': ref_ceiling}[f](x)
        for key in ('g.num', 'n'):
            got = parse_bits(r.gets(key))
            if not same(got, exp):
                return {'op': 'xp-' + f, 'via': key, 'x': repr(x), 'got': repr(got), 'exp': repr(exp), 'why': 'value', 'mag': mc}
        return None
    if k == 'xpnum':
        if any(ord(c) < 0x20 and c not in WS for c in s) or any(0xD800 <= ord(c) <= 0xDFFF for c in s):
            return None
        exp = ref_number(s)
        r = d.call('xpath', [('var', 'v\x1fs\x1f' + s)], doc='<a/>', expr='number($v)', ctx='/', only='gn')
        if r.has('g.err') or r.has('compile.err'):
            return {'op': 'xp-number', 's': s, 'why': 'error', 'err': r.gets('g.errmsg') or r.gets('compile.errmsg')}
        for key in ('g.num', 'n'):
            got = parse_bits(r.gets(key))
            if not same_number(got, exp):
                return {'op': 'xp-number', 'via': key, 's': s, 'got': repr(got), 'exp': repr(exp), 'why': 'value', 'valid': valid, 'len': len(s)}
        return None
    if k == 'xplit':
        # a literal written the way string() would print it must evaluate to the same double
        if x != x or abs(x) == float('inf'):
            return None
        lit = _positional(abs(x))
        expr = ('-' if x_is_neg(x) else '') + lit
        r = d.call('xpath', doc='<a/>', expr=expr, ctx='/', only='gn')
        if r.has('g.err') or r.has('compile.err'):
            return {'op': 'xp-lit', 'x': repr(x), 'expr': expr[:80], 'why': 'error', 'err': r.gets('g.errmsg') or r.gets('compile.errmsg'), 'mag': mc}
        for key in ('g.num', 'n'):
            got = parse_bits(r.gets(key))
            if not same(got, x):
                return {'op': 'xp-lit', 'via': key, 'x': repr(x), 'expr': expr[:80], 'got': repr(got), 'why': 'value', 'mag': mc}
        return None
    raise ValueError(k)


def x_is_neg(x):
    return math.copysign(1.0, x) < 0


def _positional(a):
    """shortest round-tripping digits of a >= 0, rendered without exponent"""
    r = repr(a)
    if 'e' not in r and 'E' not in r:
        if r.endswith('.0'):
            r = r[:-2]
        return r
    m, e = r.lower().split('e')
    e = int(e)
    if '.' in m:
        ip, fp = m.split('.')
    else:
        ip, fp = m, ''
    digs = ip + fp
    point = len(ip) + e
    if point <= 0:
        s = '0.' + '0' * (-point) + digs
    elif point >= len(digs):
        s = digs + '0' * (point - len(digs))
    else:
        s = digs[:point] + '.' + digs[point:]
    if '.' in s:
        s = s.rstrip('0').rstrip('.')
    return s


def signature(case, detail):
    if 'crash' in detail:
        return 'crash:%s:%s' % (case['k'], detail['crash'])
    parts = [detail.get('op', case['k']), detail.get('why', '?')]
    if 'mag' in detail:
        parts.append(detail['mag'])
    if 'valid' in detail:
        parts.append('valid' if detail['valid'] else 'invalid')
        parts.append('len>=10' if detail.get('len', 0) >= 10 else 'len<10')
    return ':'.join(parts)
