"""C19  Pluggable memory manager: balanced use, and allocation failure is survivable.

Technique: fault injection with exhaustive enumeration of fault points.  Hypothesis draws
*scenarios* (stylesheet/document texts x sequences of XalanTransformer API steps on one
MemoryManager); driver/xfault.cpp runs each scenario once on a counting manager (balance, no
foreign/double free) and then once per allocation index k with the k-th allocation refused
(fork per k), judging: no termination / sanitizer report / foreign or double free, failure
surfaced (exception or status), manager discardable, a new transformer works afterwards.

This module holds the scenario generator, the signature computation (symbolized call site of
the refused allocation), the known-findings protocol, replay and the evidence file.

  python3-vt -m vf.props.c19 quick|thorough
  python3-vt -m vf.props.c19 --replay FILE
  python3-vt -m vf.props.c19 --dump-signatures SCENARIO.json     (diagnostics)
"""
import hashlib, json, os, re, subprocess, sys, tempfile, time
from collections import Counter, OrderedDict

ID = 'C19'
LEVEL = 'fault_enumeration'
VERIF = os.path.dirname(os.path.dirname(os.path.dirname(os.path.dirname(os.path.abspath(__file__)))))
BROOT = os.environ.get('VERIF_BUILD', os.path.join(VERIF, 'build'))
# bin/check-c19 points these at a per-run snapshot so that a concurrent rebuild of the library cannot change
# the code under test (or its symbolization) in the middle of a run
XFAULT = os.environ.get('VERIF_C19_XFAULT', os.path.join(BROOT, 'asan', 'drv', 'xfault'))
LIBDIR = os.environ.get('VERIF_C19_LIBDIR')
FINDINGS = os.environ.get('VERIF_FINDINGS', os.path.join(VERIF, 'known_findings.jsonl'))
JOBS = int(os.environ.get('VERIF_WORKERS', '16'))
SURVEY = os.environ.get('VERIF_C19_SURVEY')     # diagnostics: dump every unknown signature with one example, no confirmation
BATCH = int(os.environ.get('VERIF_C19_BATCH', '16'))

RULE = ('Hypothesis draws scenarios = (1-2 units of generated stylesheet + source document from a pool of constructs: '
        'templates/modes, for-each, sort, variables/params, keys, xsl:number, copy-of, attribute sets, import/include via '
        'resolver, document(), id(), format-number, messages, result-tree fragments; failing variants: xsl:message '
        'terminate, XPath run-time type error, malformed source, malformed stylesheet, missing import) x (a sequence of '
        'XalanTransformer API steps on ONE MemoryManager: new, compileStylesheet, parseSource (native/Xerces), '
        'transform from streams / compiled / parsed, destroyStylesheet, destroyParsedSource, params, delete, second '
        'transformer on the same manager) x (exception type thrown by the manager) x (recovery: destroy-then-discard | '
        'abandon-then-discard).  For each scenario the no-fault run is checked for balance, then EVERY allocation index '
        'k = 1..N made through the supplied manager is refused once, each in a forked process (exhaustive per scenario). '
        'An evaluation is one (scenario, k) execution (plus one no-fault execution per scenario).  distinct_nontrivial '
        'counts distinct (scenario hash, k) whose refused allocation happened after the transformer constructor '
        'returned, i.e. inside compile / parse / transform / destroy code.'
        ' Scenario steps include runf (the result target is a file name: the library owns the stream) and failing unit stylesheets include xsl:number attribute value templates that fail when evaluated.')
ASSUMPTIONS = [
    'the k-th allocation of the faulted run is the k-th allocation of the no-fault run (same process image via fork; '
    'every step before the fault is compared with the no-fault run - status, bytes and first allocation index - and a '
    'difference is reported as nondeterministic)',
    'most scenarios run warm and batched: the parent runs the scenario and the known-good transformation once without '
    'fault before forking, and a forked child carries on with the next k (up to 16) while it survives; a k that kills a '
    'child which had seen earlier faults is judged again alone in a fresh child, so every failing verdict comes from a '
    'process that saw exactly one fault.  First-use (cold) paths are covered by the scenarios run with isolate=true '
    '(regress tier and 1/8 of generated scenarios): cold parent, one fork per k',
    'one-shot refusal: only the k-th allocation throws; later allocations (e.g. in destructors during recovery) succeed',
    'XMLPlatformUtils::Initialize and XalanTransformer::initialize run on the default manager and are not part of a scenario',
    'memory handed out by the counting manager is malloc()ed with a 16 byte header, so a block freed through any other '
    'allocator is caught by AddressSanitizer and a block of another allocator handed to deallocate() by the table',
    'llvm-symbolizer function names (with inlined frames) are stable enough to key known findings',
]

ENV = dict(os.environ)
# quarantine: a child frees a few MB at most, 64 MB keeps every discarded block poisoned for the child's lifetime
ENV['ASAN_OPTIONS'] = 'detect_leaks=0:symbolize=0:abort_on_error=0:allocator_may_return_null=1:detect_stack_use_after_return=0:handle_abort=0:quarantine_size_mb=64'
ENV['UBSAN_OPTIONS'] = 'print_stacktrace=1:halt_on_error=1:symbolize=0'
ENV['LC_ALL'] = 'C'
if LIBDIR:
    ENV['LD_LIBRARY_PATH'] = LIBDIR + (':' + ENV['LD_LIBRARY_PATH'] if ENV.get('LD_LIBRARY_PATH') else '')
ENV['TZ'] = 'UTC'


class Infra(Exception):
    pass


# ------------------------------------------------------------------------------------------------
# scenario -> xfault input
# ------------------------------------------------------------------------------------------------
def _field(name, val):
    b = val.encode('utf-8')
    return b'@' + name.encode() + b' ' + str(len(b)).encode() + b'\n' + b + b'\n'


def scenario_bytes(sc):
    out = []
    for i, u in enumerate(sc['units']):
        out.append(_field('xsl.%d' % i, u['xsl']))
        out.append(_field('xml.%d' % i, u['xml']))
    for k, v in sorted(sc.get('res', {}).items()):
        out.append(_field('res.' + k, v))
    for p in sc.get('params', []):
        out.append(_field('param', p))
    out.append(_field('steps', ' '.join(sc['steps'])))
    out.append(_field('exc', sc.get('exc', 'oom')))
    out.append(_field('recovery', sc.get('recovery', 'destroy')))
    return b''.join(out)


def scenario_hash(sc):
    return hashlib.sha1(json.dumps(sc, sort_keys=True).encode()).hexdigest()[:12]


def run_xfault(sc, mode='sweep', ks=None, jobs=None):
    """returns the parsed JSON of xfault; raises Infra when xfault itself failed"""
    fd, path = tempfile.mkstemp(prefix='c19.', suffix='.scn', dir='/dev/shm')
    try:
        with os.fdopen(fd, 'wb') as f:
            f.write(scenario_bytes(sc))
        cmd = [XFAULT, mode, path, '--jobs', str(jobs or JOBS)]
        if not sc.get('isolate', False) and mode == 'sweep':
            # warm parent, a forked child carries on with the next k while it survives (see xfault.cpp);
            # sc['isolate'] selects one fork per k from a cold parent instead
            cmd += ['--warm', '--batch', str(BATCH)]
        if ks:
            cmd += ['--ks', ','.join(str(k) for k in ks)]
        p = subprocess.run(cmd, stdout=subprocess.PIPE, stderr=subprocess.PIPE, env=ENV, timeout=3600)
        if p.returncode != 0:
            raise Infra('xfault rc=%d: %s' % (p.returncode, p.stderr.decode('utf-8', 'replace')[-2000:]))
        try:
            return json.loads(p.stdout.decode('utf-8', 'replace'))
        except ValueError:
            raise Infra('xfault output is not JSON: %r' % p.stdout[:500])
    finally:
        try:
            os.unlink(path)
        except OSError:
            pass


# ------------------------------------------------------------------------------------------------
# symbolization and signatures
# ------------------------------------------------------------------------------------------------
class Symbolizer(object):
    def __init__(self):
        self.proc = None
        self.cache = {}

    def _start(self):
        self.proc = subprocess.Popen(['llvm-symbolizer', '--inlines', '-f', '-C', '-s', '--output-style=JSON'],
                                     stdin=subprocess.PIPE, stdout=subprocess.PIPE, stderr=subprocess.DEVNULL)

    def names(self, frame):
        """frame 'module+0xoff' -> list of function names, innermost inlined first"""
        r = self.cache.get(frame)
        if r is not None:
            return r
        mod, _, off = frame.rpartition('+')
        r = ['?']
        if mod and mod != '?' and os.path.exists(mod):
            if self.proc is None:
                self._start()
            try:
                self.proc.stdin.write(('%s %s\n' % (mod, off)).encode())
                self.proc.stdin.flush()
                line = self.proc.stdout.readline()
                d = json.loads(line.decode('utf-8', 'replace'))
                r = [s.get('FunctionName') or '?' for s in d.get('Symbol', [])] or ['?']
            except Exception:
                self.proc = None
                r = ['?']
        self.cache[frame] = r
        return r

    def flat(self, frames):
        out = []
        for f in frames:
            out.extend(self.names(f))
        return out

    def close(self):
        if self.proc is not None:
            try:
                self.proc.stdin.close()
                self.proc.wait(timeout=5)
            except Exception:
                self.proc.kill()
            self.proc = None


SYM = Symbolizer()


def short_name(fn):
    """'void xalanc_1_12::XalanList<T>::getListHead() const' -> 'XalanList<...>::getListHead'"""
    s = fn.replace('(anonymous namespace)', '{anon}')
    # cut the parameter list: first '(' at template depth 0 that is not part of 'operator()'
    depth = 0
    i = 0
    cut = len(s)
    while i < len(s):
        c = s[i]
        if s.startswith('operator', i):
            # skip the operator token itself: operator<, operator<<, operator->, operator(), operator[] ...
            j = i + 8
            while j < len(s) and s[j] == ' ':
                j += 1
            if s.startswith('()', j):
                j += 2
            else:
                while j < len(s) and s[j] in '<>=!+-*/%&|^~[],':
                    j += 1
            i = j
            continue
        if c == '<':
            depth += 1
        elif c == '>':
            depth -= 1
        elif c == '(' and depth == 0:
            cut = i
            break
        i += 1
    s = s[:cut]
    # collapse template argument lists
    out = []
    depth = 0
    i = 0
    while i < len(s):
        if s.startswith('operator', i):
            j = i + 8
            while j < len(s) and s[j] in ' <>=!+-*/%&|^~[](),':
                j += 1
            if depth == 0:
                tok = s[i:j].rstrip()
                if j < len(s) and (s[j].isalpha() or s[j] == '_') and s[i + 8:i + 9] == ' ':
                    tok += ' '      # operator new / operator delete / conversion operators
                out.append(tok)
            i = j
            continue
        c = s[i]
        if c == '<':
            if depth == 0:
                out.append('<...>')
            depth += 1
        elif c == '>':
            depth -= 1
        elif depth == 0:
            out.append(c)
        i += 1
    s = ''.join(out).strip()
    # drop a return type
    if ' ' in s and 'operator' not in s:
        s = s.split(' ')[-1]
    s = re.sub(r'\bxalanc_\d+_\d+::', '', s)
    s = re.sub(r'\bxercesc_\d+_\d+::', 'xercesc::', s)
    return s


_LIBFN = re.compile(r'\b(xalanc_\d+_\d+|xercesc_\d+_\d+)::')
_ALLOC_PLUMBING = re.compile(r'(^|::)(allocate|XalanConstruct(<\.\.\.>)?|XalanAllocationGuard|operator new|operator new\[\]|XalanAllocator<\.\.\.>::allocate)$')
_CONTAINER = re.compile(r'^(XalanVector|XalanList|XalanMap|XalanSet|XalanDeque|XalanArrayAllocator|ArenaAllocator|ReusableArenaAllocator|ArenaBlock|ArenaBlockBase|ReusableArenaBlock|XalanDOMString|XalanMemMgrAutoPtr|XalanMemMgrAutoPtrArray)(<\.\.\.>)?::')
_FREE_PLUMBING = re.compile(r'(^|::)(deallocate|destroy|XalanDestroy|~XalanAllocationGuard|operator delete|operator delete\[\]|operator\(\))$')
_VIA = re.compile(r'^(Function\w+|Elem\w+|XSLTEngineImpl|StylesheetHandler|StylesheetRoot|XalanTransformer|XalanCompiledStylesheetDefault|XalanDefaultParsedSource)::')
_DRIVER = re.compile(r'^(CountingMM|Runner|MemResolver|childFault|childCount|runGood|inChild|main|terminateHandler|signalHandler|sanitizerDeath)\b|^int inChild|lambda|^_start$|^__libc_start')


def lib_frames(names, plumbing=None, n=3, owner=False):
    """the first n frames that belong to the library (by namespace), plumbing removed.  With owner=True the
    list is extended (up to 6) until it contains a frame that is not generic container code, and
    directly repeated frames are collapsed."""
    out = []
    for fn in names:
        if not _LIBFN.search(fn):
            continue
        sn = short_name(fn)
        if sn.startswith('std::') or sn.startswith('__gnu_cxx::'):
            continue        # std algorithms instantiated over library types
        if plumbing is not None and plumbing.search(sn):
            continue
        if out and out[-1] == sn:
            continue
        out.append(sn)
        if len(out) >= n:
            if not owner or len(out) >= 6 or any(not _CONTAINER.match(x) for x in out):
                break
    return out


def after(names, marker_re):
    for i, fn in enumerate(names):
        if marker_re.search(fn):
            return names[i + 1:]
    return names


_STDERR_FRAME = re.compile(r'#\d+ 0x[0-9a-f]+\s+\((\S+?)\+(0x[0-9a-f]+)\)')


def stderr_frames(text):
    fr = []
    for m in _STDERR_FRAME.finditer(text):
        off = int(m.group(2), 16)
        fr.append('%s+0x%x' % (m.group(1), off - 1 if off else 0))
    return fr


def describe(bad):
    """signature + readable detail of one failing k (entry of xfault's 'bad' list)"""
    kind = bad['kind']
    stage = bad.get('stage', 'steps')
    alloc = lib_frames(after(SYM.flat(bad.get('alloc_frames', [])), re.compile(r'CountingMM::allocate')), _ALLOC_PLUMBING, 3, True)
    site = '<-'.join(alloc) if alloc else '?'
    detail = ''
    err = bad.get('stderr', '')
    if kind == 'abort-terminate':
        names = SYM.flat(bad.get('abort_frames', []))
        rest = after(names, re.compile(r'__clang_call_terminate'))
        if rest is names:
            rest = after(names, re.compile(r'std::terminate'))
        esc = lib_frames(rest, None, 2)
        detail = 'escaped:' + ('<-'.join(esc) if esc else '?')
    elif kind == 'abort-signal':
        m = re.search(r": ([^\n]*?): Assertion `(.*?)' failed", err)
        if m:
            fn = m.group(1)
            fn = re.sub(r' \[[^\]]*\]$', '', fn)
            detail = 'assert(%s)@%s' % (re.sub(r'\s+', ' ', m.group(2))[:80], short_name(fn))
        else:
            names = SYM.flat(bad.get('abort_frames', []))
            fr = lib_frames(names, None, 2)
            detail = 'sig%d@%s' % (bad.get('signal', 0), '<-'.join(fr) if fr else '?')
    elif kind == 'sanitizer':
        m = re.search(r'ERROR: AddressSanitizer: ([\w-]+)', err)
        if m:
            what = 'asan:' + m.group(1)
        else:
            m = re.search(r'runtime error: ([^\n]*)', err)
            what = 'ubsan:' + re.sub(r'0x[0-9a-f]+|\d{3,}', 'N', m.group(1))[:60] if m else 'sanitizer:?'
        fr = lib_frames(SYM.flat(stderr_frames(err)), None, 2)
        detail = '%s@%s' % (what, '<-'.join(fr) if fr else '?')
    elif kind in ('foreign-free', 'double-free'):
        names = after(SYM.flat(bad.get('free_frames', [])), re.compile(r'CountingMM::deallocate'))
        fr = lib_frames(names, _FREE_PLUMBING, 2)
        detail = 'free@' + ('<-'.join(fr) if fr else '?')
    elif kind in ('wrong-output', 'fresh-transformer-failed', 'fresh-imbalance', 'hang'):
        detail = bad.get('fault_step_text', '').split(':')[0].split('@')[0]
        if kind == 'wrong-output':
            # the failure was swallowed somewhere above the allocation: name the XPath function / instruction /
            # engine entry nearest to it, which is where a catch-all would sit
            via = '?'
            for fn in after(SYM.flat(bad.get('alloc_frames', [])), re.compile(r'CountingMM::allocate')):
                if _LIBFN.search(fn):
                    sn = short_name(fn)
                    if _VIA.match(sn):
                        via = sn
                        break
            detail += ';via:' + via
    k = kind if stage in ('steps', 'done') else '%s@%s' % (kind, stage)
    sig = '%s|%s|%s' % (k, site, detail)
    return sig


def describe_count(res):
    """signatures of violations of the no-fault run: list of (signature, detail dict)"""
    out = []
    c = res.get('count', {})
    if c.get('status') == 'died':
        d = c['detail']
        sig = describe(dict(d, alloc_frames=[]))
        out.append(('count:' + sig, dict(kind='no-fault run died', detail=_slim(d))))
        return out
    if c.get('foreign', 0) or c.get('double', 0):
        names = after(SYM.flat(c.get('free_frames', [])), re.compile(r'CountingMM::deallocate'))
        fr = lib_frames(names, _FREE_PLUMBING, 2)
        kind = 'double-free' if c.get('double', 0) else 'foreign-free'
        out.append(('count:%s||free@%s' % (kind, '<-'.join(fr) if fr else '?'), dict(kind=kind, foreign=c.get('foreign'), double=c.get('double'))))
    if c.get('outstanding', 0):
        sites = []
        for l in c.get('leaks', []):
            fr = lib_frames(after(SYM.flat(l.get('alloc_frames', [])), re.compile(r'CountingMM::allocate')), _ALLOC_PLUMBING, 3, True)
            s = '<-'.join(fr) if fr else '?'
            if s not in sites:
                sites.append(s)
        for s in sites[:4] or ['?']:
            out.append(('count:imbalance|%s|' % s, dict(kind='imbalance', outstanding=c.get('outstanding'),
                                                          leaks=[dict(seq=l['seq'], size=l['size'], phase=l['phase']) for l in c.get('leaks', [])][:8])))
    if c.get('good', 0) != 0 and c.get('status') == 'ok':
        out.append(('count:known-good-failed||code%d' % c.get('good'), dict(kind='known-good transformation failed without any fault', code=c.get('good'))))
    return out


def _slim(bad):
    d = {k: v for k, v in bad.items() if k not in ('alloc_frames', 'abort_frames', 'free_frames')}
    d['alloc_stack'] = [short_name(x) for x in SYM.flat(bad.get('alloc_frames', []))[:16]]
    if bad.get('abort_frames'):
        d['abort_stack'] = [short_name(x) for x in SYM.flat(bad.get('abort_frames', []))[:16]]
    if bad.get('free_frames'):
        d['free_stack'] = [short_name(x) for x in SYM.flat(bad.get('free_frames', []))[:16]]
    if d.get('stderr'):
        d['stderr'] = d['stderr'][:1500]
    return d


INFRA_KINDS = ('not-reached', 'nondeterministic', 'died', 'none')


# ------------------------------------------------------------------------------------------------
# known findings
# ------------------------------------------------------------------------------------------------
class Findings(object):
    def __init__(self, path):
        self.entries = []
        if os.path.exists(path):
            with open(path) as f:
                for line in f:
                    line = line.strip()
                    if line and not line.startswith('#'):
                        e = json.loads(line)
                        if e.get('property') == ID and e.get('status') == 'open' and e.get('signature_re'):
                            e['_re'] = re.compile(e['signature_re'])
                            self.entries.append(e)

    def match(self, sig):
        for e in self.entries:
            if e['_re'].fullmatch(sig):
                return e
        return None


# ------------------------------------------------------------------------------------------------
# scenario generator
# ------------------------------------------------------------------------------------------------
XSLNS = 'http://www.w3.org/1999/XSL/Transform'


def build_strategies(tier='quick'):
    """quick: smaller stylesheets/documents/step sequences (N mostly 800-2500) so that many scenarios fit the budget"""
    from hypothesis import strategies as st
    small = tier != 'thorough'
    MAXITEMS = 3 if small else 6
    MAXBODY = 3 if small else 6
    MAXOPS = 4 if small else 7

    names = st.sampled_from(['a', 'b', 'c', 'i', 'n'])
    words = st.sampled_from(['x', 'yy', 'Zed', '10', '2', '-3.5', 'a b', '', 'été', 'k1', 'k2'])

    @st.composite
    def document(draw, bad=False):
        n = draw(st.integers(0, MAXITEMS))
        items = []
        for j in range(n):
            g = draw(st.sampled_from(['a', 'b', 'c']))
            kids = ''
            if draw(st.booleans()):
                kids = ''.join('<%s>%s</%s>' % (nm, draw(words), nm) for nm in draw(st.lists(names, max_size=3)))
            txt = draw(words)
            extra = draw(st.sampled_from(['', '', '<!--c-->', '<?p q?>', '<n:e xmlns:n="urn:n" n:a="1"/>', '&lt;&amp;']))
            items.append('<i id="id%d" g="%s" v="%d">%s%s%s</i>' % (j, g, draw(st.integers(-3, 40)), txt, kids, extra))
        dtd = '<!DOCTYPE r [<!ATTLIST i id ID #IMPLIED>]>' if draw(st.booleans()) else ''
        pre = draw(st.sampled_from(['', '<?xml version="1.0"?>', '<?xml version="1.0" encoding="UTF-8"?>\n']))
        body = '<r t="%s">%s</r>' % (draw(words).replace('"', ''), ''.join(items))
        if bad:
            body = draw(st.sampled_from([body[:-3], body.replace('<r ', '<r t="dup" ', 1), body + '<x>', '', '<r>&undef;</r>']))
        return pre + dtd + body

    exprs = st.sampled_from([
        '.', '@g', '@v', 'count(//i)', 'sum(//i/@v)', 'name()', 'position()', 'last()', 'string-length(.)',
        "concat(@g,'-',@v)", 'normalize-space(.)', "translate(.,'abc','ABC')", 'substring(.,2,3)', '@v * 2 + 1',
        '@v div 3', '@v mod 2', 'generate-id(.) = generate-id(.)', "format-number(@v, '#,##0.00')", "format-number(@v div 7, '0.###')",
        "count(key('kg', @g))", "key('kg','a')/@v", "id('id1')/@g", "count(id('id0 id2'))", 'local-name(*[1])', 'boolean(*)',
        "starts-with(.,'x')", "contains(., 'e')", 'round(@v div 4)', "system-property('xsl:version')", 'count(ancestor-or-self::*)',
        'following-sibling::i[1]/@v', 'preceding-sibling::i[last()]/@g', '../@t', 'count(//*[@v > 5])', "document('doc2.xml')/d/@a",
        "count(document('')//xsl:template)", '$gv', '$gp', "string($rtf)", 'count(exsl:node-set($rtf)/*)', "lang('en')",
        "function-available('exsl:node-set')", 'count(namespace::*)', 'count(//comment()|//processing-instruction())', 'true() and @v > 2',
    ])
    selects = st.sampled_from(['r/i', '//i', 'r/i[@v > 3]', '*', 'r/i/*', "key('kg','a')", "key('kg', //i/@g)", "id('id0 id1')", '//i[last()]',
                               'r/i[position() mod 2 = 1]', "document('doc2.xml')/d/*", 'exsl:node-set($rtf)/*', '//i/@v', 'r/i | r/i/*', 'node()',
                               '//text()', 'r/i[@g = following-sibling::i/@g]'])

    @st.composite
    def instr(draw, depth=0):
        kind = draw(st.sampled_from(['value', 'value', 'foreach', 'apply', 'call', 'choose', 'if', 'copyof', 'copy', 'elem', 'attr-set-elem',
                                     'number', 'number-any', 'number-multi', 'message', 'comment', 'pi', 'text', 'var', 'lre', 'applymode', 'fallback']))
        inner = ''
        if depth < 2 and kind in ('foreach', 'choose', 'if', 'copy', 'elem', 'lre', 'var'):
            inner = ''.join(draw(st.lists(instr(depth + 1), min_size=1, max_size=2)))
        if kind == 'value':
            return '<xsl:value-of select="%s"/>' % draw(exprs)
        if kind == 'foreach':
            sort = ''
            if draw(st.booleans()):
                sort = '<xsl:sort select="%s" data-type="%s" order="%s"/>' % (draw(st.sampled_from(['.', '@v', '@g', 'name()'])),
                                                                              draw(st.sampled_from(['text', 'number'])),
                                                                              draw(st.sampled_from(['ascending', 'descending'])))
                if draw(st.integers(0, 3)) == 0:
                    sort += '<xsl:sort select="@v" case-order="upper-first"/>'
            return '<xsl:for-each select="%s">%s%s</xsl:for-each>' % (draw(selects), sort, inner)
        if kind == 'apply':
            return '<xsl:apply-templates select="%s"/>' % draw(selects)
        if kind == 'applymode':
            return '<xsl:apply-templates select="%s" mode="m"><xsl:with-param name="p" select="%s"/></xsl:apply-templates>' % (draw(selects), draw(exprs))
        if kind == 'call':
            return '<xsl:call-template name="nt"><xsl:with-param name="p" select="%s"/></xsl:call-template>' % draw(exprs)
        if kind == 'choose':
            return '<xsl:choose><xsl:when test="%s">%s</xsl:when><xsl:otherwise>o</xsl:otherwise></xsl:choose>' % (draw(exprs), inner)
        if kind == 'if':
            return '<xsl:if test="%s">%s</xsl:if>' % (draw(exprs), inner)
        if kind == 'copyof':
            return '<xsl:copy-of select="%s"/>' % draw(st.one_of(selects, exprs))
        if kind == 'copy':
            return '<xsl:copy>%s</xsl:copy>' % inner
        if kind == 'elem':
            return '<xsl:element name="{concat(\'e\', %s)}"><xsl:attribute name="at"><xsl:value-of select="%s"/></xsl:attribute>%s</xsl:element>' % (
                draw(st.sampled_from(['position()', '1', "'x'"])), draw(exprs), inner)
        if kind == 'attr-set-elem':
            return '<xsl:element name="ase" use-attribute-sets="as1"/><ase2 xsl:use-attribute-sets="as1"/>'
        if kind == 'number':
            return '<xsl:number format="%s"/>' % draw(st.sampled_from(['1', 'a', 'I', '01', '1.1']))
        if kind == 'number-any':
            return '<xsl:number level="any" count="i|a|b" format="%s"/>' % draw(st.sampled_from(['1', 'i', 'A']))
        if kind == 'number-multi':
            return '<xsl:number level="multiple" count="r|i|a|b|c" format="1.a.I"/><xsl:number value="%s" grouping-separator="," grouping-size="3"/>' % draw(
                st.sampled_from(['position()', '1234567', 'count(//i) * 1000']))
        if kind == 'message':
            return '<xsl:message>m<xsl:value-of select="%s"/></xsl:message>' % draw(exprs)
        if kind == 'comment':
            return '<xsl:comment>c<xsl:value-of select="%s"/></xsl:comment>' % draw(exprs)
        if kind == 'pi':
            return '<xsl:processing-instruction name="pp">d</xsl:processing-instruction>'
        if kind == 'text':
            return '<xsl:text disable-output-escaping="%s">&lt;t&gt; </xsl:text>' % draw(st.sampled_from(['yes', 'no']))
        if kind == 'var':
            return '<xsl:variable name="lv%d">%s</xsl:variable><xsl:value-of select="$lv%d"/><xsl:copy-of select="$lv%d"/>' % (depth, inner, depth, depth)
        if kind == 'lre':
            return '<out a="{%s}" xml:lang="en">%s</out>' % (draw(exprs), inner)
        return '<exsl:nosuch><xsl:fallback>fb</xsl:fallback></exsl:nosuch>'

    failing_instr = st.sampled_from([
        '<xsl:message terminate="yes">stop</xsl:message>',
        '<xsl:for-each select="$gv + 1">x</xsl:for-each>',                       # number is not a node-set
        '<xsl:value-of select="count($gv)"/>',                                     # run-time type error
        '<xsl:apply-templates select="//i" mode="die"/>',                         # terminate inside a nested template
        '<xsl:copy-of select="exsl:node-set(1)"/>',
        '<xsl:call-template name="deep"><xsl:with-param name="n" select="40"/></xsl:call-template>',   # terminate at depth 40
        '<xsl:number value="1234567" grouping-separator="{substring(\'ab,\', 1, 2)}" grouping-size="3"/>',  # a separator must be one character: fails when the AVT is evaluated
        '<xsl:number value="count(//i)" format="{concat(\'1\', \'\')}" lang="{$gv}" letter-value="{$gv}"/><xsl:value-of select="format-number(1, \'0\', \'nosuchformat\')"/>',
    ])
    broken_xsl = st.sampled_from([
        lambda s: s.replace('</xsl:stylesheet>', ''),                                          # not well-formed
        lambda s: s.replace('<xsl:template match="/">', '<xsl:template match="/"><xsl:value-of select="1 +"/>', 1),   # XPath syntax
        lambda s: s.replace('<xsl:template match="/">', '<xsl:template match="/"><xsl:value-of select="$nosuchvar"/>', 1),
        lambda s: s.replace('<xsl:template match="/">', '<xsl:template match="/"><xsl:call-template name="nosuch"/>', 1),
        lambda s: s.replace('<xsl:output', '<xsl:import href="missing.xsl"/><xsl:output', 1),
        lambda s: s.replace('<xsl:template match="/">', '<xsl:template match="/"><xsl:nosuchinstruction/>', 1),
        lambda s: s.replace('<xsl:template match="/">', '<xsl:template match="//["><x/></xsl:template><xsl:template match="/">', 1),
    ])

    @st.composite
    def stylesheet(draw, failing=None):
        """failing: None | 'run' (fails while executing) | 'compile'"""
        method = draw(st.sampled_from(['xml', 'xml', 'html', 'text']))
        out = '<xsl:output method="%s" omit-xml-declaration="%s" indent="%s" encoding="%s"/>' % (
            method, draw(st.sampled_from(['yes', 'no'])), draw(st.sampled_from(['yes', 'no'])), draw(st.sampled_from(['UTF-8', 'ISO-8859-1', 'UTF-16', 'US-ASCII'])))
        top = []
        feats = draw(st.sets(st.sampled_from(['import', 'include', 'strip', 'decfmt', 'alias', 'prio', 'builtin-override', 'param2']), max_size=3))
        if 'import' in feats:
            top.append('<xsl:import href="imp.xsl"/>')
        top.append(out)
        if 'include' in feats:
            top.append('<xsl:include href="inc.xsl"/>')
        if 'strip' in feats:
            top.append('<xsl:strip-space elements="*"/><xsl:preserve-space elements="i"/>')
        if 'decfmt' in feats:
            top.append('<xsl:decimal-format decimal-separator="." grouping-separator="," NaN="nan"/>')
        if 'alias' in feats:
            top.append('<xsl:namespace-alias stylesheet-prefix="exsl" result-prefix="xsl"/>')
        top.append('<xsl:key name="kg" match="i" use="@g"/>')
        top.append('<xsl:variable name="gv" select="%s"/>' % draw(st.sampled_from(['count(//i)', '3', "'s'", 'sum(//@v)'])))
        top.append('<xsl:param name="gp" select="%s"/>' % draw(st.sampled_from(["'dflt'", '7', '//i[1]/@g'])))
        if 'param2' in feats:
            top.append('<xsl:param name="gq"/>')
        top.append('<xsl:variable name="rtf"><a>1</a><b><xsl:value-of select="$gv"/></b></xsl:variable>')
        top.append('<xsl:attribute-set name="as0"><xsl:attribute name="z">0</xsl:attribute></xsl:attribute-set>')
        top.append('<xsl:attribute-set name="as1" use-attribute-sets="as0"><xsl:attribute name="s"><xsl:value-of select="$gv"/></xsl:attribute></xsl:attribute-set>')
        body = draw(st.lists(instr(), min_size=1, max_size=MAXBODY))
        if failing == 'run':
            body.insert(draw(st.integers(0, len(body))), draw(failing_instr))
        top.append('<xsl:template match="/"><o>%s</o></xsl:template>' % ''.join(body))
        top.append('<xsl:template match="i"><ti g="{@g}">%s</ti></xsl:template>' % ''.join(draw(st.lists(instr(1), max_size=2))))
        if 'prio' in feats:
            top.append('<xsl:template match="i[@v > 10]" priority="2"><big><xsl:apply-templates/></big></xsl:template>')
            top.append('<xsl:template match="*[@g]" priority="-1"><low/></xsl:template>')
        if 'builtin-override' in feats:
            top.append('<xsl:template match="text()"><xsl:value-of select="normalize-space(.)"/></xsl:template>')
        top.append('<xsl:template match="*" mode="m"><xsl:param name="p" select="0"/><m p="{$p}"><xsl:value-of select="name()"/></m></xsl:template>')
        top.append('<xsl:template match="i" mode="die"><xsl:if test="position() = last()"><xsl:message terminate="yes">die</xsl:message></xsl:if><d/></xsl:template>')
        top.append('<xsl:template name="nt"><xsl:param name="p"/><nt><xsl:value-of select="$p"/></nt></xsl:template>')
        top.append('<xsl:template name="deep"><xsl:param name="n" select="0"/><xsl:choose><xsl:when test="$n &gt; 0"><xsl:call-template name="deep">'
                   '<xsl:with-param name="n" select="$n - 1"/></xsl:call-template></xsl:when><xsl:otherwise><xsl:message terminate="yes">bottom</xsl:message>'
                   '</xsl:otherwise></xsl:choose></xsl:template>')
        s = ('<xsl:stylesheet version="1.0" xmlns:xsl="%s" xmlns:exsl="http://exslt.org/common" extension-element-prefixes="exsl">%s</xsl:stylesheet>'
             % (XSLNS, ''.join(top)))
        if failing == 'compile':
            s = draw(broken_xsl)(s)
        return s

    RES = {
        'imp.xsl': '<xsl:stylesheet version="1.0" xmlns:xsl="%s"><xsl:template match="a"><ia><xsl:apply-templates/></ia></xsl:template>'
                   '<xsl:template match="i" priority="-5"><imported/></xsl:template><xsl:variable name="iv" select="1"/></xsl:stylesheet>' % XSLNS,
        'inc.xsl': '<xsl:stylesheet version="1.0" xmlns:xsl="%s"><xsl:template match="b"><ib><xsl:value-of select="."/></ib></xsl:template></xsl:stylesheet>' % XSLNS,
        'doc2.xml': '<d a="A1"><x>1</x><y>2</y></d>',
    }

    @st.composite
    def unit(draw, mode):
        """mode: ok | runfail | compilefail | parsefail"""
        return dict(xsl=draw(stylesheet({'runfail': 'run', 'compilefail': 'compile'}.get(mode))), xml=draw(document(bad=(mode == 'parsefail'))))

    @st.composite
    def steps_random(draw, nunits):
        """a valid random walk over the API on up to two transformers"""
        steps = ['new']
        alive = {0: True, 1: False}
        cs = {0: set(), 1: set()}
        ps = {0: set(), 1: set()}
        nops = draw(st.integers(2, MAXOPS))
        ran = False
        for _ in range(nops):
            s = draw(st.sampled_from([0, 0, 0, 1]))
            if not alive[s]:
                steps.append('new@%d' % s if s else 'new')
                alive[s] = True
                continue
            u = draw(st.integers(0, nunits - 1))
            opts = ['run', 'run', 'runf', 'compile', 'parse', 'parsex', 'params', 'clearparams', 'delete', 'install', 'install', 'uninstall']
            if u in cs[s]:
                opts += ['runcs', 'runcs', 'dcs']
                opts.remove('compile')
            if u in ps[s]:
                opts += ['runps', 'runps', 'dps']
                opts.remove('parse')
                opts.remove('parsex')
            if u in cs[s] and u in ps[s]:
                opts += ['runcp', 'runcp', 'runcp']
            op = draw(st.sampled_from(opts))
            sfx = '@%d' % s if s else ''
            if op in ('params', 'clearparams', 'delete', 'install', 'uninstall'):
                steps.append(op + sfx)
            else:
                steps.append('%s:%d%s' % (op, u, sfx))
            if op == 'compile':
                cs[s].add(u)      # may fail at run time; xfault then reports a precondition error only if used
            if op in ('parse', 'parsex'):
                ps[s].add(u)
            if op == 'dcs':
                cs[s].discard(u)
            if op == 'dps':
                ps[s].discard(u)
            if op == 'delete':
                alive[s] = False
                cs[s] = set()
                ps[s] = set()
            if op.startswith('run'):
                ran = True
        if not ran and alive[0]:
            steps.append('run:0')
        return steps

    PATTERNS = [
        (['new', 'run:0'], 1),
        (['new', 'compile:0', 'parse:0', 'runcp:0', 'dcs:0', 'dps:0', 'delete'], 1),
        (['new', 'compile:0', 'runcs:0', 'runcs:0'], 1),
        (['new', 'parse:0', 'runps:0'], 1),
        (['new', 'parsex:0', 'compile:0', 'runcp:0'], 1),      # Xerces DOM + wrapper as parsed source
        (['new', 'parsex:0', 'runps:0', 'dps:0'], 1),
        (['new', 'params', 'run:0', 'clearparams'], 1),
        (['new', 'run:0', 'delete', 'new', 'run:0'], 1),
        (['new', 'new@1', 'run:0', 'run:0@1', 'delete', 'delete@1'], 1),
        (['new', 'run:1', 'run:0'], 2),            # unit 1 is the failing one
        (['new', 'run:0', 'run:1'], 2),
        (['new', 'compile:1', 'compile:0', 'runcs:0'], 2),
        (['new', 'parse:1', 'parse:0', 'runps:0'], 2),
        (['new', 'compile:0', 'parse:0', 'runcp:0', 'runcp:0'], 1),
        (['new', 'install', 'run:0', 'install', 'uninstall', 'run:0', 'delete'], 1),
        (['new', 'runf:0', 'delete'], 1),                  # result target given as a file name: the library owns the stream
        (['new', 'runf:0', 'runf:0', 'run:0'], 1),
        (['new', 'compile:0', 'dcs:0', 'compile:0', 'delete'], 1),     # with a unit that cannot be compiled the dcs step is dropped: a failed compile must leave nothing behind
    ]

    @st.composite
    def scenario(draw):
        shape = draw(st.sampled_from(['pattern', 'pattern', 'random']))
        failmode = draw(st.sampled_from(['ok', 'ok', 'runfail', 'runfail', 'compilefail', 'parsefail']))
        if shape == 'pattern':
            steps, nunits = draw(st.sampled_from(PATTERNS))
            steps = list(steps)
            if nunits == 1:
                units = [draw(unit(failmode))]
            else:
                units = [draw(unit('ok')), draw(unit(failmode if failmode != 'ok' else 'runfail'))]
                # a unit that cannot be compiled/parsed must not be used by later compiled/parsed steps: the patterns only run unit 0 that way
        else:
            nunits = draw(st.integers(1, 2))
            units = [draw(unit('ok'))] + ([draw(unit(failmode if failmode in ('ok', 'runfail') else 'runfail'))] if nunits == 2 else [])
            steps = draw(steps_random(nunits))
        if failmode in ('compilefail', 'parsefail') and shape == 'pattern' and nunits == 1:
            # with a unit that cannot be compiled (parsed), keep only steps that do not need the compiled (parsed) form
            bad = ('runcp', 'runcs', 'dcs') if failmode == 'compilefail' else ('runcp', 'runps', 'dps')
            steps = [s for s in steps if not s.startswith(bad)]
        sc = OrderedDict()
        sc['units'] = units
        sc['res'] = RES
        sc['params'] = draw(st.sampled_from([["gp='P'"], ['gp=1+1', "gq='q'"], ['gp=//i[2]']]))
        sc['steps'] = steps
        sc['exc'] = draw(st.sampled_from(['oom', 'oom', 'oom', 'oom', 'bad_alloc']))
        sc['recovery'] = draw(st.sampled_from(['destroy', 'destroy', 'destroy', 'abandon']))
        sc['isolate'] = draw(st.sampled_from([False] * 7 + [True]))
        return sc

    return scenario()


# ------------------------------------------------------------------------------------------------
# evaluation of one scenario
# ------------------------------------------------------------------------------------------------
MAX_VIOLATIONS = 12


def group_key(sig):
    parts = sig.split('|')
    kind = parts[0]
    if kind.startswith('wrong-output') or kind.startswith('count:imbalance') or kind.startswith('hang') or kind.startswith('fresh'):
        return sig
    return kind + '||' + (parts[2] if len(parts) > 2 else '')


class Run(object):
    """accumulates the results of one check run"""

    def __init__(self, tier, seed):
        self.tier = tier
        self.seed = seed
        self.kf = Findings(FINDINGS)
        self.evals = 0
        self.nontrivial = set()
        self.scenarios = 0
        self.per_phase = Counter()
        self.per_phase_bad = Counter()
        self.outcomes = Counter()
        self.known_seen = Counter()
        self.known_entries = {}
        self.samples = []
        self.candidates = OrderedDict()   # group key -> dict(scenario, k, detail, source, signature)
        self.group_counts = Counter()
        self.inconclusive = 0
        self.infra = []
        self.leaky_ks = 0
        self.absorbed = 0
        self.ops = Counter()
        self.failmodes = Counter()
        self.unknown_sig_counts = Counter()
        self.known_sig_counts = Counter()
        self.order_dependent = 0
        self.survey = {}
        self.inconclusive_samples = []
        self.cold_warm_differ = 0
        self.isolated_scenarios = 0
        self.forks = 0

    def classify(self, sig, sc, k, detail, source):
        e = self.kf.match(sig)
        if e is not None:
            self.known_seen[e['id']] += 1
            self.known_entries[e['id']] = e
            self.known_sig_counts[sig] += 1
            return True
        self.unknown_sig_counts[sig] += 1
        if SURVEY and sig not in self.survey:
            self.survey[sig] = dict(scenario=sc, k=k, detail=detail)
        # one violation per (kind, where it blew up); the allocation site only distinguishes examples
        g = group_key(sig)
        self.group_counts[g] += 1
        if g not in self.candidates and len(self.candidates) < MAX_VIOLATIONS:
            self.candidates[g] = dict(scenario=sc, k=k, detail=detail, source=source, signature=sig)
        return False

    def evaluate(self, sc, source='search'):
        """exhaustive sweep of one scenario"""
        try:
            res = run_xfault(sc)
        except Infra as e:
            msg = str(e)
            if 'precondition missing' in msg or 'scenario error' in msg:
                return None     # generator produced a step whose prerequisite failed: not a case
            self.infra.append(msg[:500])
            return None
        self.scenarios += 1
        h = scenario_hash(sc)
        for s in sc['steps']:
            self.ops[s.split(':')[0].split('@')[0]] += 1
        self.evals += 1      # the no-fault execution
        for sig, detail in describe_count(res):
            self.classify(sig, sc, None, detail, source)
        if 'swept' not in res:
            return res
        self.evals += res['swept']
        self.order_dependent += res.get('order_dependent', 0)
        self.forks += res.get('forks', 0)
        if res.get('N_cold') != res.get('N'):
            self.cold_warm_differ += 1
        if sc.get('isolate', False):
            self.isolated_scenarios += 1
        for ph, d in res['per_phase'].items():
            self.per_phase[ph] += d['total']
            self.per_phase_bad[ph] += d['bad']
        for o, n in res['outcomes'].items():
            self.outcomes[o] += n
        # distinct non-trivial: k's whose allocation is after the first constructor returned
        first_new_last = res['steps'][0]['last'] if res['steps'] and res['steps'][0]['kind'] == 'construct' else 0
        for st in res['steps']:
            if st['kind'] != 'construct' and st['last'] >= st['first']:
                for k in range(st['first'], st['last'] + 1):
                    self.nontrivial.add((h, k))
        self.leaky_ks += res['leak_on_failure']['ks']
        self.absorbed += len(res['absorbed'])
        for b in res['bad']:
            if b['kind'] in INFRA_KINDS:
                self.inconclusive += 1
                if len(self.inconclusive_samples) < 5:
                    self.inconclusive_samples.append(dict(scenario_hash=h, steps=sc['steps'], isolate=sc.get('isolate'), k=b['k'], kind=b['kind'],
                                                          note=b.get('note'), fault_step=b.get('fault_step_text'), scenario=sc if SURVEY else None))
                continue
            sig = describe(b)
            self.classify(sig, sc, b['k'], _slim(b), source)
        if len(self.samples) < 6:
            self.samples.append(dict(scenario_hash=h, steps=sc['steps'], exc=sc.get('exc'), recovery=sc.get('recovery'), N=res['N'],
                                     phase_split=[dict(op=s['op'], kind=s['kind'], first=s['first'], last=s['last'], rc=s['rc']) for s in res['steps']],
                                     outcomes=res['outcomes'], xsl=sc['units'][0]['xsl'][:600], xml=sc['units'][0]['xml'][:300]))
        return res


def confirm(sc, k, sig, times=3):
    """re-run (scenario, k); True when it fails every time (any non-infrastructure failure)"""
    for _ in range(times):
        if k is None:
            res = run_xfault(sc, mode='count')
            if not describe_count(res):
                return False
        else:
            res = run_xfault(sc, ks=[k], jobs=1)
            bad = [b for b in res.get('bad', []) if b['k'] == k and b['kind'] not in INFRA_KINDS]
            if not bad:
                return False
    return True


def write_evidence(run, wall, violations, exhaustive=True):
    import jsonschema
    ev = dict(
        property_id=ID, tier=run.tier if run.tier in ('quick', 'thorough') else 'quick', seed=run.seed, level=LEVEL,
        coverage=dict(
            evaluations=run.evals,
            distinct_nontrivial=len(run.nontrivial),
            rule=RULE,
            samples=run.samples or ['<none>'],
            exhaustive=bool(exhaustive and run.inconclusive == 0 and not run.infra),
            scenarios=run.scenarios,
            per_phase=dict(run.per_phase),
            per_phase_failing=dict(run.per_phase_bad),
            outcomes=dict(run.outcomes),
            api_steps=dict(run.ops),
            absorbed_failures=run.absorbed,
            leak_on_failure_ks=run.leaky_ks,
            known_findings_seen=dict(run.known_seen),
            known_signatures=dict(run.known_sig_counts.most_common(60)),
            unknown_signatures=dict(run.unknown_sig_counts.most_common(40)),
            inconclusive=run.inconclusive,
            inconclusive_samples=run.inconclusive_samples,
            order_dependent_deaths=run.order_dependent,
            scenarios_fork_per_k_cold=run.isolated_scenarios,
            scenarios_cold_warm_numbering_differs=run.cold_warm_differ,
            child_processes=run.forks,
            infra_errors=len(run.infra),
            findings_file=FINDINGS,
            workers=JOBS,
        ),
        assumptions=ASSUMPTIONS,
        wall_s=round(wall, 2),
        violations=violations,
    )
    with open('/root/.vp/EVIDENCE.schema.json') as f:
        schema = json.load(f)
    try:
        jsonschema.validate(ev, schema)
    except Exception as e:
        sys.stderr.write('evidence does not validate: %s\n' % str(e)[:500])
    edir = os.environ.get('VERIF_EVIDENCE_DIR', os.path.join(VERIF, 'evidence'))
    os.makedirs(edir, exist_ok=True)
    tmp = os.path.join(edir, ID + '.json.tmp')
    with open(tmp, 'w') as f:
        json.dump(ev, f, indent=1)
    os.rename(tmp, os.path.join(edir, ID + '.json'))


def report(run, t0):
    """confirm candidates, print KNOWN-FINDING / VIOLATION lines, write evidence; returns exit code"""
    for i, e in sorted(run.known_entries.items()):
        print('KNOWN-FINDING: property=%s %s' % (ID, e['what']))
    nviol = 0
    flaky = 0
    rdir = os.path.join(VERIF, 'replays', ID)
    if SURVEY:
        with open(SURVEY, 'w') as f:
            json.dump(dict(counts=dict(run.unknown_sig_counts), known=dict(run.known_sig_counts), examples=run.survey), f, indent=1)
        run.candidates.clear()
    for g, c in run.candidates.items():
        sig = c['signature']
        try:
            ok = confirm(c['scenario'], c['k'], sig)
        except Infra as e:
            run.infra.append(str(e)[:500])
            continue
        if not ok:
            flaky += 1
            sys.stderr.write('flaky (not reported): %s k=%s\n' % (sig, c['k']))
            continue
        os.makedirs(rdir, exist_ok=True)
        hh = hashlib.sha1((scenario_hash(c['scenario']) + str(c['k']) + sig).encode()).hexdigest()[:12]
        path = os.path.join(rdir, hh + '.json')
        with open(path, 'w') as f:
            json.dump(dict(property=ID, case=dict(scenario=c['scenario'], k=c['k'], signature=sig), detail=c['detail'], signature=sig,
                           seed=run.seed, tier=run.tier, source=c['source'], group=g, count_in_run=run.group_counts.get(g, 1), expect='pass'), f, indent=1)
        print('VIOLATION property=%s replay=%s' % (ID, path))
        print('  signature: %s' % sig)
        print('  seen %d times in this run (all allocation sites with the same outcome and place of failure)' % run.group_counts.get(g, 1))
        nviol += 1
    write_evidence(run, time.time() - t0, nviol)
    if run.infra:
        sys.stderr.write('INFRA: %d errors, first: %s\n' % (len(run.infra), run.infra[0]))
    if nviol:
        return 1
    if run.infra or run.scenarios == 0:
        return 2
    return 0


def regress_cases():
    d = os.path.join(VERIF, 'regress', ID)
    out = []
    if os.path.isdir(d):
        for name in sorted(os.listdir(d)):
            if name.endswith('.json'):
                with open(os.path.join(d, name)) as f:
                    out.append((os.path.join(d, name), json.load(f)))
    return out


def main(tier):
    import hypothesis
    from hypothesis import HealthCheck, Phase, Verbosity, given, settings
    t0 = time.time()
    seed = int(os.environ.get('VERIF_SEED', '1'))
    budget = float(os.environ.get('VERIF_C19_BUDGET', '85' if tier == 'quick' else '1150'))
    run = Run(tier, seed)
    # replay tier first
    for path, rec in regress_cases():
        run.evaluate(rec['case']['scenario'], source=path)
    deadline = t0 + budget
    strategy = build_strategies(tier)
    seen = set()

    class Stop(Exception):
        pass

    @hypothesis.seed(seed * 1000003 + 19)
    @settings(max_examples=100000 if tier == 'thorough' else 400, database=None, deadline=None, derandomize=False,
              suppress_health_check=list(HealthCheck), phases=[Phase.generate], verbosity=Verbosity.quiet)
    @given(strategy)
    def search(sc):
        if time.time() > deadline:
            raise Stop()     # budget used up: leave Hypothesis (it re-runs this example once, which stops again)
        h = scenario_hash(sc)
        if h in seen:
            return
        seen.add(h)
        run.evaluate(json.loads(json.dumps(sc)), source='search')

    try:
        search()
    except Stop:
        pass
    except Infra as e:
        run.infra.append(str(e)[:500])
    rc = report(run, t0)
    sys.stderr.write('C19 %s seed=%d: %d scenarios, %d (scenario,k) executions, %d distinct after-construct fault points, outcomes %s, %.1fs\n'
                     % (tier, seed, run.scenarios, run.evals, len(run.nontrivial), dict(run.outcomes), time.time() - t0))
    return rc


def replay(path):
    t0 = time.time()
    with open(path) as f:
        rec = json.load(f)
    sc = rec['case']['scenario']
    k = rec['case'].get('k')
    want = rec['case'].get('signature')
    kf = Findings(FINDINGS)
    fails = []     # (signature, k, detail)
    known = {}

    def take(sig, kk, detail):
        e = kf.match(sig)
        if e is not None:
            known[e['id']] = e
        else:
            fails.append((sig, kk, detail))

    if k is None and want is not None and want.startswith('count:'):
        res = run_xfault(sc, mode='count')
        for sig, detail in describe_count(res):
            take(sig, None, detail)
    else:
        if k is not None:
            res = run_xfault(sc, ks=[k], jobs=1)
            for sig, detail in describe_count(res):
                take(sig, None, detail)
            for b in res.get('bad', []):
                if b['kind'] not in INFRA_KINDS:
                    take(describe(b), b['k'], _slim(b))
        if not fails:
            # allocation numbering may have moved (or the file names no k): sweep the whole scenario
            res = run_xfault(sc)
            for sig, detail in describe_count(res):
                take(sig, None, detail)
            for b in res.get('bad', []):
                if b['kind'] in INFRA_KINDS:
                    continue
                sig = describe(b)
                if want is None or k is None or sig == want:
                    take(sig, b['k'], _slim(b))
    for i, e in sorted(known.items()):
        print('KNOWN-FINDING: property=%s %s' % (ID, e['what']))
    if fails:
        print('VIOLATION property=%s replay=%s' % (ID, path))
        seen = set()
        for sig, kk, detail in fails:
            if sig in seen:
                continue
            seen.add(sig)
            print('  signature: %s (k=%s)' % (sig, kk))
            if len(seen) <= 2:
                print('  detail: %s' % json.dumps(detail)[:3000])
        return 1
    print('PASS replay %s' % path)
    return 0


def dump_signatures(path):
    with open(path) as f:
        rec = json.load(f)
    sc = rec['case']['scenario'] if 'case' in rec else rec
    res = run_xfault(sc)
    print(json.dumps({k: v for k, v in res.items() if k not in ('bad',)}, indent=1)[:6000])
    kf = Findings(FINDINGS)
    c = Counter()
    ex = {}
    for sig, detail in describe_count(res):
        c[sig] += 1
    for b in res.get('bad', []):
        sig = describe(b)
        c[sig] += 1
        ex.setdefault(sig, b['k'])
    for sig, n in sorted(c.items()):
        e = kf.match(sig)
        print('%4d  k=%-5s %s  %s' % (n, ex.get(sig), sig, '[known %s]' % e['id'] if e else '[NEW]'))
    return 0


if __name__ == '__main__':
    try:
        if len(sys.argv) >= 3 and sys.argv[1] == '--replay':
            rc = replay(sys.argv[2])
        elif len(sys.argv) >= 3 and sys.argv[1] == '--dump-signatures':
            rc = dump_signatures(sys.argv[2])
        elif len(sys.argv) >= 2 and sys.argv[1] in ('quick', 'thorough'):
            rc = main(sys.argv[1])
        else:
            sys.stderr.write(__doc__)
            rc = 2
    except Infra as e:
        sys.stderr.write('INFRA: %s\n' % e)
        rc = 2
    finally:
        SYM.close()
    sys.exit(rc)
