"""C20 - runner for the rapidcheck state-machine targets (rc/*.cpp): launches them in parallel, classifies
failures (signature, known finding or violation), writes replay files and evidence/C20.json.

usage (through bin/check-c20 which builds first):
    c20_evidence.py quick|thorough
    c20_evidence.py --replay FILE
Exit 0 held / 1 VIOLATION printed / 2 infrastructure error.
"""
import concurrent.futures
import hashlib
import json
import os
import re
import shutil
import struct
import subprocess
import sys
import time

VERIF = os.path.dirname(os.path.dirname(os.path.dirname(os.path.dirname(os.path.abspath(__file__)))))
BROOT = os.environ.get('VERIF_BUILD', os.path.join(VERIF, 'build'))
BIN = os.environ.get('C20_BIN_DIR', os.path.join(BROOT, 'asan', 'rc'))
RUN = os.path.join(BIN, 'run')      # replaced by a per-invocation sub directory in main()/do_replay()
REPLAYS = os.path.join(VERIF, 'replays', 'C20')
EVIDENCE = os.environ.get('C20_EVIDENCE', os.path.join(os.environ.get('VERIF_EVIDENCE_DIR', os.path.join(VERIF, 'evidence')), 'C20.json'))
KNOWN = os.environ.get('VERIF_KNOWN_FINDINGS', os.path.join(VERIF, 'known_findings.jsonl'))
SCHEMA = '/root/.vp/EVIDENCE.schema.json'
PROP = 'C20'
KINDS = ['mismatch', 'assert', 'asan', 'ubsan', 'crash', 'exception']

# target -> (binary, quick shards, quick cases per shard)
TARGETS = [
    ('XalanMap', 't_map', 2, 13000),
    ('XalanSet', 't_set', 2, 4000),
    ('XalanVector_int', 't_vector_int', 1, 13000),
    ('XalanVector_Counted', 't_vector_counted', 2, 13000),
    ('XalanList', 't_list', 1, 13000),
    ('XalanDeque', 't_deque', 2, 8000),
    ('XalanDOMString', 't_string', 3, 8000),
    ('XalanDOMStringPool', 't_pool', 1, 10000),
    ('XalanBitmap', 't_bitmap_strict', 1, 8000),
    ('XalanObjectCache', 't_cache', 1, 12000),
]
THOROUGH_FACTOR = 9
QUICK_SIZE, THOROUGH_SIZE = 100, 150

# operation patterns that can be excluded by construction when (and only when) known_findings.jsonl has an open
# C20 entry whose signature_re matches one of the pattern's signatures "<target>:<op>:<kind>"
PATTERNS = {
    'vec_alias_insert': (['XalanVector_int', 'XalanVector_Counted'], ['alias_insert']),
    'vec_alias_insert_count': (['XalanVector_int', 'XalanVector_Counted'], ['alias_insert_count']),
    'vec_alias_resize': (['XalanVector_int', 'XalanVector_Counted'], ['alias_resize']),
    'vec_alias_push_back': (['XalanVector_int', 'XalanVector_Counted'], ['alias_push_back']),
    'deque_resize_multi': (['XalanDeque'], ['resize_multi']),
    'deque_swap_blocksize': (['XalanDeque'], ['swap_blocksize']),
    'deque_copy_other_mgr': (['XalanDeque'], ['copy_other_mgr']),
    'str_append_npos': (['XalanDOMString'], ['append_sub_npos']),
    'str_substr_npos': (['XalanDOMString'], ['substr_npos']),
    'str_resize_fill_grow': (['XalanDOMString'], ['resize_fill_grow']),
    'str_embedded_nul': (['XalanDOMString'], ['resize+nul', 'compare_str+nul', 'copy_ctor+nul']),
    'str_compare_ptr_default_count': (['XalanDOMString'], ['compare_sub_ptr_default']),
    'str_at_size': (['XalanDOMString'], ['at_size']),
    'str_erase_range_on_empty': (['XalanDOMString'], ['erase_it_range_on_empty']),
    'pool_get_zero_length': (['XalanDOMStringPool'], ['get_zero_len']),
    'bitmap_isset_assert': (['XalanBitmap'], ['is_set']),
}

RULE = ("rapidcheck state machines, one per class (XalanMap with generated loadFactor/minBuckets/eraseThreshold and a "
        "colliding hasher, XalanSet, XalanVector<int>, XalanVector<Counted>, XalanList, XalanDeque, XalanDOMString, "
        "XalanDOMStringPool+HashTable, XalanBitmap, XalanObjectCache): each case = generated configuration + command "
        "sequence, run lock-step against the std model with the full observable state compared after every command, on a "
        "counting MemoryManager (balance, foreign/double free) under ASan+UBSan with library asserts live. "
        "Non-trivial: the sequence caused >=1 growth event (vector/string reallocation with live elements, map/set "
        "rehash = bucket count changed, list node / deque block / pool block / cache object allocated while non-empty, "
        "bitmap bit 0->1) AND >=1 erase event (elements removed: erase/pop/clear/shrinking resize/release, bit 1->0), both "
        "measured on the implementation during the run. Distinct: distinct 64-bit FNV-1a hash of the resolved sequence text "
        "(configuration line + one line per command), united over all shards. Only passing cases are counted.")


def log(*a):
    print(*a, file=sys.stderr, flush=True)


def load_known():
    out = []
    if os.path.exists(KNOWN):
        with open(KNOWN) as f:
            for line in f:
                line = line.strip()
                if not line or line.startswith('#'):
                    continue
                e = json.loads(line)
                if e.get('property') == PROP and e.get('status') == 'open' and e.get('signature_re'):
                    e['_re'] = re.compile(e['signature_re'])
                    out.append(e)
    return out


def match_known(known, signature):
    for e in known:
        if e['_re'].fullmatch(signature):
            return e
    return None


def pattern_known(known, pattern):
    targets, ops = PATTERNS[pattern]
    for t in targets:
        for o in ops:
            for k in KINDS:
                e = match_known(known, '%s:%s:%s' % (t, o, k))
                if e:
                    return e
    return None


def derive_seed(verif_seed, target, shard, salt=''):
    h = hashlib.sha256(('%d:%s:%d:%s' % (verif_seed, target, shard, salt)).encode()).digest()
    return struct.unpack('<Q', h[:8])[0] & 0x7fffffffffffffff


def classify_log(text):
    if 'AddressSanitizer' in text:
        return 'asan'
    if 'runtime error:' in text:
        return 'ubsan'
    if 'Assertion' in text:
        return 'assert'
    return 'crash'


def last_op(trace):
    lines = [l for l in trace.split('\n') if l.strip()]
    if not lines or lines[-1].startswith('#'):
        return 'setup'
    return lines[-1].split('(', 1)[0]


def read(path, limit=200000):
    try:
        with open(path, errors='replace') as f:
            return f.read(limit)
    except OSError:
        return ''


def parse_fail_record(text):
    rec = {'signature': None, 'message': '', 'sequence': '', 'stderr': ''}
    m = re.search(r'^signature=(.*)$', text, re.M)
    if m:
        rec['signature'] = m.group(1).strip()
    parts = re.split(r'^--- (message|sequence|stderr)\n', text, flags=re.M)
    for i in range(1, len(parts) - 1, 2):
        rec[parts[i]] = parts[i + 1]
    return rec


def run_job(job, timeout):
    """job: dict(target, bin, tag, rc_params, env) -> result dict"""
    base = os.path.join(RUN, job['tag'])
    files = {k: base + '.' + k for k in ('trace', 'fail', 'stats', 'hashes', 'log')}
    for p in files.values():
        if os.path.exists(p):
            os.unlink(p)
    env = dict(os.environ)
    for k in list(env):
        if k.startswith('C20_') or k == 'RC_PARAMS':
            del env[k]
    env.update(job.get('env', {}))
    env['RC_PARAMS'] = job['rc_params']
    env['C20_TRACE'] = files['trace']
    env['C20_FAIL'] = files['fail']
    env['C20_STATS'] = files['stats']
    env['C20_HASHES'] = files['hashes']
    env.setdefault('ASAN_OPTIONS', 'abort_on_error=0:detect_leaks=1')
    env.setdefault('UBSAN_OPTIONS', 'print_stacktrace=1')
    t0 = time.time()
    res = dict(job=job, files=files, status='ok')
    try:
        with open(files['log'], 'w') as lf:
            p = subprocess.run([os.path.join(BIN, job['bin'])], env=env, stdout=lf, stderr=subprocess.STDOUT, timeout=timeout)
        res['rc'] = p.returncode
    except subprocess.TimeoutExpired:
        res.update(status='infra', why='timeout after %ds' % timeout, rc=None)
        return res
    except OSError as e:
        res.update(status='infra', why=str(e), rc=None)
        return res
    res['wall'] = time.time() - t0
    text = read(files['log'])
    res['log'] = text
    if res['rc'] == 0 and 'OK, passed' in text:
        return res
    if 'Falsifiable' in text:
        rec = parse_fail_record(read(files['fail']))
        m = re.search(r'RC_PARAMS="(reproduce=[^"]+)"', text)
        res.update(status='fail', mode='reproduce', record=rec, reproduce=m.group(1) if m else None)
        return res
    if 'Gave up' in text:
        res.update(status='gaveup')
        return res
    aborted = res['rc'] < 0 or (res['rc'] != 0 and re.search(r'AddressSanitizer|runtime error:|Assertion|Sanitizer|terminate called', text))
    if aborted:
        trace = read(files['trace'])
        kind = classify_log(text)
        sig = '%s:%s:%s' % (job['target'], last_op(trace), kind)
        res.update(status='fail', mode='rerun', record=dict(signature=sig, message='process aborted (%s)' % kind, sequence=trace,
                                                             stderr=text[-8000:][:6000]), reproduce=None)
        return res
    res.update(status='infra', why='unexpected exit code %s without a recognisable report, see %s' % (res['rc'], files['log']))
    return res


def shrink_crash(res, timeout):
    """A crash bypasses rapidcheck's shrinking: re-run the same deterministic job with every case in a forked child."""
    job = dict(res['job'])
    job['tag'] = job['tag'] + '.fork'
    job['env'] = dict(job.get('env', {}), C20_FORK='1')
    r2 = run_job(job, timeout)
    if r2['status'] == 'fail' and r2.get('mode') == 'reproduce' and r2['record'].get('signature'):
        return r2
    return res


def write_replay(res, tier, verif_seed):
    os.makedirs(REPLAYS, exist_ok=True)
    job = res['job']
    rec = res['record']
    body = dict(property=PROP, target=job['target'], bin=job['bin'], signature=rec['signature'], tier=tier, verif_seed=verif_seed,
                mode=res['mode'], rc_params=res['reproduce'] if res['mode'] == 'reproduce' and res['reproduce'] else job['rc_params'],
                env=job.get('env', {}), sequence=rec['sequence'], message=rec['message'][:4000], stderr=rec['stderr'][:4000])
    h = hashlib.sha256(json.dumps(body, sort_keys=True).encode()).hexdigest()[:10]
    path = os.path.join(REPLAYS, '%s-%s-%s.json' % (job['target'], tier, h))
    with open(path, 'w') as f:
        json.dump(body, f, indent=1)
    return path


def do_replay(path):
    try:
        with open(path) as f:
            body = json.load(f)
        assert body.get('property') == PROP
    except Exception as e:  # noqa
        log('cannot read replay file %s: %s' % (path, e))
        return 2
    global RUN
    RUN = os.path.join(RUN, 'replay.%d' % os.getpid())
    os.makedirs(RUN, exist_ok=True)
    job = dict(target=body['target'], bin=body['bin'], tag='replay.' + body['target'], rc_params=body['rc_params'], env=body.get('env', {}))
    res = run_job(job, 1800)
    if res['status'] == 'infra':
        log('replay: infrastructure error: %s' % res.get('why'))
        return 2
    shutil.rmtree(RUN, ignore_errors=True)
    if res['status'] == 'fail':
        rec = res['record']
        print('replayed: signature=%s (recorded %s)' % (rec.get('signature'), body.get('signature')))
        print(rec.get('message', '')[:1500])
        print('sequence:\n' + rec.get('sequence', ''))
        print('VIOLATION property=%s replay=%s' % (PROP, path))
        return 1
    print('PASS')
    return 0


def main(argv):
    t0 = float(os.environ.get('C20_T0', time.time()))
    if len(argv) >= 2 and argv[0] == '--replay':
        return do_replay(argv[1])
    if not argv or argv[0] not in ('quick', 'thorough'):
        log(__doc__)
        return 2
    tier = argv[0]
    verif_seed = int(os.environ.get('VERIF_SEED', '1'))
    global RUN
    RUN = os.path.join(RUN, '%s.%d.%d' % (tier, verif_seed, os.getpid()))   # concurrent invocations must not share files
    os.makedirs(RUN, exist_ok=True)
    known = load_known()
    excluded = {p: pattern_known(known, p) for p in PATTERNS}
    excluded = {p: e for p, e in excluded.items() if e}
    factor = THOROUGH_FACTOR if tier == 'thorough' else 1
    size = THOROUGH_SIZE if tier == 'thorough' else QUICK_SIZE
    timeout = 7200 if tier == 'thorough' else 600

    def exclude_for(target, but=None):
        return ','.join(sorted(p for p in excluded if target in PATTERNS[p][0] and p != but))

    jobs = []
    for target, binary, shards, cases in TARGETS:
        if target == 'XalanBitmap' and 'bitmap_isset_assert' in excluded:
            binary = 't_bitmap'
        for sh in range(shards):
            seed = derive_seed(verif_seed, target, sh)
            jobs.append(dict(kind='main', target=target, bin=binary, tag='%s.%d' % (target, sh),
                             rc_params='seed=%d max_success=%d max_size=%d' % (seed, cases * factor, size),
                             env={'C20_EXCLUDE': exclude_for(target)}))
    # one probe per excluded pattern and target: is the known finding still there?
    for p in sorted(excluded):
        for target in PATTERNS[p][0]:
            binary = [b for t, b, _, _ in TARGETS if t == target][0]
            seed = derive_seed(verif_seed, target, 0, 'probe:' + p)
            env = {'C20_EXCLUDE': exclude_for(target, but=p), 'C20_ONLY': p}
            jobs.append(dict(kind='probe', pattern=p, target=target, bin=binary, tag='probe.%s.%s' % (target, p),
                             rc_params='seed=%d max_success=%d max_size=%d' % (seed, 300 * (4 if tier == 'thorough' else 1), 60), env=env))

    workers = int(os.environ.get('C20_WORKERS', '16'))
    results = []
    with concurrent.futures.ThreadPoolExecutor(max_workers=workers) as ex:
        futs = [ex.submit(run_job, j, timeout) for j in jobs]
        for f in futs:
            results.append(f.result())

    infra = [r for r in results if r['status'] == 'infra']
    violations = []       # (signature, replay path)
    known_lines = []
    seen_sig = set()
    for r in results:
        job = r['job']
        if r['status'] == 'gaveup':
            if job['kind'] == 'probe':
                log('probe %s: rapidcheck gave up (pattern too rare), inconclusive' % job['tag'])
                continue
            r['status'] = 'infra'
            r['why'] = 'rapidcheck gave up (too many discards), see %s' % r['files']['log']
            infra.append(r)
            continue
        if r['status'] != 'fail':
            if job['kind'] == 'probe' and r['status'] == 'ok':
                log('NOTE known finding not reproduced by its probe: pattern=%s target=%s (entry %s may be fixed)' %
                    (job['pattern'], job['target'], excluded[job['pattern']].get('id')))
            continue
        sig = r['record'].get('signature') or '%s:unknown:crash' % job['target']
        e = match_known(known, sig)
        if e:
            line = 'KNOWN-FINDING: property=%s %s' % (PROP, e.get('what', e.get('id', '')))
            if line not in known_lines:
                known_lines.append(line)
            continue
        if r['mode'] == 'rerun':
            r = shrink_crash(r, timeout)
            sig2 = r['record'].get('signature') or sig
            e = match_known(known, sig2)
            if e:
                line = 'KNOWN-FINDING: property=%s %s' % (PROP, e.get('what', e.get('id', '')))
                if line not in known_lines:
                    known_lines.append(line)
                continue
            sig = sig2
        if sig in seen_sig:
            continue
        seen_sig.add(sig)
        path = write_replay(r, tier, verif_seed)
        violations.append((sig, path, r))

    # ---- evidence
    per_target = {}
    hashes = set()
    samples = []
    evaluations = 0
    excluded_counts = {}
    for r in results:
        job = r['job']
        if job['kind'] != 'main':
            continue
        st = {}
        try:
            st = json.loads(read(r['files']['stats'], 10 ** 7))
        except ValueError:
            st = {}
        t = per_target.setdefault(job['target'], dict(shards=0, evaluations=0, nontrivial=0, growth_cases=0, erase_cases=0, commands=0,
                                                     wall_s=0.0, ops={}))
        t['shards'] += 1
        for k in ('evaluations', 'nontrivial', 'growth_cases', 'erase_cases', 'commands'):
            t[k] += int(st.get(k, 0))
        t['wall_s'] = round(t['wall_s'] + r.get('wall', 0.0), 1)
        for k, v in st.get('ops', {}).items():
            t['ops'][k] = t['ops'].get(k, 0) + v
        for k, v in st.get('excluded', {}).items():
            excluded_counts[k] = excluded_counts.get(k, 0) + v
        evaluations += int(st.get('evaluations', 0))
        try:
            with open(r['files']['hashes'], 'rb') as f:
                data = f.read()
            mine = set(struct.unpack('<%dQ' % (len(data) // 8), data[:len(data) // 8 * 8]))
        except OSError:
            mine = set()
        t.setdefault('_hashes', set()).update(mine)
        hashes |= mine
        for s in st.get('samples', [])[:2]:
            if sum(1 for x in samples if x['target'] == job['target']) < 2:
                samples.append(dict(target=job['target'], sequence=s.rstrip('\n').split('\n')))
    for t in per_target.values():
        t['distinct_nontrivial'] = len(t.pop('_hashes', set()))
    wall = time.time() - t0
    ev = dict(property_id=PROP, tier=tier, seed=verif_seed, level='exploration', wall_s=round(wall, 1), violations=len(violations),
              coverage=dict(evaluations=evaluations, distinct_nontrivial=len(hashes), rule=RULE, samples=samples, per_target=per_target,
                            cases_per_second=round(evaluations / max(1e-9, sum(t['wall_s'] for t in per_target.values())), 1),
                            excluded_by_known_finding={p: dict(finding=excluded[p].get('id'), times_generator_hit_it=excluded_counts.get(p, 0))
                                                       for p in sorted(excluded)},
                            known_findings_reconfirmed=known_lines),
              assumptions=["std::map/set/vector/list/deque/u16string/vector<bool> of libstdc++ are correct models",
                           "rapidcheck generation is a pure function of RC_PARAMS seed (derived from VERIF_SEED by SHA-256 per target and shard)",
                           "operation patterns listed under excluded_by_known_finding are not generated in the main search (one probe run each re-confirms them)",
                           "preconditions asserted by the library (positions within range, splice between lists of one MemoryManager, pop on non-empty) are respected by the generators"])
    if infra:
        ev['coverage']['infrastructure_errors'] = [dict(job=r['job']['tag'], why=r.get('why')) for r in infra]
    os.makedirs(os.path.dirname(EVIDENCE), exist_ok=True)
    try:
        import jsonschema
        with open(SCHEMA) as f:
            jsonschema.validate(ev, json.load(f))
    except ImportError:
        log('jsonschema not available: evidence not validated')
    except Exception as e:  # noqa
        if not violations and not infra:
            log('evidence does not validate: %s' % str(e)[:500])
            with open(EVIDENCE, 'w') as f:
                json.dump(ev, f, indent=1)
            return 2
    with open(EVIDENCE, 'w') as f:
        json.dump(ev, f, indent=1)

    for line in known_lines:
        print(line)
    print('C20 %s seed=%d: %d cases (%d distinct non-trivial) over %d jobs in %.1fs; %d known-finding pattern(s) excluded' %
          (tier, verif_seed, evaluations, len(hashes), len(jobs), wall, len(excluded)))
    for sig, path, r in violations:
        rec = r['record']
        print('--- failure signature=%s' % sig)
        print(rec.get('message', '')[:1200])
        print('shrunk sequence:\n' + rec.get('sequence', ''))
        print('VIOLATION property=%s replay=%s' % (PROP, path))
    if violations:
        log('logs kept in %s' % RUN)
        return 1
    if infra:
        for r in infra:
            log('infrastructure error in %s: %s' % (r['job']['tag'], r.get('why')))
        log('logs kept in %s' % RUN)
        return 2
    shutil.rmtree(RUN, ignore_errors=True)
    return 0


if __name__ == '__main__':
    sys.exit(main(sys.argv[1:]))
