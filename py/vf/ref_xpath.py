"""Independent XPath 1.0 reference evaluator (pure Python, stdlib only).

Written from the W3C XPath 1.0 Recommendation (16 Nov 1999) and XSLT 1.0
section 5.2 / 5.5 for patterns.  Shares no code with Xalan-C or libxml2.
Clarity over speed; every rule cites the section it implements.

===========================================================================
Ambiguities  (where the Recommendation is silent or can be read two ways; the
choice made here is stated -- test generators should stay away from them)
===========================================================================
 A1  Name characters.  XPath 1.0 refers to "XML Names" without an edition.
     NCName characters are taken from expat (XML 1.0 4th edition tables, asked
     of expat itself), i.e. exactly the names a source document can contain.
     5th-edition-only name characters are rejected (XPathSyntaxError).
     Non-BMP characters are never name characters.
 A2  number -> string for integers of magnitude >= 2^53.  The Rec says "the
     number is represented in decimal form ... with no decimal point"; this is
     read literally: the EXACT decimal expansion of the double
     (1e23 -> "99999999999999991611392").  Below 2^53 there is no ambiguity.
     Non-integers use the shortest digit string that round-trips (that part is
     unambiguous in the Rec).
 A3  ceiling(x) for -1 < x < 0 and floor/ceiling of -0: the Rec does not
     mention negative zero for these two (it does for round).  IEEE behaviour
     chosen: ceiling(-0.5) = -0, floor(-0) = ceiling(-0) = -0.  Observable only
     through 1 div x.
 A4  sum(): additions are performed in document order starting from +0, so
     sum() of a single node "-0" is +0, and floating-point rounding follows
     that order.  Empty node-set -> +0.
 A5  lang(): "ignoring case" is implemented as ASCII case-insensitivity (A-Z);
     an attribute xml:lang="" is treated literally (lang('') is true, every
     other argument false).
 A6  Type errors (non-node-set operand of '|', of '/', of a predicate on a
     FilterExpr, or a non-node-set argument of count, sum, name, local-name,
     namespace-uri) and unbound variables are raised as XPathDynamicError only
     when the offending sub-expression is actually evaluated
     ('true() or count(1)' is true, 'false() and $undefined' is false).
     An implementation may report them at compile time.  Unknown functions,
     wrong argument counts and unbound prefixes are XPathStaticError, always
     reported (evaluate() checks the whole tree first).
 A7  Order of attribute nodes and of namespace nodes of one element is
     implementation-dependent (Rec 5.3, 5.4); this evaluator uses the order of
     vf.model.  Anything that depends on it (positional predicates on
     attribute::/namespace:: steps, string(@*), (//@*)[2] ...) is not portable.
 A8  A QName in an operator position ('a and:b c') and similar corner cases are
     all syntax errors whichever way the 3.7 rules are read; no choice needed.
     'a mod(3)': the 3.7 rules are applied "in the order specified", so 'mod'
     is an OperatorName (value a mod 3), not a function name.
 A9  id(): tokens are separated by XML whitespace (#x20 #x9 #xD #xA).  For a
     context node in a document without ID declarations the result is empty.
     Which element wins for a duplicate ID is not defined by the Rec (such a
     document is invalid); the model keeps the first.
 A10 string() / string-length() etc. count Unicode code points.
 A11 EXSLT: math:min/max on a set containing both +0 and -0 (sign of the
     result), str:padding with a negative / fractional / NaN length, str:align
     when the target is longer than the padding and alignment is 'right' or
     'center': the published definitions are silent -> XPathUnspecified is
     raised and the caller must discard the case.
 A13 The prefix 'xml' is treated as always bound to the XML namespace in name
     tests / function names / variable names even if Context.namespaces does
     not list it (Namespaces in XML: it is bound by definition).
 A14 '/' selects the root of the document that contains the CONTEXT node, so
     inside a predicate applied to nodes of another document (a variable
     holding a foreign node-set) '//x' searches that other document.  id() uses
     the ID table of the context node's document in the same way.
 A15 Variable values given as Python int are converted to float; node-set
     values are re-sorted / de-duplicated on every reference.
 A12 Namespace-axis name tests: 'namespace::p' tests the node's local name
     (= the prefix it binds) against 'p' and requires a null namespace URI, so
     'namespace::x:p' never matches (Rec 5.4 expanded-name of a namespace node).
"""
import math
import re

from . import model as _model

XML_NS = _model.XML_NS


class XPathSyntaxError(Exception):
    pass


class XPathStaticError(Exception):
    pass


class XPathDynamicError(Exception):
    pass


class XPathUnspecified(Exception):
    """The (extension function) definition does not say; discard the case."""
    pass


# ---------------------------------------------------------------------------
# 3.7 Lexical structure
# ---------------------------------------------------------------------------
_WS = ' \t\r\n'
_DIGITS = '0123456789'
_ASCII_START = frozenset('abcdefghijklmnopqrstuvwxyzABCDEFGHIJKLMNOPQRSTUVWXYZ_')
_ASCII_NAMECH = frozenset('abcdefghijklmnopqrstuvwxyzABCDEFGHIJKLMNOPQRSTUVWXYZ_0123456789.-')
_namestart_cache = {}
_namechar_cache = {}

AXES = ('ancestor', 'ancestor-or-self', 'attribute', 'child', 'descendant',
        'descendant-or-self', 'following', 'following-sibling', 'namespace',
        'parent', 'preceding', 'preceding-sibling', 'self')
_AXES = frozenset(AXES)
NODE_TYPES = frozenset(('comment', 'text', 'processing-instruction', 'node'))
_OPNAMES = frozenset(('and', 'or', 'mod', 'div'))


def _is_name_start(c):
    if c in _ASCII_START:
        return True
    if c < '\x80' or c > '\uffff':
        return False
    r = _namestart_cache.get(c)
    if r is None:
        r = _namestart_cache[c] = _model._is_xml_name(c)
    return r


def _is_name_char(c):
    if c in _ASCII_NAMECH:
        return True
    if c < '\x80' or c > '\uffff':
        return False
    r = _namechar_cache.get(c)
    if r is None:
        r = _namechar_cache[c] = _model._is_xml_name('x' + c)
    return r


def is_ncname(s):
    if not s or not _is_name_start(s[0]):
        return False
    for c in s[1:]:
        if not _is_name_char(c):
            return False
    return True


class Tok(object):
    __slots__ = ('kind', 'val', 'pos')

    def __init__(self, kind, val, pos):
        self.kind = kind   # ( ) [ ] . .. @ , :: op name nodetype func axis lit num var
        self.val = val
        self.pos = pos

    def __repr__(self):
        return 'Tok(%s,%r)' % (self.kind, self.val)


_NOT_OPERAND_END = frozenset(('@', '::', '(', '[', ',', 'op'))


def _scan_ncname(s, i):
    """s[i] is a name start char; return end index of the NCName."""
    n = len(s)
    j = i + 1
    while j < n and _is_name_char(s[j]):
        j += 1
    return j


def tokenize(s):
    """ExprToken sequence of s per 3.7, including the disambiguation rules."""
    toks = []
    n = len(s)
    i = 0
    while True:
        while i < n and s[i] in _WS:
            i += 1
        if i >= n:
            break
        c = s[i]
        prev = toks[-1] if toks else None
        # rule 1: is an operator expected here?
        opctx = prev is not None and prev.kind not in _NOT_OPERAND_END
        two = s[i:i + 2]
        if c in '()[]@,':
            toks.append(Tok(c, c, i))
            i += 1
        elif two == '::':
            toks.append(Tok('::', two, i))
            i += 2
        elif c == '.':
            if i + 1 < n and s[i + 1] in _DIGITS:
                j = i + 1
                while j < n and s[j] in _DIGITS:
                    j += 1
                toks.append(Tok('num', s[i:j], i))
                i = j
            elif two == '..':
                toks.append(Tok('..', two, i))
                i += 2
            else:
                toks.append(Tok('.', c, i))
                i += 1
        elif c in _DIGITS:
            j = i
            while j < n and s[j] in _DIGITS:
                j += 1
            if j < n and s[j] == '.':
                j += 1
                while j < n and s[j] in _DIGITS:
                    j += 1
            toks.append(Tok('num', s[i:j], i))
            i = j
        elif c == '"' or c == "'":
            j = s.find(c, i + 1)
            if j < 0:
                raise XPathSyntaxError('unterminated literal at %d' % i)
            toks.append(Tok('lit', s[i + 1:j], i))
            i = j + 1
        elif two in ('//', '!=', '<=', '>='):
            toks.append(Tok('op', two, i))
            i += 2
        elif c in '/|+-=<>':
            toks.append(Tok('op', c, i))
            i += 1
        elif c == '*':
            if opctx:
                toks.append(Tok('op', '*', i))
            else:
                toks.append(Tok('name', (None, '*'), i))
            i += 1
        elif c == '$':
            # VariableReference ::= '$' QName   -- a single token, no whitespace
            if i + 1 >= n or not _is_name_start(s[i + 1]):
                raise XPathSyntaxError("'$' must be directly followed by a QName at %d" % i)
            j = _scan_ncname(s, i + 1)
            pfx, loc = None, s[i + 1:j]
            if j + 1 < n and s[j] == ':' and _is_name_start(s[j + 1]):
                k = _scan_ncname(s, j + 1)
                pfx, loc = loc, s[j + 1:k]
                j = k
            toks.append(Tok('var', (pfx, loc), i))
            i = j
        elif _is_name_start(c):
            j = _scan_ncname(s, i)
            first = s[i:j]
            pfx, loc = None, first
            # longest token: QName or NCName:*  (but 'a::' is NCName then '::')
            if j + 1 < n and s[j] == ':' and s[j + 1] != ':':
                if s[j + 1] == '*':
                    pfx, loc = first, '*'
                    j += 2
                elif _is_name_start(s[j + 1]):
                    k = _scan_ncname(s, j + 1)
                    pfx, loc = first, s[j + 1:k]
                    j = k
                else:
                    raise XPathSyntaxError("stray ':' at %d" % j)
            elif j < n and s[j] == ':' and not (j + 1 < n and s[j + 1] == ':'):
                raise XPathSyntaxError("stray ':' at %d" % j)
            if opctx:
                # rule 1: an NCName here must be an OperatorName
                if pfx is None and loc in _OPNAMES:
                    toks.append(Tok('op', loc, i))
                    i = j
                    continue
                raise XPathSyntaxError('operator expected at %d, found %r' % (i, s[i:j]))
            # look past whitespace
            k = j
            while k < n and s[k] in _WS:
                k += 1
            if k < n and s[k] == '(' and loc != '*':
                # rule 2: NodeType or FunctionName
                if pfx is None and loc in NODE_TYPES:
                    toks.append(Tok('nodetype', loc, i))
                else:
                    toks.append(Tok('func', (pfx, loc), i))
            elif s[k:k + 2] == '::' and pfx is None:
                # rule 3: AxisName
                if loc not in _AXES:
                    raise XPathSyntaxError('unknown axis %r at %d' % (loc, i))
                toks.append(Tok('axis', loc, i))
            else:
                toks.append(Tok('name', (pfx, loc), i))
            i = j
        else:
            raise XPathSyntaxError('unexpected character %r at %d' % (c, i))
    return toks


# ---------------------------------------------------------------------------
# AST (plain tuples, hashable, structurally comparable)
#
#   ('num', float)  ('lit', str)  ('var', prefix|None, local)
#   ('fn', prefix|None, local, (args...))
#   ('neg', e)   ('bin', op, l, r)   op in or and = != < <= > >= + - * div mod
#   ('union', l, r)
#   ('path', absolute:bool, (steps...))           LocationPath
#   ('filter', primary, (preds...))               FilterExpr with >=1 predicate
#   ('fpath', filterexpr, (steps...))             FilterExpr '/' RelativeLocationPath
#   step = ('step', axis, test, (preds...), abbrev)
#          abbrev: None | '.' | '..' | '@' | '//'  (how it was written; '//'
#          marks the implicit descendant-or-self::node() step)
#   test = ('name', prefix|None, local) | ('any',) | ('nsany', prefix)
#        | ('type', 'node'|'text'|'comment'|'processing-instruction')
#        | ('pi', literal)
# ---------------------------------------------------------------------------
_DOS_STEP = ('step', 'descendant-or-self', ('type', 'node'), (), '//')


class _Parser(object):
    def __init__(self, text):
        self.text = text
        self.toks = tokenize(text)
        self.i = 0

    # -- helpers
    def peek(self):
        return self.toks[self.i] if self.i < len(self.toks) else None

    def at(self, kind, val=None):
        t = self.peek()
        return t is not None and t.kind == kind and (val is None or t.val == val)

    def at_op(self, *vals):
        t = self.peek()
        return t is not None and t.kind == 'op' and t.val in vals

    def next(self):
        t = self.peek()
        if t is None:
            raise XPathSyntaxError('unexpected end of expression')
        self.i += 1
        return t

    def expect(self, kind):
        t = self.peek()
        if t is None or t.kind != kind:
            raise XPathSyntaxError('expected %r at %s' % (
                kind, 'end' if t is None else t.pos))
        self.i += 1
        return t

    def fail(self, msg):
        t = self.peek()
        raise XPathSyntaxError('%s at %s' % (msg, 'end' if t is None else t.pos))

    # -- [14] Expr .. [27] UnaryExpr
    def expr(self):
        return self.or_expr()

    def _binary(self, sub, ops):
        l = sub()
        while self.at_op(*ops):
            op = self.next().val
            r = sub()
            l = ('bin', op, l, r)
        return l

    def or_expr(self):
        return self._binary(self.and_expr, ('or',))

    def and_expr(self):
        return self._binary(self.equality, ('and',))

    def equality(self):
        return self._binary(self.relational, ('=', '!='))

    def relational(self):
        return self._binary(self.additive, ('<', '>', '<=', '>='))

    def additive(self):
        return self._binary(self.multiplicative, ('+', '-'))

    def multiplicative(self):
        return self._binary(self.unary, ('*', 'div', 'mod'))

    def unary(self):
        # [27] UnaryExpr ::= UnionExpr | '-' UnaryExpr
        n = 0
        while self.at_op('-'):
            self.next()
            n += 1
        e = self.union()
        for _ in range(n):
            e = ('neg', e)
        return e

    def union(self):
        l = self.path_expr()
        while self.at_op('|'):
            self.next()
            r = self.path_expr()
            l = ('union', l, r)
        return l

    # -- [19] PathExpr
    def starts_step(self):
        t = self.peek()
        return t is not None and t.kind in ('name', 'nodetype', 'axis', '@', '.', '..')

    def path_expr(self):
        t = self.peek()
        if t is None:
            self.fail('expression expected')
        if t.kind == 'op' and t.val == '/':
            self.next()
            if self.starts_step():
                return ('path', True, tuple(self.relative_path()))
            return ('path', True, ())
        if t.kind == 'op' and t.val == '//':
            self.next()
            return ('path', True, (_DOS_STEP,) + tuple(self.relative_path()))
        if self.starts_step():
            return ('path', False, tuple(self.relative_path()))
        # FilterExpr
        prim = self.primary()
        preds = self.predicates()
        fe = ('filter', prim, tuple(preds)) if preds else prim
        if self.at_op('/'):
            self.next()
            return ('fpath', fe, tuple(self.relative_path()))
        if self.at_op('//'):
            self.next()
            return ('fpath', fe, (_DOS_STEP,) + tuple(self.relative_path()))
        return fe

    def relative_path(self):
        steps = [self.step()]
        while True:
            if self.at_op('/'):
                self.next()
                steps.append(self.step())
            elif self.at_op('//'):
                self.next()
                steps.append(_DOS_STEP)
                steps.append(self.step())
            else:
                return steps

    def step(self, pattern=False):
        t = self.peek()
        if t is None:
            self.fail('location step expected')
        if t.kind == '.':
            if pattern:
                self.fail("'.' not allowed in a pattern")
            self.next()
            return ('step', 'self', ('type', 'node'), (), '.')
        if t.kind == '..':
            if pattern:
                self.fail("'..' not allowed in a pattern")
            self.next()
            return ('step', 'parent', ('type', 'node'), (), '..')
        abbrev = None
        if t.kind == '@':
            self.next()
            axis = 'attribute'
            abbrev = '@'
        elif t.kind == 'axis':
            self.next()
            self.expect('::')
            axis = t.val
            if pattern and axis not in ('child', 'attribute'):
                raise XPathSyntaxError('axis %s not allowed in a pattern (at %d)' % (axis, t.pos))
        else:
            axis = 'child'
        test = self.node_test()
        preds = self.predicates()
        return ('step', axis, test, tuple(preds), abbrev)

    def node_test(self):
        t = self.peek()
        if t is None:
            self.fail('node test expected')
        if t.kind == 'name':
            self.next()
            pfx, loc = t.val
            if loc == '*':
                return ('any',) if pfx is None else ('nsany', pfx)
            return ('name', pfx, loc)
        if t.kind == 'nodetype':
            self.next()
            self.expect('(')
            if t.val == 'processing-instruction' and self.at('lit'):
                lit = self.next().val
                self.expect(')')
                return ('pi', lit)
            self.expect(')')
            return ('type', t.val)
        self.fail('node test expected')

    def predicates(self):
        preds = []
        while self.at('['):
            self.next()
            preds.append(self.expr())
            self.expect(']')
        return preds

    def primary(self):
        t = self.peek()
        if t is None:
            self.fail('expression expected')
        k = t.kind
        if k == 'var':
            self.next()
            return ('var', t.val[0], t.val[1])
        if k == '(':
            self.next()
            e = self.expr()
            self.expect(')')
            return e
        if k == 'lit':
            self.next()
            return ('lit', t.val)
        if k == 'num':
            self.next()
            return ('num', _literal_to_number(t.val))
        if k == 'func':
            self.next()
            self.expect('(')
            args = []
            if not self.at(')'):
                args.append(self.expr())
                while self.at(','):
                    self.next()
                    args.append(self.expr())
            self.expect(')')
            return ('fn', t.val[0], t.val[1], tuple(args))
        self.fail('unexpected token %r' % (t.val,))

    # -- XSLT 1.0 5.2 patterns
    def pattern(self):
        alts = [self.location_path_pattern()]
        while self.at_op('|'):
            self.next()
            alts.append(self.location_path_pattern())
        return alts

    def relative_path_pattern(self):
        steps = [self.step(pattern=True)]
        while True:
            if self.at_op('/'):
                self.next()
                steps.append(self.step(pattern=True))
            elif self.at_op('//'):
                self.next()
                steps.append(_DOS_STEP)
                steps.append(self.step(pattern=True))
            else:
                return steps

    def location_path_pattern(self):
        t = self.peek()
        if t is None:
            self.fail('pattern expected')
        if t.kind == 'op' and t.val == '/':
            self.next()
            if self.starts_step():
                return ('path', True, tuple(self.relative_path_pattern()))
            return ('path', True, ())
        if t.kind == 'op' and t.val == '//':
            self.next()
            return ('path', True, (_DOS_STEP,) + tuple(self.relative_path_pattern()))
        if t.kind == 'func':
            pfx, loc = t.val
            if pfx is not None or loc not in ('id', 'key'):
                raise XPathSyntaxError('function %s not allowed at the head of a pattern' % loc)
            self.next()
            self.expect('(')
            args = [('lit', self.expect('lit').val)]
            if loc == 'key':
                self.expect(',')
                args.append(('lit', self.expect('lit').val))
            self.expect(')')
            head = ('fn', None, loc, tuple(args))
            if self.at_op('/'):
                self.next()
                return ('fpath', head, tuple(self.relative_path_pattern()))
            if self.at_op('//'):
                self.next()
                return ('fpath', head, (_DOS_STEP,) + tuple(self.relative_path_pattern()))
            return head
        if self.starts_step():
            return ('path', False, tuple(self.relative_path_pattern()))
        self.fail('pattern expected')


def _literal_to_number(text):
    """Number literal (production 30) -> nearest IEEE double."""
    return float(text)


def parse(expr):
    """Parse an XPath 1.0 expression; raises XPathSyntaxError."""
    if not isinstance(expr, str):
        raise TypeError('expression must be str')
    p = _Parser(expr)
    e = p.expr()
    if p.peek() is not None:
        p.fail('unexpected token %r' % (p.peek().val,))
    return e


def parse_pattern(s):
    """Parse an XSLT 1.0 pattern -> ('pattern', (alternative_expr_ast, ...))."""
    if not isinstance(s, str):
        raise TypeError('pattern must be str')
    p = _Parser(s)
    alts = p.pattern()
    if p.peek() is not None:
        p.fail('unexpected token %r in pattern' % (p.peek().val,))
    return ('pattern', tuple(alts))


# ---------------------------------------------------------------------------
# 4.x conversions
# ---------------------------------------------------------------------------
NaN = float('nan')
INF = float('inf')
_NUM_RE = re.compile(r'^[ \t\r\n]*(-?(?:[0-9]+(?:\.[0-9]*)?|\.[0-9]+))[ \t\r\n]*$')
_XML_WS_SPLIT = re.compile(r'[ \t\r\n]+')


def is_nodeset(v):
    return isinstance(v, list)


def string_to_number(s):
    """4.4 number(): optional whitespace, optional '-', Number, optional
    whitespace -> nearest IEEE double; anything else NaN."""
    m = _NUM_RE.match(s)
    if m is None:
        return NaN
    return float(m.group(1))          # correctly rounded; '-0' -> -0.0


def number_to_string(x):
    """4.2 string() of a number."""
    if x != x:
        return 'NaN'
    if x == INF:
        return 'Infinity'
    if x == -INF:
        return '-Infinity'
    if x == 0:
        return '0'                    # both zeros
    if x == math.floor(x):
        return str(int(x))            # exact integer value (Ambiguity A2)
    r = repr(abs(x))                  # shortest digits that round-trip
    if 'e' in r or 'E' in r:
        mant, exp = r.lower().split('e')
        exp = int(exp)
    else:
        mant, exp = r, 0
    if '.' in mant:
        ip, fp = mant.split('.')
    else:
        ip, fp = mant, ''
    digits = ip + fp
    point = len(ip) + exp             # position of the decimal point in digits
    if point <= 0:
        ip2, fp2 = '0', '0' * (-point) + digits
    elif point >= len(digits):
        ip2, fp2 = digits + '0' * (point - len(digits)), ''
    else:
        ip2, fp2 = digits[:point], digits[point:]
    ip2 = ip2.lstrip('0') or '0'
    fp2 = fp2.rstrip('0')
    out = ip2 + ('.' + fp2 if fp2 else '')
    return '-' + out if x < 0 else out


_order_hook = None      # self-test instrumentation: called with every node-set
                        # whose document ORDER (not just membership) is used


def to_string(v):
    if isinstance(v, str):
        return v
    if isinstance(v, list):
        if _order_hook is not None and len(v) > 1:
            _order_hook(v)
        return v[0].string_value() if v else ''
    if isinstance(v, bool):
        return 'true' if v else 'false'
    if isinstance(v, float):
        return number_to_string(v)
    raise TypeError('not an XPath value: %r' % (v,))


def to_number(v):
    if isinstance(v, bool):
        return 1.0 if v else 0.0
    if isinstance(v, float):
        return v
    if isinstance(v, str):
        return string_to_number(v)
    if isinstance(v, list):
        return string_to_number(to_string(v))
    raise TypeError('not an XPath value: %r' % (v,))


def to_boolean(v):
    if isinstance(v, bool):
        return v
    if isinstance(v, float):
        return not (v == 0 or v != v)
    if isinstance(v, str):
        return len(v) > 0
    if isinstance(v, list):
        return len(v) > 0
    raise TypeError('not an XPath value: %r' % (v,))


def type_name(v):
    if isinstance(v, bool):
        return 'boolean'
    if isinstance(v, float):
        return 'number'
    if isinstance(v, str):
        return 'string'
    if isinstance(v, list):
        return 'node-set'
    raise TypeError('not an XPath value: %r' % (v,))


def _skey(n):
    return n.skey


def make_nodeset(nodes):
    """Duplicate-free list in document order (across documents: docnum)."""
    seen = set()
    out = []
    for n in nodes:
        if n not in seen:
            seen.add(n)
            out.append(n)
    out.sort(key=_skey)
    return out


# ---------------------------------------------------------------------------
# number helpers (4.4, 3.5)
# ---------------------------------------------------------------------------
def _is_neg_zero(x):
    return x == 0 and math.copysign(1.0, x) < 0


def xp_floor(x):
    if x != x or x in (INF, -INF) or x == 0:
        return x
    return float(math.floor(x))


def xp_ceiling(x):
    if x != x or x in (INF, -INF) or x == 0:
        return x
    r = float(math.ceil(x))
    if r == 0 and x < 0:
        return -0.0                   # Ambiguity A3
    return r


def xp_round(x):
    """4.4 round(): nearest integer, ties toward +infinity; NaN, infinities and
    both zeros are returned unchanged; [-0.5, 0) -> -0."""
    if x != x or x in (INF, -INF) or x == 0:
        return x
    if -0.5 <= x < 0:
        return -0.0
    f = float(math.floor(x))
    if x - f >= 0.5:                  # exact subtraction
        return f + 1.0
    return f


def xp_div(a, b):
    if a != a or b != b:
        return NaN
    if b == 0:
        if a == 0:
            return NaN
        neg = (math.copysign(1.0, a) < 0) != (math.copysign(1.0, b) < 0)
        return -INF if neg else INF
    return a / b                      # inf/inf -> nan, x/inf -> +-0 : IEEE


def xp_mod(a, b):
    """Truncating remainder, sign of the dividend (Java/ECMAScript %)."""
    if a != a or b != b:
        return NaN
    if a in (INF, -INF) or b == 0:
        return NaN
    if b in (INF, -INF):
        return a
    return math.fmod(a, b)


# ---------------------------------------------------------------------------
# 3.4 comparisons
# ---------------------------------------------------------------------------
def _cmp_num(op, a, b):
    if op == '=':
        return a == b
    if op == '!=':
        return a != b
    if op == '<':
        return a < b
    if op == '<=':
        return a <= b
    if op == '>':
        return a > b
    if op == '>=':
        return a >= b
    raise AssertionError(op)


def _cmp_atomic(op, a, b):
    """Neither operand is a node-set."""
    if op == '=' or op == '!=':
        if isinstance(a, bool) or isinstance(b, bool):
            a, b = to_boolean(a), to_boolean(b)
            return (a == b) if op == '=' else (a != b)
        if isinstance(a, float) or isinstance(b, float):
            return _cmp_num(op, to_number(a), to_number(b))
        a, b = to_string(a), to_string(b)
        return (a == b) if op == '=' else (a != b)
    return _cmp_num(op, to_number(a), to_number(b))


def compare(op, a, b):
    an, bn = isinstance(a, list), isinstance(b, list)
    if an and bn:
        if op == '=' or op == '!=':
            sb = [n.string_value() for n in b]
            for x in a:
                xs = x.string_value()
                for ys in sb:
                    if (xs == ys) if op == '=' else (xs != ys):
                        return True
            return False
        nb = [string_to_number(n.string_value()) for n in b]
        for x in a:
            xn = string_to_number(x.string_value())
            for yn in nb:
                if _cmp_num(op, xn, yn):
                    return True
        return False
    if an or bn:
        other = b if an else a
        ns = a if an else b
        if isinstance(other, bool):
            nb_ = to_boolean(ns)
            return _cmp_atomic(op, nb_, other) if an else _cmp_atomic(op, other, nb_)
        if isinstance(other, float):
            for x in ns:
                xn = string_to_number(x.string_value())
                if (_cmp_num(op, xn, other) if an else _cmp_num(op, other, xn)):
                    return True
            return False
        if isinstance(other, str):
            for x in ns:
                xs = x.string_value()
                if (_cmp_atomic(op, xs, other) if an else _cmp_atomic(op, other, xs)):
                    return True
            return False
        raise TypeError('not an XPath value: %r' % (other,))
    return _cmp_atomic(op, a, b)


# ---------------------------------------------------------------------------
# 2.2 Axes.  Each function returns the nodes ON the axis IN AXIS ORDER
# (forward axes: document order; reverse axes: reverse document order).
# ---------------------------------------------------------------------------
REVERSE_AXES = frozenset(('ancestor', 'ancestor-or-self', 'preceding', 'preceding-sibling'))


def _descendants(n, out):
    for c in n.children:
        out.append(c)
        if c.children:
            _descendants(c, out)


def _ax_child(n):
    return list(n.children)


def _ax_descendant(n):
    out = []
    _descendants(n, out)
    return out


def _ax_descendant_or_self(n):
    out = [n]
    _descendants(n, out)
    return out


def _ax_parent(n):
    return [n.parent] if n.parent is not None else []


def _ax_ancestor(n):
    out = []
    p = n.parent
    while p is not None:
        out.append(p)
        p = p.parent
    return out


def _ax_ancestor_or_self(n):
    return [n] + _ax_ancestor(n)


def _is_tree_child(n):
    return n.kind not in ('attribute', 'namespace', 'root')


def _ax_following_sibling(n):
    # "If the context node is an attribute node or namespace node, the
    #  following-sibling axis is empty"
    if not _is_tree_child(n):
        return []
    sibs = n.parent.children
    i = _index_of(sibs, n)
    return sibs[i + 1:]


def _ax_preceding_sibling(n):
    if not _is_tree_child(n):
        return []
    sibs = n.parent.children
    i = _index_of(sibs, n)
    r = sibs[:i]
    r.reverse()
    return r


def _index_of(lst, n):
    for i, x in enumerate(lst):
        if x is n:
            return i
    raise AssertionError('node not among its parent\'s children')


def _ax_following(n):
    # all nodes after the context node in document order, excluding
    # descendants and excluding attribute and namespace nodes
    out = []
    if n.kind in ('attribute', 'namespace'):
        # the owner element's descendants come after the attribute/namespace
        # node in document order and are not ITS descendants
        n = n.parent
        _descendants(n, out)
    a = n
    while a is not None and a.parent is not None:
        for s in _ax_following_sibling(a):
            out.append(s)
            _descendants(s, out)
        a = a.parent
    return out


def _ax_preceding(n):
    # all nodes before the context node in document order, excluding
    # ancestors and excluding attribute and namespace nodes; reverse order
    if n.kind in ('attribute', 'namespace'):
        n = n.parent          # the owner is an ancestor; what precedes it is the same
    out = []
    a = n
    while a is not None and a.parent is not None:
        for s in _ax_preceding_sibling(a):      # nearest first
            sub = [s]
            _descendants(s, sub)
            sub.reverse()
            out.extend(sub)
        a = a.parent
    return out


def _ax_attribute(n):
    return list(n.attributes) if n.kind == 'element' else []


def _ax_namespace(n):
    return list(n.namespaces) if n.kind == 'element' else []


def _ax_self(n):
    return [n]


_AXIS_FN = {
    'child': _ax_child, 'descendant': _ax_descendant,
    'descendant-or-self': _ax_descendant_or_self, 'parent': _ax_parent,
    'ancestor': _ax_ancestor, 'ancestor-or-self': _ax_ancestor_or_self,
    'following-sibling': _ax_following_sibling,
    'preceding-sibling': _ax_preceding_sibling, 'following': _ax_following,
    'preceding': _ax_preceding, 'attribute': _ax_attribute,
    'namespace': _ax_namespace, 'self': _ax_self,
}


def axis_nodes(axis, node):
    return _AXIS_FN[axis](node)


def _principal(axis):
    # 2.3: attribute axis -> attribute; namespace axis -> namespace; else element
    if axis == 'attribute':
        return 'attribute'
    if axis == 'namespace':
        return 'namespace'
    return 'element'


class Context(object):
    """Expression context (Rec section 1) + XSLT current node."""
    __slots__ = ('node', 'position', 'size', 'variables', 'namespaces',
                 'functions', 'current')

    def __init__(self, node, position=1, size=1, variables=None,
                 namespaces=None, functions=None, current=None):
        self.node = node
        self.position = position
        self.size = size
        self.variables = variables if variables is not None else {}
        self.namespaces = namespaces if namespaces is not None else {}
        self.functions = functions if functions is not None else {}
        self.current = current if current is not None else node

    def derive(self, node, position=1, size=1):
        return Context(node, position, size, self.variables, self.namespaces,
                       self.functions, self.current)


def _resolve_prefix(env, pfx, what):
    if pfx == 'xml':
        return env.namespaces.get('xml', XML_NS)
    try:
        return env.namespaces[pfx]
    except KeyError:
        raise XPathStaticError('unbound namespace prefix %r in %s' % (pfx, what))


def _test_matcher(axis, test, env):
    """-> predicate function node -> bool for a NodeTest on an axis (2.3)."""
    t = test[0]
    if t == 'type':
        ty = test[1]
        if ty == 'node':
            return lambda n: True
        if ty == 'text':
            return lambda n: n.kind == 'text'
        if ty == 'comment':
            return lambda n: n.kind == 'comment'
        return lambda n: n.kind == 'pi'
    if t == 'pi':
        target = test[1]
        return lambda n: n.kind == 'pi' and n.local == target
    kind = _principal(axis)
    if t == 'any':
        return lambda n: n.kind == kind
    if t == 'nsany':
        uri = _resolve_prefix(env, test[1], 'name test')
        return lambda n: n.kind == kind and n.uri == uri
    if t == 'name':
        # no prefix -> null namespace URI, the default namespace is NOT used
        uri = _resolve_prefix(env, test[1], 'name test') if test[1] is not None else ''
        local = test[2]
        return lambda n: n.kind == kind and n.local == local and n.uri == uri
    raise AssertionError(test)


# ---------------------------------------------------------------------------
# evaluation
# ---------------------------------------------------------------------------
def _apply_predicates(nodes, preds, env):
    """nodes are in the order in which proximity positions are counted."""
    for p in preds:
        if not nodes:
            break
        size = len(nodes)
        kept = []
        for i, n in enumerate(nodes):
            v = _ev(p, n, i + 1, size, env)
            if isinstance(v, float):
                # 2.4: a number result is true iff equal to the context position
                ok = (v == float(i + 1))
            else:
                ok = to_boolean(v)
            if ok:
                kept.append(n)
        nodes = kept
    return nodes


def _eval_step(step, ctxnodes, env):
    _, axis, test, preds, _abbrev = step
    axfn = _AXIS_FN[axis]
    match = _test_matcher(axis, test, env)
    result = []
    for n in ctxnodes:
        cand = [m for m in axfn(n) if match(m)]
        if preds:
            cand = _apply_predicates(cand, preds, env)
        result.extend(cand)
    return make_nodeset(result)


def _eval_steps(steps, start, env):
    cur = start
    for st in steps:
        if not cur:
            # still must surface static errors of later steps: done by static_check
            return []
        cur = _eval_step(st, cur, env)
    return cur


def _root_of(n):
    while n.parent is not None:
        n = n.parent
    return n


def _lookup_var(env, pfx, local):
    if pfx is None:
        key = local
    else:
        key = '{' + _resolve_prefix(env, pfx, 'variable reference') + '}' + local
    try:
        v = env.variables[key]
    except KeyError:
        raise XPathDynamicError('unbound variable $%s' % key)
    if isinstance(v, int) and not isinstance(v, bool):
        v = float(v)
    return v


def _ev(e, node, pos, size, env):
    t = e[0]
    if t == 'path':
        start = [_root_of(node)] if e[1] else [node]
        return _eval_steps(e[2], start, env)
    if t == 'num' or t == 'lit':
        return e[1]
    if t == 'bin':
        op = e[1]
        if op == 'or':
            if to_boolean(_ev(e[2], node, pos, size, env)):
                return True
            return to_boolean(_ev(e[3], node, pos, size, env))
        if op == 'and':
            if not to_boolean(_ev(e[2], node, pos, size, env)):
                return False
            return to_boolean(_ev(e[3], node, pos, size, env))
        a = _ev(e[2], node, pos, size, env)
        b = _ev(e[3], node, pos, size, env)
        if op in ('=', '!=', '<', '<=', '>', '>='):
            return compare(op, a, b)
        a, b = to_number(a), to_number(b)
        if op == '+':
            return a + b
        if op == '-':
            return a - b
        if op == '*':
            return a * b
        if op == 'div':
            return xp_div(a, b)
        if op == 'mod':
            return xp_mod(a, b)
        raise AssertionError(op)
    if t == 'neg':
        return -to_number(_ev(e[1], node, pos, size, env))
    if t == 'union':
        a = _ev(e[1], node, pos, size, env)
        if not isinstance(a, list):
            raise XPathDynamicError("operand of '|' is not a node-set")
        b = _ev(e[2], node, pos, size, env)
        if not isinstance(b, list):
            raise XPathDynamicError("operand of '|' is not a node-set")
        return make_nodeset(a + b)
    if t == 'var':
        v = _lookup_var(env, e[1], e[2])
        return make_nodeset(v) if isinstance(v, list) else v
    if t == 'fn':
        return _call(e, node, pos, size, env)
    if t == 'filter':
        v = _ev(e[1], node, pos, size, env)
        if not isinstance(v, list):
            raise XPathDynamicError('predicate applied to a %s' % type_name(v))
        # 3.3: filtered with respect to the child axis -> document order
        if _order_hook is not None and len(v) > 1:
            _order_hook(v)
        return _apply_predicates(make_nodeset(v), e[2], env)
    if t == 'fpath':
        v = _ev(e[1], node, pos, size, env)
        if not isinstance(v, list):
            raise XPathDynamicError("left operand of '/' is a %s, not a node-set" % type_name(v))
        return _eval_steps(e[2], make_nodeset(v), env)
    raise AssertionError('bad AST node %r' % (e,))


# -- 4 core function library --------------------------------------------------
# name -> (min args, max args or None)
CORE_ARITY = {
    'last': (0, 0), 'position': (0, 0), 'count': (1, 1), 'id': (1, 1),
    'local-name': (0, 1), 'namespace-uri': (0, 1), 'name': (0, 1),
    'string': (0, 1), 'concat': (2, None), 'starts-with': (2, 2),
    'contains': (2, 2), 'substring-before': (2, 2), 'substring-after': (2, 2),
    'substring': (2, 3), 'string-length': (0, 1), 'normalize-space': (0, 1),
    'translate': (3, 3), 'boolean': (1, 1), 'not': (1, 1), 'true': (0, 0),
    'false': (0, 0), 'lang': (1, 1), 'number': (0, 1), 'sum': (1, 1),
    'floor': (1, 1), 'ceiling': (1, 1), 'round': (1, 1),
}


def _need_nodeset(v, fname):
    if not isinstance(v, list):
        raise XPathDynamicError('argument of %s() must be a node-set, got %s' % (fname, type_name(v)))
    return v


def _ascii_lower(s):
    return ''.join(chr(ord(c) + 32) if 'A' <= c <= 'Z' else c for c in s)


def xp_substring(s, start, length=None):
    """4.2: characters at position p (1-based) with
       p >= round(start) and (if given) p < round(start) + round(length)."""
    rs = xp_round(start)
    if length is None:
        return ''.join(c for i, c in enumerate(s, 1) if i >= rs)
    end = rs + xp_round(length)       # -inf + inf = NaN -> nothing selected
    return ''.join(c for i, c in enumerate(s, 1) if i >= rs and i < end)


def xp_normalize_space(s):
    return ' '.join(x for x in _XML_WS_SPLIT.split(s) if x)


def xp_translate(s, frm, to):
    m = {}
    for i, c in enumerate(frm):
        if c not in m:                # first occurrence wins
            m[c] = to[i] if i < len(to) else None
    out = []
    for c in s:
        if c in m:
            r = m[c]
            if r is not None:
                out.append(r)
        else:
            out.append(c)
    return ''.join(out)


def xp_lang(node, arg):
    n = node
    if n.kind in ('attribute', 'namespace'):
        n = n.parent
    while n is not None:
        if n.kind == 'element':
            for a in n.attributes:
                if a.local == 'lang' and a.uri == XML_NS:
                    v = _ascii_lower(a.value)
                    w = _ascii_lower(arg)
                    return v == w or v.startswith(w + '-')
        n = n.parent
    return False


def xp_id(node, v):
    doc = node.doc
    if isinstance(v, list):
        toks = []
        for n in v:
            toks.extend(_XML_WS_SPLIT.split(n.string_value()))
    else:
        toks = _XML_WS_SPLIT.split(to_string(v))
    out = []
    for t in toks:
        if t:
            el = doc.ids.get(t)
            if el is not None:
                out.append(el)
    return make_nodeset(out)


def _call(e, node, pos, size, env):
    _, pfx, local, argexprs = e
    if pfx is None and local in CORE_ARITY:
        f = local
        if f == 'last':
            return float(size)
        if f == 'position':
            return float(pos)
        if f == 'true':
            return True
        if f == 'false':
            return False
        args = [_ev(a, node, pos, size, env) for a in argexprs]
        n = len(args)
        if f == 'count':
            return float(len(_need_nodeset(args[0], f)))
        if f == 'id':
            return xp_id(node, args[0])
        if f in ('local-name', 'namespace-uri', 'name'):
            if n:
                ns = _need_nodeset(args[0], f)
                if not ns:
                    return ''
                if _order_hook is not None and len(ns) > 1:
                    _order_hook(ns)
                x = ns[0]
            else:
                x = node
            if f == 'local-name':
                return x.local if x.kind in ('element', 'attribute', 'pi', 'namespace') else ''
            if f == 'namespace-uri':
                return x.uri if x.kind in ('element', 'attribute') else ''
            return x.qname if x.kind in ('element', 'attribute', 'pi', 'namespace') else ''
        if f == 'string':
            return to_string(args[0]) if n else node.string_value()
        if f == 'concat':
            return ''.join(to_string(a) for a in args)
        if f == 'starts-with':
            return to_string(args[0]).startswith(to_string(args[1]))
        if f == 'contains':
            return to_string(args[1]) in to_string(args[0])
        if f == 'substring-before':
            a, b = to_string(args[0]), to_string(args[1])
            i = a.find(b)
            return a[:i] if i >= 0 else ''
        if f == 'substring-after':
            a, b = to_string(args[0]), to_string(args[1])
            i = a.find(b)
            return a[i + len(b):] if i >= 0 else ''
        if f == 'substring':
            s = to_string(args[0])
            if n == 2:
                return xp_substring(s, to_number(args[1]))
            return xp_substring(s, to_number(args[1]), to_number(args[2]))
        if f == 'string-length':
            return float(len(to_string(args[0]) if n else node.string_value()))
        if f == 'normalize-space':
            return xp_normalize_space(to_string(args[0]) if n else node.string_value())
        if f == 'translate':
            return xp_translate(to_string(args[0]), to_string(args[1]), to_string(args[2]))
        if f == 'boolean':
            return to_boolean(args[0])
        if f == 'not':
            return not to_boolean(args[0])
        if f == 'lang':
            return xp_lang(node, to_string(args[0]))
        if f == 'number':
            return to_number(args[0]) if n else string_to_number(node.string_value())
        if f == 'sum':
            total = 0.0
            for x in _need_nodeset(args[0], f):
                total = total + string_to_number(x.string_value())
            return total
        if f == 'floor':
            return xp_floor(to_number(args[0]))
        if f == 'ceiling':
            return xp_ceiling(to_number(args[0]))
        if f == 'round':
            return xp_round(to_number(args[0]))
        raise AssertionError(f)
    uri = '' if pfx is None else _resolve_prefix(env, pfx, 'function name')
    fn = env.functions.get((uri, local))
    if fn is None:
        raise XPathStaticError('unknown function {%s}%s' % (uri, local))
    args = [_ev(a, node, pos, size, env) for a in argexprs]
    c = Context(node, pos, size, env.variables, env.namespaces, env.functions, env.current)
    v = fn(c, args)
    if isinstance(v, int) and not isinstance(v, bool):
        v = float(v)
    if isinstance(v, list):
        v = make_nodeset(v)
    return v


# -- static checks (prefixes, function names, arity) --------------------------
def static_check(ast, ctx):
    """Raise XPathStaticError for unbound prefixes, unknown functions or a
    wrong number of arguments anywhere in the tree (evaluated or not)."""
    stack = [ast]
    while stack:
        e = stack.pop()
        t = e[0]
        if t == 'pattern':
            stack.extend(e[1])
        elif t == 'path':
            stack.extend(e[2])
        elif t == 'step':
            test = e[2]
            if test[0] == 'nsany' or (test[0] == 'name' and test[1] is not None):
                _resolve_prefix(ctx, test[1], 'name test')
            stack.extend(e[3])
        elif t == 'bin':
            stack.append(e[2])
            stack.append(e[3])
        elif t == 'neg':
            stack.append(e[1])
        elif t == 'union':
            stack.append(e[1])
            stack.append(e[2])
        elif t == 'var':
            if e[1] is not None:
                _resolve_prefix(ctx, e[1], 'variable reference')
        elif t == 'fn':
            pfx, local, args = e[1], e[2], e[3]
            if pfx is None and local in CORE_ARITY:
                lo, hi = CORE_ARITY[local]
                if len(args) < lo or (hi is not None and len(args) > hi):
                    raise XPathStaticError('wrong number of arguments (%d) for %s()' % (len(args), local))
            else:
                uri = '' if pfx is None else _resolve_prefix(ctx, pfx, 'function name')
                if (uri, local) not in ctx.functions:
                    raise XPathStaticError('unknown function {%s}%s' % (uri, local))
            stack.extend(args)
        elif t == 'filter':
            stack.append(e[1])
            stack.extend(e[2])
        elif t == 'fpath':
            stack.append(e[1])
            stack.extend(e[2])
        elif t in ('num', 'lit'):
            pass
        else:
            raise AssertionError('bad AST node %r' % (e,))


def evaluate(ast, ctx, check=True):
    """Evaluate an expression AST -> bool | float | str | list[Node]."""
    if ast[0] == 'pattern':
        raise TypeError('use pattern_matches() for patterns')
    if check:
        static_check(ast, ctx)
    return _ev(ast, ctx.node, ctx.position, ctx.size, ctx)


def evaluate_string(expr, ctx):
    return evaluate(parse(expr), ctx)


# ---------------------------------------------------------------------------
# XSLT 1.0 5.2 patterns, 5.5 default priorities
# ---------------------------------------------------------------------------
def pattern_matches(pattern_ast, node, ctx):
    """XSLT 5.2, literally: node matches iff there is an ancestor-or-self A of
    node such that evaluating the pattern as an expression with A as context
    node (position = size = 1) yields a node-set containing node.
    ctx supplies variables / namespaces / functions (key() if used)."""
    if pattern_ast[0] != 'pattern':
        raise TypeError('not a pattern AST')
    static_check(pattern_ast, ctx)
    for alt in pattern_ast[1]:
        a = node
        while a is not None:
            env = Context(a, 1, 1, ctx.variables, ctx.namespaces, ctx.functions, ctx.current)
            v = _ev(alt, a, 1, 1, env)
            if not isinstance(v, list):
                raise XPathDynamicError('pattern did not evaluate to a node-set')
            for x in v:
                if x is node:
                    return True
            a = a.parent
    return False


def _alt_priority(alt):
    # only a relative pattern made of exactly one written step, no predicates
    if alt[0] == 'path' and not alt[1] and len(alt[2]) == 1:
        st = alt[2][0]
        if st[4] != '//' and not st[3] and st[1] in ('child', 'attribute'):
            test = st[2]
            if test[0] == 'name' or test[0] == 'pi':
                return 0.0
            if test[0] == 'nsany':
                return -0.25
            return -0.5
    return 0.5


def pattern_alternatives(pattern_ast):
    """-> [(single-alternative pattern AST, default priority)] (XSLT 5.5)."""
    if pattern_ast[0] != 'pattern':
        raise TypeError('not a pattern AST')
    return [(('pattern', (alt,)), _alt_priority(alt)) for alt in pattern_ast[1]]


# ---------------------------------------------------------------------------
# unparse: canonical text; parse(unparse(a)) == a
# ---------------------------------------------------------------------------
def _lit_text(s):
    if '"' not in s:
        return '"' + s + '"'
    if "'" not in s:
        return "'" + s + "'"
    raise ValueError('string containing both quote kinds cannot be an XPath literal')


def _num_text(x):
    if x != x or x in (INF, -INF) or x < 0 or _is_neg_zero(x):
        raise ValueError('not expressible as a Number literal: %r' % x)
    s = number_to_string(x)
    if string_to_number(s) != x:
        raise ValueError('number literal does not round-trip: %r' % x)
    return s


def _qn(pfx, local):
    return local if pfx is None else pfx + ':' + local


def _test_text(test):
    t = test[0]
    if t == 'any':
        return '*'
    if t == 'nsany':
        return test[1] + ':*'
    if t == 'name':
        return _qn(test[1], test[2])
    if t == 'type':
        return test[1] + '()'
    if t == 'pi':
        return 'processing-instruction(' + _lit_text(test[1]) + ')'
    raise AssertionError(test)


def _one_step_text(st):
    if st[4] == '.':
        return '.'
    if st[4] == '..':
        return '..'
    out = []
    if st[4] == '@':
        out.append('@')
    elif st[1] != 'child':
        out.append(st[1] + '::')
    out.append(_test_text(st[2]))
    for p in st[3]:
        out.append('[' + unparse(p) + ']')
    return ''.join(out)


def _steps_text(steps, first_sep):
    """first_sep: '/' after the root or a FilterExpr, '' for a relative path."""
    out = []
    sep = first_sep
    n = len(steps)
    for i, st in enumerate(steps):
        if st[4] == '//' and sep == '/' and i + 1 < n and steps[i + 1][4] != '//':
            sep = '//'                # abbreviated descendant-or-self::node()
            continue
        out.append(sep)
        if st[4] == '//':             # cannot be abbreviated here: spell it out
            out.append('descendant-or-self::node()')
        else:
            out.append(_one_step_text(st))
        sep = '/'
    return ''.join(out)


_PREC = {'or': 1, 'and': 2, '=': 3, '!=': 3, '<': 4, '<=': 4, '>': 4, '>=': 4,
         '+': 5, '-': 5, '*': 6, 'div': 6, 'mod': 6}


def _prec(e):
    t = e[0]
    if t == 'bin':
        return _PREC[e[1]]
    if t == 'neg':
        return 7
    if t == 'union':
        return 8
    return 9


def _wrap(e, minprec):
    if e == ('path', True, ()):
        return '(/)'      # '/ and x', '/ * 2' would lex the operator as a NameTest
    s = unparse(e)
    return '(' + s + ')' if _prec(e) < minprec else s


def unparse(e):
    t = e[0]
    if t == 'pattern':
        return ' | '.join(unparse(a) for a in e[1])
    if t == 'num':
        return _num_text(e[1])
    if t == 'lit':
        return _lit_text(e[1])
    if t == 'var':
        return '$' + _qn(e[1], e[2])
    if t == 'fn':
        return _qn(e[1], e[2]) + '(' + ', '.join(unparse(a) for a in e[3]) + ')'
    if t == 'neg':
        return '-' + _wrap(e[1], 7)
    if t == 'bin':
        p = _PREC[e[1]]
        return _wrap(e[2], p) + ' ' + e[1] + ' ' + _wrap(e[3], p + 1)
    if t == 'union':
        return _wrap(e[1], 8) + ' | ' + _wrap(e[2], 9)
    if t == 'path':
        if e[1]:
            if not e[2]:
                return '/'
            return _steps_text(e[2], '/')
        return _steps_text(e[2], '')
    if t == 'filter':
        prim = e[1]
        s = unparse(prim)
        if prim[0] not in ('var', 'fn', 'lit', 'num'):
            s = '(' + s + ')'
        return s + ''.join('[' + unparse(p) + ']' for p in e[2])
    if t == 'fpath':
        fe = e[1]
        s = unparse(fe)
        if fe[0] not in ('var', 'fn', 'lit', 'num', 'filter'):
            s = '(' + s + ')'
        return s + _steps_text(e[2], '/')
    raise AssertionError(e)


# ---------------------------------------------------------------------------
# EXSLT / Xalan extension functions with unambiguous published definitions.
# Implemented from the EXSLT function descriptions (exslt.org) and the Xalan
# extensions library documentation -- not from any implementation.
# Where a definition is silent XPathUnspecified is raised (Ambiguity A11).
# ---------------------------------------------------------------------------
NS_SETS = 'http://exslt.org/sets'
NS_MATH = 'http://exslt.org/math'
NS_STR = 'http://exslt.org/strings'
NS_COMMON = 'http://exslt.org/common'
NS_XALAN = 'http://xml.apache.org/xalan'


def _argc(args, lo, hi, name):
    if len(args) < lo or len(args) > hi:
        raise XPathStaticError('wrong number of arguments (%d) for %s' % (len(args), name))


def _ns_arg(v, name):
    if not isinstance(v, list):
        raise XPathDynamicError('argument of %s must be a node-set, got %s' % (name, type_name(v)))
    return make_nodeset(v)


def _set_difference(ctx, args, name='set:difference'):
    _argc(args, 2, 2, name)
    a, b = _ns_arg(args[0], name), set(_ns_arg(args[1], name))
    return [n for n in a if n not in b]


def _set_intersection(ctx, args, name='set:intersection'):
    _argc(args, 2, 2, name)
    a, b = _ns_arg(args[0], name), set(_ns_arg(args[1], name))
    return [n for n in a if n in b]


def _set_distinct(ctx, args, name='set:distinct'):
    # selects N iff no node with the same string-value precedes N in doc order
    _argc(args, 1, 1, name)
    seen = set()
    out = []
    for n in _ns_arg(args[0], name):
        s = n.string_value()
        if s not in seen:
            seen.add(s)
            out.append(n)
    return out


def _set_has_same_node(ctx, args, name='set:has-same-node'):
    _argc(args, 2, 2, name)
    a, b = _ns_arg(args[0], name), set(_ns_arg(args[1], name))
    return any(n in b for n in a)


def _set_leading(ctx, args, name='set:leading'):
    _argc(args, 2, 2, name)
    a, b = _ns_arg(args[0], name), _ns_arg(args[1], name)
    if not b:
        return a
    first = b[0]
    if not any(n is first for n in a):
        return []
    return [n for n in a if n.skey < first.skey]


def _set_trailing(ctx, args, name='set:trailing'):
    _argc(args, 2, 2, name)
    a, b = _ns_arg(args[0], name), _ns_arg(args[1], name)
    if not b:
        return a
    first = b[0]
    if not any(n is first for n in a):
        return []
    return [n for n in a if n.skey > first.skey]


def _node_numbers(ns):
    return [string_to_number(n.string_value()) for n in ns]


def _check_zero_signs(vals, extreme):
    if extreme == 0 and len(set(math.copysign(1.0, v) for v in vals if v == 0)) > 1:
        raise XPathUnspecified('math:min/max over both +0 and -0')


def _math_min(ctx, args, name='math:min'):
    _argc(args, 1, 1, name)
    vals = _node_numbers(_ns_arg(args[0], name))
    if not vals or any(v != v for v in vals):
        return NaN
    m = min(vals)
    _check_zero_signs(vals, m)
    return m


def _math_max(ctx, args, name='math:max'):
    _argc(args, 1, 1, name)
    vals = _node_numbers(_ns_arg(args[0], name))
    if not vals or any(v != v for v in vals):
        return NaN
    m = max(vals)
    _check_zero_signs(vals, m)
    return m


def _math_highest(ctx, args, name='math:highest'):
    _argc(args, 1, 1, name)
    ns = _ns_arg(args[0], name)
    vals = _node_numbers(ns)
    if not vals or any(v != v for v in vals):
        return []
    m = max(vals)
    return [n for n, v in zip(ns, vals) if v == m]


def _math_lowest(ctx, args, name='math:lowest'):
    _argc(args, 1, 1, name)
    ns = _ns_arg(args[0], name)
    vals = _node_numbers(ns)
    if not vals or any(v != v for v in vals):
        return []
    m = min(vals)
    return [n for n, v in zip(ns, vals) if v == m]


def _math_abs(ctx, args, name='math:abs'):
    _argc(args, 1, 1, name)
    return abs(to_number(args[0]))     # abs(-0) = +0, abs(NaN) = NaN


def _str_padding(ctx, args, name='str:padding'):
    _argc(args, 1, 2, name)
    ln = to_number(args[0])
    pad = to_string(args[1]) if len(args) > 1 else ' '
    if ln != ln or ln in (INF, -INF) or ln < 0 or ln != math.floor(ln):
        raise XPathUnspecified('str:padding length %r' % ln)
    ln = int(ln)
    if pad == '' or ln == 0:
        return ''
    return (pad * (ln // len(pad) + 1))[:ln]


def _str_align(ctx, args, name='str:align'):
    _argc(args, 2, 3, name)
    target, padding = to_string(args[0]), to_string(args[1])
    how = to_string(args[2]) if len(args) > 2 else 'left'
    if how not in ('left', 'right', 'center'):
        how = 'left'
    t, p = len(target), len(padding)
    if t > p:
        if how != 'left':
            raise XPathUnspecified('str:align truncation with %s alignment' % how)
        return target[:p]
    if how == 'left':
        return target + padding[t:]
    if how == 'right':
        return padding[:p - t] + target
    left = (p - t) // 2                # same on both sides or one less on the left
    return padding[:left] + target + padding[left + t:]


def _str_concat(ctx, args, name='str:concat'):
    _argc(args, 1, 1, name)
    return ''.join(n.string_value() for n in _ns_arg(args[0], name))


def _exsl_object_type(ctx, args, name='exsl:object-type'):
    _argc(args, 1, 1, name)
    return type_name(args[0])          # 'RTF' / 'external' are the caller's business


def _xalan_has_same_nodes(ctx, args, name='xalan:hasSameNodes'):
    # true iff both node-sets contain exactly the same set of nodes
    _argc(args, 2, 2, name)
    return set(_ns_arg(args[0], name)) == set(_ns_arg(args[1], name))


def extension_functions():
    """-> {(namespace-uri, local-name): callable(ctx, args)}"""
    return {
        (NS_SETS, 'difference'): _set_difference,
        (NS_SETS, 'intersection'): _set_intersection,
        (NS_SETS, 'distinct'): _set_distinct,
        (NS_SETS, 'has-same-node'): _set_has_same_node,
        (NS_SETS, 'leading'): _set_leading,
        (NS_SETS, 'trailing'): _set_trailing,
        (NS_MATH, 'min'): _math_min,
        (NS_MATH, 'max'): _math_max,
        (NS_MATH, 'highest'): _math_highest,
        (NS_MATH, 'lowest'): _math_lowest,
        (NS_MATH, 'abs'): _math_abs,
        (NS_STR, 'padding'): _str_padding,
        (NS_STR, 'align'): _str_align,
        (NS_STR, 'concat'): _str_concat,
        (NS_COMMON, 'object-type'): _exsl_object_type,
        (NS_XALAN, 'distinct'):
            lambda c, a: _set_distinct(c, a, 'xalan:distinct'),
        (NS_XALAN, 'difference'):
            lambda c, a: _set_difference(c, a, 'xalan:difference'),
        (NS_XALAN, 'intersection'):
            lambda c, a: _set_intersection(c, a, 'xalan:intersection'),
        (NS_XALAN, 'hasSameNodes'): _xalan_has_same_nodes,
    }
