"""Independent XSLT 1.0 reference interpreter (pure Python, stdlib only).

Written from the W3C XSLT 1.0 Recommendation (16 Nov 1999).  A direct recursive
interpreter over a compiled instruction tree; shares no code with Xalan-C or
libxslt.  XPath evaluation and pattern matching are delegated to vf.ref_xpath,
source documents are vf.model Documents.  Strict conformance is preferred over
coverage: whatever is outside the supported subset, implementation-defined or
ambiguous in the Recommendation raises XSLTUnsupported so that the caller can
discard the case instead of trusting a guess.

API
---
  compile_stylesheet(text, uri, resolver) -> Stylesheet
        resolver(href_as_written, base_uri) -> text (str/bytes) | None; used for
        xsl:import / xsl:include.  Relative references are resolved with the
        scheme-independent urljoin() of this module (RFC 3986).
  transform(stylesheet, source_document, params=None, resolver=None, messages=None)
        -> ResultRoot (ResultNode kind 'root' + .output .recoveries .messages)
        params: {'local' | '{uri}local': str | float | int | bool}
        resolver: as above, for document(); for document('') it receives the
        absolute URI of the stylesheet module as first argument.
  result_to_events(node) / dump(node): canonical nested tuples
        ('E',(uri,local),{(uri,local):value},[children]) | ('T',s) | ('C',s) | ('P',target,data)
  model_to_events(model_node): the same form for a parsed document.
  XSLTStaticError / XSLTDynamicError / XSLTUnsupported
  sort_is_codepoint = True: xsl:sort data-type="text" is plain code-point order.

Errors that the Recommendation lets a processor signal OR recover from are
recovered in the prescribed way and the clause is recorded in
result.recoveries:
  3.4-strip-preserve-conflict      last xsl:strip-space/preserve-space wins
  5.5-template-conflict            last matching rule in the stylesheet wins
  7.1.2-element-name-not-qname     content instantiated without the element and
                                   without its initial attribute nodes
  7.1.3-attribute-name-not-qname   attribute not added (also name="xmlns")
  7.1.3-attribute-after-children   attribute ignored
  7.1.3-attribute-on-non-element   attribute ignored
  7.1.3-non-text-in-attribute, 7.3-non-text-in-pi, 7.4-non-text-in-comment
                                   offending nodes ignored with their content
  7.1.4-attribute-set-conflict     last definition wins (detected only for
                                   attribute names that are not AVTs)
  7.3-pi-name                      PI not added;  7.3-pi-close  "?>" -> "? >"
  7.4-comment-dashes               "--" -> "- -", trailing "-" -> "- "
  12.1-document-unretrievable, 12.1-document-empty-base   empty node-set
  16-output-conflict               last xsl:output value wins

===========================================================================
Ambiguities  (the Recommendation is silent, offers a choice or is read in two
ways; the choice made here is stated -- generators should stay away)
===========================================================================
 B1  Global variables are all evaluated before the first template, in
     declaration order, dependencies on demand.  A processor evaluating
     lazily would not report an error in (nor xsl:message from) an unused
     variable.  Circularity is detected when it happens (XSLTStaticError).
 B2  Order of nodes from DIFFERENT documents in one node-set is
     implementation-dependent (XPath 5); here documents are ordered by
     creation (source document, then document() loads and result tree
     fragments in the order they came into being).  Never iterate over / take
     the first node of a set that spans documents.
 B3  xsl:sort data-type="number": NaN keys sort before all numbers in
     ascending order (after them in descending); the Rec does not say.  Equal
     keys keep document order in both directions (stable).  Keys are converted
     to string first and only then to number, as the Rec says (so a boolean
     key is NaN).
 B4  xsl:sort data-type="text" uses code-point order; lang / case-order raise
     XSLTUnsupported.  Restrict keys to [a-z0-9] (and '') to be portable.
 B5  xsl:number
     - current node a root or namespace node: XSLTUnsupported (the default
       count "pattern" would match the root itself, which no pattern can say);
     - from: XSLTUnsupported if the current node itself matches `from`
       (ancestor vs ancestor-or-self reading) or if no node matches it
       (unrestricted vs empty);  otherwise single/multiple search the
       ancestors-or-self that are proper descendants of the NEAREST PROPER
       ancestor matching `from`; any counts the nodes AFTER the nearest
       node before the current node (ancestor or preceding) matching `from`,
       that node excluded;
     - level="any" counting no node: XSLTUnsupported ([0] by the letter, empty
       in XSLT 2.0);  level="any" on an attribute node: XSLTUnsupported;
     - empty list with a format that has prefix/suffix punctuation, a format
       made of punctuation only ("."), value < 1 / NaN / infinite, roman > 3999,
       any format token other than 1 01 001.. a A i I, zero padding combined
       with grouping, grouping-size not a positive integer, lang,
       letter-value: XSLTUnsupported;
     - grouping-separator and grouping-size are ignored unless both are given.
 B6  Attribute sets: several definitions of one name with EQUAL import
     precedence where one of them has use-attribute-sets: XSLTUnsupported
     (does an attribute obtained through use-attribute-sets count as
     "contained" for the 7.1.4 conflict rule?).  With DIFFERENT precedence the
     definitions are expanded in increasing precedence, each as
     [used sets..., own attributes], so an attribute reached through
     use-attribute-sets of a higher-precedence definition beats an own
     attribute of a lower one ("equivalent to adding xsl:attribute elements
     to the beginning of the content").  Reference to an undeclared attribute
     set: XSLTUnsupported.
 B7  Namespace aliasing: a namespace node (prefix P, stylesheet URI) becomes
     (P, result URI) -- the prefix of the stylesheet declaration is kept;
     exclusion (exclude-result-prefixes, XSLT namespace) is decided on the
     stylesheet URI before aliasing.  #default without a default namespace
     declaration in scope: XSLTUnsupported.  Only expanded names are portable.
 B8  ResultNode.namespaces holds exactly the namespace nodes the copying rules
     of 7.1.1 / 7.5 / 11.3 create (literal result elements, xsl:copy,
     xsl:copy-of); xsl:element / xsl:attribute add none and no fix-up is
     applied.  Serialization needs more declarations than these.
 B9  exsl:node-set / xalan:nodeset of a result tree fragment: the nodes get
     the namespace nodes of their parent, their own, and bindings for the
     names they use (as if serialized and re-parsed); name() of namespaced
     nodes there depends on prefix choice.  The converted tree is a different
     document than the fragment, the same one on every call.  node-set() of a
     string/number/boolean: XSLTUnsupported.
 B10 key() naming an undeclared key: XSLTUnsupported.  key() inside xsl:key
     use/match: XSLTUnsupported.
 B11 unparsed-entity-uri(): the system identifier resolved against the
     document URI (the Rec does not say how absolute the result is).
 B12 document(): a fragment identifier raises XSLTUnsupported.  Two
     references are the same document iff their absolute URIs (after RFC 3986
     resolution, no case/escape normalization) are equal; the source
     document's own URI yields the source document.
 B13 The effective value of a variable whose content is only whitespace is
     the empty STRING (the whitespace text node is stripped from the
     stylesheet first), not a result tree fragment.
 B14 Priority attribute: leading/trailing XML whitespace is tolerated.
 B15 xsl:message: the string-value of the instantiated content is appended to
     `messages`; nothing else is observable.
 B16 Copying a namespace node (xsl:copy / xsl:copy-of of namespace::*) after
     children were added or to a non-element: XSLTUnsupported (XSLT 1.0 has no
     rule).  Unbound prefix in a computed element/attribute name without a
     namespace attribute: XSLTDynamicError (not among the recoverable errors).
 B17 xsl:attribute name="xmlns" is rejected (recovery) even with a namespace
     attribute, as the sentence in 7.1.3 is unconditional.
 B18 generate-id(): 'id<doc>n<node>' -- only equality is meaningful.
 B19 A whitespace-only text node that xml:space="preserve" keeps in a place
     where the stylesheet grammar allows no text (inside xsl:choose,
     xsl:apply-templates, xsl:call-template, xsl:attribute-set, an empty
     instruction, in front of xsl:param / xsl:sort): XSLTUnsupported (an error
     by the letter, ignored by most processors).
 B20 Result tree fragments: a variable reference in a position that requires
     a node-set ('/', '//', '[]', '|', count() sum() name() local-name()
     namespace-uri(), arguments of the EXSLT set/math functions, select of
     xsl:for-each / xsl:apply-templates) is an XSLTDynamicError when the value
     is a fragment (11.1); the check is made when the reference is evaluated,
     a processor may make it earlier or not at all.  As the argument of
     document() / key() / id() a fragment counts as a string.
 Plus everything listed in vf.ref_xpath (A1..A15), in particular attribute /
 namespace node order within one element.

Unsupported (XSLTUnsupported at compile time)
---------------------------------------------
 version other than 1.0 / forwards-compatible mode, xsl:fallback, literal
 result element as stylesheet, embedded stylesheets, extension-element-prefixes
 and xsl:extension-element-prefixes / xsl:version on literal result elements,
 disable-output-escaping="yes", xsl:decimal-format, format-number(),
 system-property(), element-available(), function-available(), xsl:sort
 lang / case-order / data-type=QName, xsl:number lang / letter-value,
 documents with external entity references.
"""
import functools
import re
import unicodedata
from urllib.parse import urlsplit, urlunsplit, urldefrag

from . import model as _model
from . import ref_xpath as rx

XSL_NS = 'http://www.w3.org/1999/XSL/Transform'
XML_NS = _model.XML_NS
XMLNS_NS = _model.XMLNS_NS
NS_EXSL_COMMON = rx.NS_COMMON
NS_XALAN = rx.NS_XALAN
NS_XALAN_OLD = 'http://xml.apache.org/xslt'

sort_is_codepoint = True        # xsl:sort data-type="text" compares by Unicode code point

_GUARD_PFX = '#g'               # internal prefix (not an NCName: cannot clash)
_GUARD_URI = '#vf-internal'
_BASE_KEY = '#base'             # key in the per-expression namespace map: module base URI


def _remove_dots(path):
    out = []
    segs = path.split('/')
    for i, seg in enumerate(segs):
        last = i == len(segs) - 1
        if seg == '.':
            if last:
                out.append('')
        elif seg == '..':
            if len(out) > 1 or (out and out[0] != ''):
                out.pop()
            if last:
                out.append('')
        else:
            out.append(seg)
    return '/'.join(out)


def urljoin(base, ref):
    """RFC 3986 5.2 reference resolution, scheme-independent (urllib's urljoin
    refuses unknown schemes)."""
    if not base:
        return ref
    r = urlsplit(ref)
    if r.scheme:
        return ref
    if ref == '':
        return urldefrag(base)[0]
    b = urlsplit(base)
    if r.netloc:
        s = urlunsplit((b.scheme, r.netloc, _remove_dots(r.path), r.query, r.fragment))
    elif not r.path:
        s = urlunsplit((b.scheme, b.netloc, b.path, r.query or b.query, r.fragment))
    else:
        if r.path.startswith('/'):
            path = _remove_dots(r.path)
        else:
            if b.netloc and not b.path:
                path = '/' + r.path
            else:
                path = b.path[:b.path.rfind('/') + 1] + r.path
            path = _remove_dots(path)
        s = urlunsplit((b.scheme, b.netloc, path, r.query, r.fragment))
    pre = b.scheme + ':///'
    if b.scheme and not b.netloc:
        if base.startswith(pre) and not s.startswith(pre):
            s = b.scheme + '://' + s[len(b.scheme) + 1:]
        elif not base.startswith(pre) and s.startswith(pre):
            s = b.scheme + ':' + s[len(pre) - 1:]
    return s


class XSLTStaticError(Exception):
    """The stylesheet is in error per the Recommendation (detected at compile time,
    or a circular definition detected while evaluating)."""


class XSLTDynamicError(Exception):
    """A run-time error the Recommendation defines (incl. xsl:message terminate="yes")."""


class XSLTUnsupported(Exception):
    """Construct outside the supported subset, or a point where the Recommendation
    is ambiguous / implementation-defined: the caller must discard the case."""


# ---------------------------------------------------------------------------
# Result tree
# ---------------------------------------------------------------------------
class ResultNode(object):
    """kind: root | element | attribute | text | comment | pi | namespace

    element:   uri, local, prefix (a hint only), attributes (list of attribute
               ResultNodes, unique by expanded name), namespaces (dict
               prefix -> uri: the namespace nodes the Recommendation's copying
               rules put on this element; '' = default namespace; the xml
               namespace is never listed), children
    attribute: uri, local, prefix (hint), value
    text / comment: value;   pi: local (target), value
    namespace: local (prefix), value (uri)
    """
    __slots__ = ('kind', 'uri', 'local', 'prefix', 'value', 'children',
                 'attributes', 'namespaces', 'parent', 'base')

    def __init__(self, kind, uri='', local='', prefix='', value=None):
        self.kind = kind
        self.uri = uri
        self.local = local
        self.prefix = prefix
        self.value = value
        self.children = []
        self.attributes = []
        self.namespaces = {}
        self.parent = None
        self.base = None

    def attr_map(self):
        return dict(((a.uri, a.local), a.value) for a in self.attributes)

    def string_value(self):
        if self.kind in ('root', 'element'):
            parts = []
            stack = [self]
            while stack:
                n = stack.pop()
                if n.kind == 'text':
                    parts.append(n.value)
                elif n.children:
                    stack.extend(reversed(n.children))
            return ''.join(parts)
        return self.value

    def __repr__(self):
        return '<ResultNode %s {%s}%s>' % (self.kind, self.uri, self.local)


class ResultRoot(ResultNode):
    """Root of the main result tree.  Extra fields:
       output      effective xsl:output settings (see Stylesheet.output) plus
                   'effective-method' (the 16 default rule applied to this tree)
       recoveries  list of clause ids of recoverable errors that were recovered
       messages    the list xsl:message terminate="no" strings were appended to
    """
    __slots__ = ('output', 'recoveries', 'messages')

    def __init__(self):
        ResultNode.__init__(self, 'root')
        self.output = {}
        self.recoveries = []
        self.messages = []


def result_to_events(node):
    """Canonical nested-tuple form of a result (sub)tree:
         ('E', (uri, local), {(uri, local): value}, [children])
         ('T', s) | ('C', s) | ('P', target, data)
       Adjacent text is merged, empty text dropped.  For a root node the list of
       the children's forms is returned."""
    def conv_children(n):
        out = []
        for c in n.children:
            k = c.kind
            if k == 'text':
                if not c.value:
                    continue
                if out and out[-1][0] == 'T':
                    out[-1] = ('T', out[-1][1] + c.value)
                else:
                    out.append(('T', c.value))
            elif k == 'element':
                out.append(('E', (c.uri, c.local), c.attr_map(), conv_children(c)))
            elif k == 'comment':
                out.append(('C', c.value))
            elif k == 'pi':
                out.append(('P', c.local, c.value))
        return out
    if node.kind == 'root':
        return conv_children(node)
    if node.kind == 'element':
        return ('E', (node.uri, node.local), node.attr_map(), conv_children(node))
    if node.kind == 'text':
        return ('T', node.value)
    if node.kind == 'comment':
        return ('C', node.value)
    if node.kind == 'pi':
        return ('P', node.local, node.value)
    raise TypeError('no event form for a %s node' % node.kind)


dump = result_to_events


def model_to_events(node):
    """Same canonical form for a vf.model node (e.g. a parsed serialization)."""
    def conv_children(n):
        out = []
        for c in n.children:
            k = c.kind
            if k == 'text':
                if not c.value:
                    continue
                if out and out[-1][0] == 'T':
                    out[-1] = ('T', out[-1][1] + c.value)
                else:
                    out.append(('T', c.value))
            elif k == 'element':
                out.append(('E', (c.uri, c.local),
                            dict(((a.uri, a.local), a.value) for a in c.attributes),
                            conv_children(c)))
            elif k == 'comment':
                out.append(('C', c.value))
            elif k == 'pi':
                out.append(('P', c.local, c.value))
        return out
    if node.kind == 'root':
        return conv_children(node)
    return conv_children(node.parent)[node.parent.children.index(node)]


class _Builder(object):
    """Appends nodes to a result tree under construction (7.1 - 7.6)."""

    def __init__(self, root, st):
        self.root = root
        self.cur = root
        self.st = st

    # -- elements
    def start_element(self, uri, local, prefix, nsmap):
        e = ResultNode('element', uri, local, prefix)
        if nsmap:
            e.namespaces = dict(nsmap)
        e.parent = self.cur
        self.cur.children.append(e)
        self.cur = e
        return e

    def end_element(self):
        self.cur = self.cur.parent

    def attribute(self, uri, local, prefix, value):
        cur = self.cur
        if cur.kind != 'element':
            # 7.1.3: adding an attribute to a node that is not an element:
            # error; recovery = ignore the attribute
            self.st.recover('7.1.3-attribute-on-non-element')
            return
        if cur.children:
            # 7.1.3: adding an attribute after children: error; recovery = ignore
            self.st.recover('7.1.3-attribute-after-children')
            return
        for a in cur.attributes:
            if a.local == local and a.uri == uri:
                a.value = value
                a.prefix = prefix
                return
        a = ResultNode('attribute', uri, local, prefix, value)
        a.parent = cur
        cur.attributes.append(a)

    def namespace(self, prefix, uri):
        cur = self.cur
        if prefix == 'xml':
            return
        if cur.kind != 'element' or cur.children:
            raise XSLTUnsupported('namespace node copied to a non-element / after children '
                                  '(not defined by XSLT 1.0)')
        old = cur.namespaces.get(prefix)
        if old is not None and old != uri:
            raise XSLTUnsupported('conflicting namespace nodes copied to one element')
        cur.namespaces[prefix] = uri

    # -- leaves
    def text(self, s):
        if not s:
            return
        ch = self.cur.children
        if ch and ch[-1].kind == 'text':
            ch[-1].value += s          # adjacent text nodes are merged (7.2)
            return
        t = ResultNode('text', value=s)
        t.parent = self.cur
        ch.append(t)

    def comment(self, s):
        n = ResultNode('comment', value=s)
        n.parent = self.cur
        self.cur.children.append(n)

    def pi(self, target, data):
        n = ResultNode('pi', local=target, value=data)
        n.parent = self.cur
        self.cur.children.append(n)


class _TextCollector(object):
    """Builder used for the content of xsl:attribute / xsl:comment /
    xsl:processing-instruction: only text nodes count; creating any other node
    is an error whose recovery is to ignore the node (with its content)."""

    def __init__(self, st, clause):
        self.st = st
        self.clause = clause
        self.parts = []
        self.depth = 0

    def start_element(self, uri, local, prefix, nsmap):
        self.st.recover(self.clause)
        self.depth += 1

    def end_element(self):
        self.depth -= 1

    def attribute(self, uri, local, prefix, value):
        self.st.recover(self.clause)

    def namespace(self, prefix, uri):
        self.st.recover(self.clause)

    def text(self, s):
        if self.depth == 0:
            self.parts.append(s)

    def comment(self, s):
        self.st.recover(self.clause)

    def pi(self, target, data):
        self.st.recover(self.clause)

    def value(self):
        return ''.join(self.parts)


# ---------------------------------------------------------------------------
# lexical helpers
# ---------------------------------------------------------------------------
_WS = ' \t\r\n'
_WS_SPLIT = re.compile(r'[ \t\r\n]+')


def _is_ws(s):
    for c in s:
        if c not in _WS:
            return False
    return True


def _tokens(s):
    return [t for t in _WS_SPLIT.split(s) if t]


def _strip(s):
    return s.strip(_WS)


def _split_qname(q):
    """-> (prefix|None, local) or None if q is not a QName."""
    if q.count(':') > 1:
        return None
    if ':' in q:
        p, l = q.split(':')
        if rx.is_ncname(p) and rx.is_ncname(l):
            return p, l
        return None
    if rx.is_ncname(q):
        return None, q
    return None


def _expand_qname(q, nsmap, what, use_default=False):
    """QName in a stylesheet attribute -> (uri, local); static error otherwise."""
    r = _split_qname(_strip(q))
    if r is None:
        raise XSLTStaticError('%s: %r is not a QName' % (what, q))
    p, l = r
    if p is None:
        return (nsmap.get('', '') if use_default else ''), l
    if p == 'xml':
        return XML_NS, l
    if p not in nsmap:
        raise XSLTStaticError('%s: unbound prefix in %r' % (what, q))
    return nsmap[p], l


def _varkey(name):
    uri, local = name
    return local if not uri else '{' + uri + '}' + local


def _parse_avt(s, what):
    """-> list of str (fixed part) | ('expr', text).  7.6.2"""
    parts = []
    buf = []
    i, n = 0, len(s)
    while i < n:
        c = s[i]
        if c == '{':
            if s[i + 1:i + 2] == '{':
                buf.append('{')
                i += 2
                continue
            j = i + 1
            q = None
            while j < n:
                d = s[j]
                if q:
                    if d == q:
                        q = None
                elif d == '"' or d == "'":
                    q = d
                elif d == '}':
                    break
                elif d == '{':
                    raise XSLTStaticError("%s: '{' inside an attribute value template expression" % what)
                j += 1
            if j >= n:
                raise XSLTStaticError("%s: unterminated '{' in attribute value template %r" % (what, s))
            if buf:
                parts.append(''.join(buf))
                buf = []
            parts.append(('expr', s[i + 1:j]))
            i = j + 1
        elif c == '}':
            if s[i + 1:i + 2] == '}':
                buf.append('}')
                i += 2
                continue
            raise XSLTStaticError("%s: unmatched '}' in attribute value template %r" % (what, s))
        else:
            buf.append(c)
            i += 1
    if buf:
        parts.append(''.join(buf))
    return parts


# -- 7.7.1 number to string ---------------------------------------------------
def _is_alnum(c):
    return unicodedata.category(c) in ('Nd', 'Nl', 'No', 'Lu', 'Ll', 'Lt', 'Lm', 'Lo')


def _format_tokens(fmt):
    """-> (prefix, [(separator_before, token)], suffix) ; prefix/suffix may be ''."""
    toks = []
    i, n = 0, len(fmt)
    while i < n:
        a = _is_alnum(fmt[i])
        j = i + 1
        while j < n and _is_alnum(fmt[j]) == a:
            j += 1
        toks.append((a, fmt[i:j]))
        i = j
    return toks


def _alpha(n, base_char):
    out = []
    while n > 0:
        n -= 1
        out.append(chr(ord(base_char) + n % 26))
        n //= 26
    return ''.join(reversed(out))


_ROMAN = ((1000, 'm'), (900, 'cm'), (500, 'd'), (400, 'cd'), (100, 'c'), (90, 'xc'),
          (50, 'l'), (40, 'xl'), (10, 'x'), (9, 'ix'), (5, 'v'), (4, 'iv'), (1, 'i'))


def _roman(n):
    if n > 3999:
        raise XSLTUnsupported('roman numeral above 3999')
    out = []
    for v, s in _ROMAN:
        while n >= v:
            out.append(s)
            n -= v
    return ''.join(out)


def _format_one(n, token, gsep, gsize):
    if token == 'A':
        return _alpha(n, 'A')
    if token == 'a':
        return _alpha(n, 'a')
    if token == 'i':
        return _roman(n)
    if token == 'I':
        return _roman(n).upper()
    if token[-1] == '1' and token[:-1] == '0' * (len(token) - 1):
        s = str(n)
        if len(s) < len(token):
            s = '0' * (len(token) - len(s)) + s
        if gsep is not None:
            if len(token) > 1 and len(str(n)) < len(token):
                raise XSLTUnsupported('xsl:number: grouping combined with zero padding')
            groups = []
            while len(s) > gsize:
                groups.append(s[-gsize:])
                s = s[:-gsize]
            groups.append(s)
            s = gsep.join(reversed(groups))
        return s
    raise XSLTUnsupported('xsl:number format token %r (implementation-defined sequence)' % token)


def format_number_list(nums, fmt, gsep=None, gsize=None):
    """7.7.1: list of positive integers -> string."""
    toks = _format_tokens(fmt)
    prefix = suffix = ''
    if toks and not any(a for a, _ in toks):
        # a single non-alphanumeric token is "first" and "last" at once:
        # one copy or two?  The Rec does not say.
        raise XSLTUnsupported('xsl:number format without a format token but with punctuation')
    if toks and not toks[0][0]:
        prefix = toks[0][1]
        toks = toks[1:]
    if toks and not toks[-1][0]:
        suffix = toks[-1][1]
        toks = toks[:-1]
    ftoks = []          # (separator before, token)
    sep = None
    for a, t in toks:
        if a:
            ftoks.append((sep, t))
            sep = None
        else:
            sep = t
    if not ftoks:
        ftoks = [(None, '1')]
    if not nums:
        if prefix or suffix:
            raise XSLTUnsupported('xsl:number: empty list with prefix/suffix punctuation')
        return ''
    out = [prefix]
    for i, n in enumerate(nums):
        if n < 1:
            raise XSLTUnsupported('xsl:number: number below 1')
        if i < len(ftoks):
            s, t = ftoks[i]
        else:
            s, t = ftoks[-1]
        if i > 0:
            out.append(s if s is not None else '.')
        out.append(_format_one(n, t, gsep, gsize))
    out.append(suffix)
    return ''.join(out)


# ---------------------------------------------------------------------------
# Stylesheet tree access (3.4 whitespace stripping of the stylesheet)
# ---------------------------------------------------------------------------
def _space_preserved(el):
    """xml:space in effect for text children of stylesheet element el."""
    n = el
    while n is not None and n.kind == 'element':
        for a in n.attributes:
            if a.local == 'space' and a.uri == XML_NS:
                if a.value == 'preserve':
                    return True
                if a.value == 'default':
                    return False
        n = n.parent
    return False


def _content(el):
    """Children of a stylesheet element after stylesheet whitespace stripping;
    comments and processing instructions are ignored (they are not part of a
    template)."""
    keep_ws = None
    out = []
    for c in el.children:
        k = c.kind
        if k == 'element':
            out.append(c)
        elif k == 'text':
            if _is_ws(c.value):
                if keep_ws is None:
                    keep_ws = ((el.uri == XSL_NS and el.local == 'text')
                               or _space_preserved(el))
                if not keep_ws:
                    continue
            out.append(c)
    return out


def _nsmap(el):
    m = el._nsmap
    if m is None:
        m = dict((n.local, n.value) for n in el.namespaces)
    return m


def _where(el):
    return '<%s> (%s)' % (el.qname, el.key)


def _xsl_attrs(el, allowed, required=()):
    """Null-namespace attributes of an XSLT element as a dict; validates."""
    d = {}
    for a in el.attributes:
        if a.uri == '':
            if a.local not in allowed:
                raise XSLTStaticError('%s: attribute %r is not allowed' % (_where(el), a.local))
            d[a.local] = a.value
        elif a.uri == XSL_NS:
            raise XSLTStaticError('%s: attribute %s in the XSLT namespace on an XSLT element'
                                  % (_where(el), a.qname))
    for r in required:
        if r not in d:
            raise XSLTStaticError('%s: required attribute %r is missing' % (_where(el), r))
    return d


def _preserved_ws(el, what):
    # a whitespace-only text node kept by xml:space="preserve" where only
    # elements (or nothing) may appear: an error by the letter, ignored by
    # most processors
    raise XSLTUnsupported('%s: whitespace text preserved by xml:space inside %s' % (_where(el), what))


def _must_be_empty(el):
    for c in _content(el):
        if c.kind == 'text' and _is_ws(c.value):
            _preserved_ws(el, 'an empty element')
        raise XSLTStaticError('%s must be empty' % _where(el))


def _element_content(el):
    out = []
    for c in _content(el):
        if c.kind == 'text':
            if _is_ws(c.value):
                _preserved_ws(el, 'element-only content')
            raise XSLTStaticError('%s: text is not allowed here' % _where(el))
        out.append(c)
    return out


def _is_xsl(n, local=None):
    return n.kind == 'element' and n.uri == XSL_NS and (local is None or n.local == local)


# ---------------------------------------------------------------------------
# Compiled stylesheet
# ---------------------------------------------------------------------------
class _Merged(object):
    """One stylesheet level after xsl:include merging: import precedence `prec`;
    the stylesheets it imports (directly or indirectly) have precedences
    lo .. prec-1."""
    __slots__ = ('prec', 'lo')

    def __init__(self, prec, lo):
        self.prec = prec
        self.lo = lo


class _Decl(object):
    __slots__ = ('el', 'merged', 'base', 'order')

    def __init__(self, el, merged, base, order):
        self.el = el
        self.merged = merged
        self.base = base
        self.order = order


class Template(object):
    __slots__ = ('name', 'mode', 'params', 'body', 'merged', 'order', 'el')


class Rule(object):
    """One alternative of a match pattern (5.5: a union is a set of rules)."""
    __slots__ = ('pattern', 'priority', 'template', 'prec', 'order', 'kinds', 'local')


_CHILD_KINDS = frozenset(('element', 'text', 'comment', 'pi'))


def _prefilter(alt):
    """Sound necessary condition for a node to match a single-alternative
    pattern, read off its LAST step: -> (set of node kinds | None, local name |
    None).  Only an optimization: a node failing it cannot be selected by the
    last step whatever the context."""
    if alt[0] == 'path':
        if not alt[2]:
            return frozenset(('root',)), None
        st = alt[2][-1]
    elif alt[0] == 'fpath':
        st = alt[2][-1]
    else:
        return None, None
    axis, test = st[1], st[2]
    if axis == 'attribute':
        base = 'attribute'
    elif axis == 'child':
        base = 'element'
    else:
        return None, None
    t = test[0]
    if t == 'name':
        return frozenset((base,)), test[2]
    if t in ('any', 'nsany'):
        return frozenset((base,)), None
    if axis == 'attribute':
        # attribute::node() selects attributes, attribute::text() nothing
        return (frozenset(('attribute',)) if test == ('type', 'node') else frozenset()), None
    if t == 'pi':
        return frozenset(('pi',)), None
    if t == 'type':
        if test[1] == 'node':
            return _CHILD_KINDS, None
        return frozenset(({'text': 'text', 'comment': 'comment', 'processing-instruction': 'pi'}[test[1]],)), None
    return None, None


class Stylesheet(object):
    def __init__(self):
        self.uri = None
        self.rules = {}          # mode (expanded name | None) -> [Rule]
        self.named = {}          # expanded name -> Template
        self.globals = []        # [_Global] in declaration order (winners only)
        self.global_keys = set()
        self.keys = {}           # expanded name -> [_KeyDef]
        self.attrsets = {}       # expanded name -> [_AttrSetDef] by (prec, order)
        self.space_rules = []    # [(prec, priority, order, test, strip)]
        self.aliases = {}        # stylesheet uri -> result uri
        self.output = {}
        self.function_names = None
        self.sort_is_codepoint = True


class _Loader(object):
    """2.6: builds the import tree, merges includes, assigns import precedence."""

    def __init__(self, resolver):
        self.resolver = resolver
        self.counter = 0
        self.order = 0
        self.decls = []

    def fetch(self, href, base):
        href0 = href
        href, frag = urldefrag(href)
        if frag:
            raise XSLTUnsupported('fragment identifier in xsl:import/include href %r' % href0)
        absuri = urljoin(base or '', href)
        if self.resolver is None:
            raise XSLTStaticError('no resolver to load %r' % href)
        try:
            text = self.resolver(href, base)
        except (XSLTStaticError, XSLTUnsupported):
            raise
        except Exception as e:
            raise XSLTStaticError('cannot load stylesheet module %r: %s' % (href, e))
        if text is None:
            raise XSLTStaticError('cannot load stylesheet module %r' % href)
        return text, absuri

    def parse(self, text, uri):
        try:
            doc = _model.parse_document(text, uri)
        except _model.UnsupportedDocument as e:
            raise XSLTUnsupported('stylesheet module %s: %s' % (uri, e))
        except ValueError as e:
            raise XSLTStaticError('stylesheet module %s: %s' % (uri, e))
        top = [c for c in doc.root.children if c.kind == 'element'][0]
        if top.uri != XSL_NS:
            for a in top.attributes:
                if a.uri == XSL_NS and a.local == 'version':
                    raise XSLTUnsupported('literal result element as stylesheet (2.3)')
            raise XSLTStaticError('document element of %s is not xsl:stylesheet' % uri)
        if top.local not in ('stylesheet', 'transform'):
            raise XSLTStaticError('document element of %s is xsl:%s' % (uri, top.local))
        at = _xsl_attrs(top, ('id', 'extension-element-prefixes', 'exclude-result-prefixes',
                              'version'), ('version',))
        if _strip(at['version']) != '1.0':
            raise XSLTUnsupported('version=%r (forwards-compatible processing)' % at['version'])
        if 'extension-element-prefixes' in at:
            raise XSLTUnsupported('extension-element-prefixes')
        nsm = _nsmap(top)
        for t in _tokens(at.get('exclude-result-prefixes', '')):
            if (t == '#default' and '' not in nsm) or (t != '#default' and (t not in nsm or t == '')):
                raise XSLTStaticError('%s: exclude-result-prefixes: no namespace bound to %r' % (uri, t))
        return doc, top

    def load_level(self, text, uri, stack):
        imports = []
        decls = []
        self.collect(text, uri, stack, imports, decls)
        lo = self.counter
        for itext, iuri, istack in imports:
            self.load_level(itext, iuri, istack)
        merged = _Merged(self.counter, lo)
        self.counter += 1
        for el, base in decls:
            self.decls.append(_Decl(el, merged, base, self.order))
            self.order += 1
        return merged

    def collect(self, text, uri, stack, imports, decls):
        if uri in stack:
            raise XSLTStaticError('stylesheet %s includes/imports itself' % uri)
        stack = stack + [uri]
        doc, top = self.parse(text, uri)
        seen_other = False
        for c in top.children:
            if c.kind == 'text':
                if not _is_ws(c.value):
                    raise XSLTStaticError('text at the top level of %s' % uri)
                continue
            if c.kind != 'element':
                continue
            if c.uri == XSL_NS and c.local == 'import':
                if seen_other:
                    raise XSLTStaticError('xsl:import must precede all other top-level elements')
                at = _xsl_attrs(c, ('href',), ('href',))
                _must_be_empty(c)
                itext, iuri = self.fetch(at['href'], uri)
                if iuri in stack:
                    raise XSLTStaticError('stylesheet %s imports itself' % iuri)
                imports.append((itext, iuri, stack))
                continue
            seen_other = True
            if c.uri == XSL_NS and c.local == 'include':
                at = _xsl_attrs(c, ('href',), ('href',))
                _must_be_empty(c)
                itext, iuri = self.fetch(at['href'], uri)
                self.collect(itext, iuri, stack, imports, decls)
                continue
            if c.uri == '':
                raise XSLTStaticError('top-level element %s has a null namespace URI' % c.qname)
            if c.uri != XSL_NS:
                continue                      # user data element: ignored
            decls.append((c, uri))


# ---------------------------------------------------------------------------
# Expressions, patterns, attribute value templates
# ---------------------------------------------------------------------------
_UNSUPPORTED_FUNCTIONS = ('format-number', 'system-property', 'element-available',
                          'function-available')
_NODESET_ARG0 = ('count', 'sum', 'name', 'local-name', 'namespace-uri')


class _Scan(object):
    """Rewrites an AST so that a variable reference in a position that requires
    a node-set goes through the internal guard function (11.1: such an
    operation on a result tree fragment is an error), and collects the variable
    references and function names used."""

    def __init__(self, ns):
        self.ns = ns
        self.vars = []
        self.funcs = []

    def expr(self, e, nspos=False):
        t = e[0]
        if t == 'num' or t == 'lit':
            return e
        if t == 'var':
            self.vars.append((e[1], e[2]))
            if nspos:
                return ('fn', _GUARD_PFX, 'ns', (e,))
            return e
        if t == 'path':
            return ('path', e[1], tuple(self.step(s) for s in e[2]))
        if t == 'bin':
            return ('bin', e[1], self.expr(e[2]), self.expr(e[3]))
        if t == 'neg':
            return ('neg', self.expr(e[1]))
        if t == 'union':
            return ('union', self.expr(e[1], True), self.expr(e[2], True))
        if t == 'filter':
            return ('filter', self.expr(e[1], True), tuple(self.expr(p) for p in e[2]))
        if t == 'fpath':
            return ('fpath', self.expr(e[1], True), tuple(self.step(s) for s in e[2]))
        if t == 'fn':
            pfx, local, args = e[1], e[2], e[3]
            self.funcs.append((pfx, local))
            if pfx is None:
                if local in _NODESET_ARG0 and args:
                    return ('fn', pfx, local, (self.expr(args[0], True),) +
                            tuple(self.expr(a) for a in args[1:]))
                return ('fn', pfx, local, tuple(self.expr(a) for a in args))
            uri = XML_NS if pfx == 'xml' else self.ns.get(pfx)
            free = ((uri in (NS_EXSL_COMMON,) and local in ('node-set', 'object-type'))
                    or (uri in (NS_XALAN, NS_XALAN_OLD) and local == 'nodeset'))
            return ('fn', pfx, local, tuple(self.expr(a, not free) for a in args))
        if t == 'pattern':
            return ('pattern', tuple(self.expr(a) for a in e[1]))
        raise AssertionError(e)

    def step(self, s):
        return ('step', s[1], s[2], tuple(self.expr(p) for p in s[3]), s[4])


class _Expr(object):
    __slots__ = ('ast', 'ns', 'text')

    def __init__(self, ast, ns, text):
        self.ast = ast
        self.ns = ns
        self.text = text

    def eval(self, st, c):
        ctx = rx.Context(c.node, c.pos, c.size, c.vars, self.ns, st.functions, c.node)
        try:
            return rx._ev(self.ast, c.node, c.pos, c.size, ctx)
        except rx.XPathDynamicError as e:
            raise XSLTDynamicError('%s: %s' % (self.text, e))
        except rx.XPathUnspecified as e:
            raise XSLTUnsupported('%s: %s' % (self.text, e))

    def eval_at(self, st, node, pos, size, variables):
        ctx = rx.Context(node, pos, size, variables, self.ns, st.functions, node)
        try:
            return rx._ev(self.ast, node, pos, size, ctx)
        except rx.XPathDynamicError as e:
            raise XSLTDynamicError('%s: %s' % (self.text, e))
        except rx.XPathUnspecified as e:
            raise XSLTUnsupported('%s: %s' % (self.text, e))


class _Pattern(object):
    __slots__ = ('ast', 'ns', 'text')

    def __init__(self, ast, ns, text):
        self.ast = ast
        self.ns = ns
        self.text = text

    def matches(self, st, node, variables):
        """5.2, literally: some ancestor-or-self A of node exists such that
        evaluating the pattern as an expression with context A selects node."""
        ns, fns = self.ns, st.functions
        try:
            for alt in self.ast[1]:
                a = node
                while a is not None:
                    env = rx.Context(a, 1, 1, variables, ns, fns, a)
                    v = rx._ev(alt, a, 1, 1, env)
                    if not isinstance(v, list):
                        raise XSLTDynamicError('pattern %s is not a node-set' % self.text)
                    for x in v:
                        if x is node:
                            return True
                    a = a.parent
            return False
        except rx.XPathDynamicError as e:
            raise XSLTDynamicError('%s: %s' % (self.text, e))
        except rx.XPathUnspecified as e:
            raise XSLTUnsupported('%s: %s' % (self.text, e))


class _AVT(object):
    __slots__ = ('parts', 'const')

    def __init__(self, parts):
        self.parts = parts
        self.const = None
        if all(isinstance(p, str) for p in parts):
            self.const = ''.join(parts)

    def eval(self, st, c):
        if self.const is not None:
            return self.const
        out = []
        for p in self.parts:
            if isinstance(p, str):
                out.append(p)
            else:
                out.append(rx.to_string(p.eval(st, c)))
        return ''.join(out)


class _Env(dict):
    """Local variable bindings; names not bound locally are global variables,
    evaluated on first use (so that circular definitions are detected)."""
    __slots__ = ('g',)

    def __init__(self, g, src=None):
        if src:
            dict.__init__(self, src)
        else:
            dict.__init__(self)
        self.g = g

    def __missing__(self, k):
        return self.g.force(k)

    def child(self):
        return _Env(self.g, self)


class _Ctx(object):
    __slots__ = ('node', 'pos', 'size', 'vars', 'rule', 'mode')

    def __init__(self, node, pos, size, variables, rule, mode):
        self.node = node
        self.pos = pos
        self.size = size
        self.vars = variables
        self.rule = rule
        self.mode = mode


# ---------------------------------------------------------------------------
# Instructions (run-time side).  run(st, c, out): st = _State of the
# transformation, c = _Ctx (current node / list / variables / current template
# rule / mode), out = builder receiving the created nodes.
# ---------------------------------------------------------------------------
class _Body(object):
    __slots__ = ('ins', 'binds')

    def __init__(self, ins, binds):
        self.ins = ins
        self.binds = binds

    def run(self, st, c, out):
        if self.binds:
            c = _Ctx(c.node, c.pos, c.size, c.vars.child(), c.rule, c.mode)
        for i in self.ins:
            i.run(st, c, out)


_EMPTY_BODY = _Body([], False)


class _Text(object):
    __slots__ = ('value',)

    def __init__(self, value):
        self.value = value

    def run(self, st, c, out):
        out.text(self.value)


class _ValueOf(object):
    __slots__ = ('select',)

    def __init__(self, select):
        self.select = select

    def run(self, st, c, out):
        out.text(rx.to_string(self.select.eval(st, c)))


class _LRE(object):
    __slots__ = ('uri', 'local', 'prefix', 'nsmap', 'attrsets', 'attrs', 'body')

    def run(self, st, c, out):
        out.start_element(self.uri, self.local, self.prefix, self.nsmap)
        if self.attrsets:
            st.apply_attrsets(self.attrsets, c, out)
        for uri, local, prefix, avt in self.attrs:
            out.attribute(uri, local, prefix, avt.eval(st, c))
        self.body.run(st, c, out)
        out.end_element()


class _SkipInitialAttrs(object):
    """7.1.2 recovery: the content of an xsl:element whose name is not a QName
    is used "excluding any initial attribute nodes"."""

    def __init__(self, out):
        self.out = out
        self.skipping = True

    def start_element(self, *a):
        self.skipping = False
        return self.out.start_element(*a)

    def end_element(self):
        return self.out.end_element()

    def attribute(self, *a):
        if not self.skipping:
            self.out.attribute(*a)

    def namespace(self, *a):
        if not self.skipping:
            self.out.namespace(*a)

    def text(self, s):
        if s:
            self.skipping = False
        self.out.text(s)

    def comment(self, s):
        self.skipping = False
        self.out.comment(s)

    def pi(self, t, d):
        self.skipping = False
        self.out.pi(t, d)


class _Element(object):
    __slots__ = ('name', 'namespace', 'nsmap', 'attrsets', 'body')

    def run(self, st, c, out):
        name = self.name.eval(st, c)
        q = _split_qname(name)
        if q is None:
            st.recover('7.1.2-element-name-not-qname')
            self.body.run(st, c, _SkipInitialAttrs(out))
            return
        prefix, local = q
        if self.namespace is None:
            if prefix is None:
                uri = self.nsmap.get('', '')
            elif prefix == 'xml':
                uri = XML_NS
            elif prefix in self.nsmap:
                uri = self.nsmap[prefix]
            else:
                raise XSLTDynamicError('xsl:element name=%r: unbound prefix' % name)
        else:
            uri = self.namespace.eval(st, c)
        out.start_element(uri, local, prefix or '', None)
        if self.attrsets:
            st.apply_attrsets(self.attrsets, c, out)
        self.body.run(st, c, out)
        out.end_element()


class _Attribute(object):
    __slots__ = ('name', 'namespace', 'nsmap', 'body')

    def run(self, st, c, out):
        name = self.name.eval(st, c)
        q = _split_qname(name)
        if q is None or name == 'xmlns':
            st.recover('7.1.3-attribute-name-not-qname')
            return
        prefix, local = q
        if self.namespace is None:
            if prefix is None:
                uri = ''
            elif prefix == 'xml':
                uri = XML_NS
            elif prefix in self.nsmap:
                uri = self.nsmap[prefix]
            else:
                raise XSLTDynamicError('xsl:attribute name=%r: unbound prefix' % name)
        else:
            uri = self.namespace.eval(st, c)
        tc = _TextCollector(st, '7.1.3-non-text-in-attribute')
        self.body.run(st, c, tc)
        out.attribute(uri, local, prefix or '', tc.value())


class _Comment(object):
    __slots__ = ('body',)

    def run(self, st, c, out):
        tc = _TextCollector(st, '7.4-non-text-in-comment')
        self.body.run(st, c, tc)
        s = tc.value()
        if '--' in s or s.endswith('-'):
            st.recover('7.4-comment-dashes')
            while '--' in s:
                s = s.replace('--', '- -')
            if s.endswith('-'):
                s += ' '
        out.comment(s)


class _PI(object):
    __slots__ = ('name', 'body')

    def run(self, st, c, out):
        name = self.name.eval(st, c)
        if not rx.is_ncname(name) or name.lower() == 'xml':
            st.recover('7.3-pi-name')
            return
        tc = _TextCollector(st, '7.3-non-text-in-pi')
        self.body.run(st, c, tc)
        s = tc.value()
        if '?>' in s:
            st.recover('7.3-pi-close')
            s = s.replace('?>', '? >')
        out.pi(name, s)


def _node_nsmap(n):
    return dict((x.local, x.value) for x in n.namespaces if x.local != 'xml')


class _Copy(object):
    __slots__ = ('attrsets', 'body')

    def run(self, st, c, out):
        n = c.node
        k = n.kind
        if k == 'element':
            out.start_element(n.uri, n.local, n.prefix, _node_nsmap(n))
            if self.attrsets:
                st.apply_attrsets(self.attrsets, c, out)
            self.body.run(st, c, out)
            out.end_element()
        elif k == 'root':
            self.body.run(st, c, out)
        elif k == 'text':
            out.text(n.value)
        elif k == 'attribute':
            out.attribute(n.uri, n.local, n.prefix, n.value)
        elif k == 'comment':
            out.comment(n.value)
        elif k == 'pi':
            out.pi(n.local, n.value)
        elif k == 'namespace':
            out.namespace(n.local, n.value)


def _copy_model(n, out):
    k = n.kind
    if k == 'element':
        out.start_element(n.uri, n.local, n.prefix, _node_nsmap(n))
        for a in n.attributes:
            out.attribute(a.uri, a.local, a.prefix, a.value)
        for ch in n.children:
            _copy_model(ch, out)
        out.end_element()
    elif k == 'text':
        out.text(n.value)
    elif k == 'root':
        rr = getattr(n.doc, 'result_root', None)
        if rr is not None:
            for ch in rr.children:
                _copy_result(ch, out)
        else:
            for ch in n.children:
                _copy_model(ch, out)
    elif k == 'attribute':
        out.attribute(n.uri, n.local, n.prefix, n.value)
    elif k == 'comment':
        out.comment(n.value)
    elif k == 'pi':
        out.pi(n.local, n.value)
    elif k == 'namespace':
        out.namespace(n.local, n.value)


def _copy_result(n, out):
    k = n.kind
    if k == 'element':
        out.start_element(n.uri, n.local, n.prefix, n.namespaces)
        for a in n.attributes:
            out.attribute(a.uri, a.local, a.prefix, a.value)
        for ch in n.children:
            _copy_result(ch, out)
        out.end_element()
    elif k == 'text':
        out.text(n.value)
    elif k == 'comment':
        out.comment(n.value)
    elif k == 'pi':
        out.pi(n.local, n.value)


class _CopyOf(object):
    __slots__ = ('select',)

    def __init__(self, select):
        self.select = select

    def run(self, st, c, out):
        v = self.select.eval(st, c)
        if isinstance(v, list):
            for n in v:
                _copy_model(n, out)
        else:
            out.text(rx.to_string(v))


class _If(object):
    __slots__ = ('test', 'body')

    def run(self, st, c, out):
        if rx.to_boolean(self.test.eval(st, c)):
            self.body.run(st, c, out)


class _Choose(object):
    __slots__ = ('whens', 'otherwise')

    def run(self, st, c, out):
        for test, body in self.whens:
            if rx.to_boolean(test.eval(st, c)):
                body.run(st, c, out)
                return
        if self.otherwise is not None:
            self.otherwise.run(st, c, out)


class _Sort(object):
    __slots__ = ('select', 'order', 'datatype')


def _is_rtf_value(v):
    return (len(v) == 1 and v[0].kind == 'root' and getattr(v[0].doc, 'rtf', False))


def _select_nodes(st, c, select, what):
    v = select.eval(st, c)
    if not isinstance(v, list):
        raise XSLTDynamicError('%s select=%s is a %s, not a node-set' % (what, select.text, rx.type_name(v)))
    if _is_rtf_value(v):
        raise XSLTDynamicError('%s select=%s is a result tree fragment (11.1)' % (what, select.text))
    return v


def _cmp_text(a, b):
    return -1 if a < b else (1 if a > b else 0)       # code-point order


def _cmp_number(a, b):
    an, bn = a != a, b != b
    if an or bn:
        if an and bn:
            return 0
        return -1 if an else 1                        # NaN before every number
    return -1 if a < b else (1 if a > b else 0)


def _sort_nodes(st, c, nodes, sorts):
    """10: stable, multiple keys; the keys are evaluated with the node as
    current node and the UNSORTED list as current node list."""
    if not sorts:
        return nodes
    specs = []
    for s in sorts:
        order = s.order.eval(st, c) if s.order is not None else 'ascending'
        if order not in ('ascending', 'descending'):
            raise XSLTDynamicError('xsl:sort order=%r' % order)
        dt = s.datatype.eval(st, c) if s.datatype is not None else 'text'
        if dt not in ('text', 'number'):
            if _split_qname(dt) is not None and ':' in dt:
                raise XSLTUnsupported('xsl:sort data-type=%r' % dt)
            raise XSLTDynamicError('xsl:sort data-type=%r' % dt)
        specs.append((s.select, dt == 'number', order == 'descending'))
    n = len(nodes)
    rows = []
    for i, node in enumerate(nodes):
        ks = []
        for select, numeric, desc in specs:
            sv = rx.to_string(select.eval_at(st, node, i + 1, n, c.vars))
            ks.append(rx.string_to_number(sv) if numeric else sv)
        rows.append((ks, node))

    def cmp(r1, r2):
        k1, k2 = r1[0], r2[0]
        for j, (select, numeric, desc) in enumerate(specs):
            r = _cmp_number(k1[j], k2[j]) if numeric else _cmp_text(k1[j], k2[j])
            if r:
                return -r if desc else r
        return 0
    rows.sort(key=functools.cmp_to_key(cmp))          # list.sort is stable
    return [r[1] for r in rows]


class _ForEach(object):
    __slots__ = ('select', 'sorts', 'body')

    def run(self, st, c, out):
        nodes = _select_nodes(st, c, self.select, 'xsl:for-each')
        if self.sorts:
            nodes = _sort_nodes(st, c, nodes, self.sorts)
        size = len(nodes)
        body = self.body
        for i, n in enumerate(nodes):
            # 5.6: the current template rule becomes null inside xsl:for-each
            body.run(st, _Ctx(n, i + 1, size, c.vars, None, c.mode), out)


class _WithParam(object):
    __slots__ = ('key', 'value')


def _eval_with_params(st, c, wps):
    if not wps:
        return None
    d = {}
    for wp in wps:
        d[wp.key] = wp.value.get(st, c)
    return d


class _ApplyTemplates(object):
    __slots__ = ('select', 'mode', 'sorts', 'params')

    def run(self, st, c, out):
        if self.select is None:
            nodes = list(c.node.children)
        else:
            nodes = _select_nodes(st, c, self.select, 'xsl:apply-templates')
        if self.sorts:
            nodes = _sort_nodes(st, c, nodes, self.sorts)
        params = _eval_with_params(st, c, self.params)
        size = len(nodes)
        mode = self.mode
        for i, n in enumerate(nodes):
            st.apply_to(n, i + 1, size, mode, params, out)


class _ApplyImports(object):
    __slots__ = ()

    def run(self, st, c, out):
        if c.rule is None:
            raise XSLTDynamicError('xsl:apply-imports while the current template rule is null (5.6)')
        m = c.rule.template.merged
        rule = st.find_rule(c.node, c.mode, m.lo, m.prec)
        if rule is None:
            st.builtin(c.node, c.mode, out)
        else:
            st.run_template(rule.template, rule, c.node, c.pos, c.size, c.mode, None, out)


class _CallTemplate(object):
    __slots__ = ('name', 'params', 'template')

    def run(self, st, c, out):
        params = _eval_with_params(st, c, self.params)
        # 6: the current node, current node list and current template rule are unchanged
        st.run_template(self.template, c.rule, c.node, c.pos, c.size, c.mode, params, out)


class _Value(object):
    """select expression | template body (result tree fragment) | empty string."""
    __slots__ = ('select', 'body', 'base')

    def get(self, st, c):
        if self.select is not None:
            return self.select.eval(st, c)
        if self.body is None:
            return ''
        return st.make_rtf(self.body, c, self.base)


class _Variable(object):
    __slots__ = ('key', 'value')

    def run(self, st, c, out):
        c.vars[self.key] = self.value.get(st, c)


class _Message(object):
    __slots__ = ('terminate', 'body')

    def run(self, st, c, out):
        root = ResultNode('root')
        self.body.run(st, c, _Builder(root, st))
        st.messages.append(root.string_value())
        if self.terminate:
            raise XSLTDynamicError('xsl:message terminate="yes": %s' % root.string_value())


class _Number(object):
    __slots__ = ('level', 'count', 'frm', 'value', 'format', 'gsep', 'gsize')

    def _matches_count(self, st, c, n):
        if self.count is not None:
            return self.count.matches(st, n, c.vars)
        cur = c.node
        if n.kind != cur.kind:
            return False
        if cur.kind in ('element', 'attribute'):
            return n.local == cur.local and n.uri == cur.uri
        if cur.kind in ('pi', 'namespace'):
            return n.local == cur.local
        return True

    def _numbers(self, st, c):
        cur = c.node
        frm = self.frm
        level = self.level
        if cur.kind in ('root', 'namespace'):
            # read literally the default count pattern matches the root node
            # itself (giving 1); no pattern syntax can express that
            raise XSLTUnsupported('xsl:number with the root node / a namespace node as current node')
        if frm is not None and frm.matches(st, cur, c.vars):
            raise XSLTUnsupported('xsl:number: the current node matches the from pattern '
                                  '(ancestor / ancestor-or-self reading)')
        if level == 'any':
            if cur.kind in ('attribute', 'namespace'):
                raise XSLTUnsupported('xsl:number level="any" on an attribute/namespace node')
            before = []
            for n in cur.doc.nodes(False, False):
                if n.order > cur.order:
                    break
                before.append(n)
            if frm is not None:
                start = None
                for i in range(len(before) - 2, -1, -1):
                    if frm.matches(st, before[i], c.vars):
                        start = i
                        break
                if start is None:
                    raise XSLTUnsupported('xsl:number: no node matches the from pattern')
                before = before[start + 1:]
            cnt = 0
            for n in before:
                if self._matches_count(st, c, n):
                    cnt += 1
            if cnt == 0:
                raise XSLTUnsupported('xsl:number level="any" counting no node (0 or empty?)')
            return [cnt]
        anc = []                   # ancestor-or-self, nearest first
        n = cur
        while n is not None:
            anc.append(n)
            n = n.parent
        if frm is not None:
            cut = None
            for i in range(1, len(anc)):
                if frm.matches(st, anc[i], c.vars):
                    cut = i
                    break
            if cut is None:
                raise XSLTUnsupported('xsl:number: no ancestor matches the from pattern')
            anc = anc[:cut]
        if level == 'single':
            for a in anc:
                if self._matches_count(st, c, a):
                    return [self._sibling_number(st, c, a)]
            return []
        out = []
        for a in reversed(anc):    # document order
            if self._matches_count(st, c, a):
                out.append(self._sibling_number(st, c, a))
        return out

    def _sibling_number(self, st, c, a):
        k = 1
        if a.parent is not None and a.kind not in ('attribute', 'namespace'):
            for s in a.parent.children:
                if s is a:
                    break
                if self._matches_count(st, c, s):
                    k += 1
        return k

    def run(self, st, c, out):
        if self.value is not None:
            x = rx.to_number(self.value.eval(st, c))
            if x != x or x in (rx.INF, -rx.INF):
                raise XSLTUnsupported('xsl:number value is NaN/infinite')
            x = rx.xp_round(x)
            if x < 1:
                raise XSLTUnsupported('xsl:number value below 1')
            nums = [int(x)]
        else:
            nums = self._numbers(st, c)
        fmt = self.format.eval(st, c) if self.format is not None else '1'
        gsep = gsize = None
        if self.gsep is not None and self.gsize is not None:
            gsep = self.gsep.eval(st, c)
            gs = _strip(self.gsize.eval(st, c))
            if not re.match(r'^[0-9]+$', gs) or int(gs) < 1:
                raise XSLTUnsupported('xsl:number grouping-size=%r' % gs)
            gsize = int(gs)
            if len(gsep) != 1:
                raise XSLTUnsupported('xsl:number grouping-separator=%r' % gsep)
        out.text(format_number_list(nums, fmt, gsep, gsize))


# ---------------------------------------------------------------------------
# Compiler
# ---------------------------------------------------------------------------
class _Global(object):
    __slots__ = ('key', 'value', 'prec', 'order', 'is_param', 'el')


class _KeyDef(object):
    __slots__ = ('match', 'use')


class _AttrSetDef(object):
    __slots__ = ('uses', 'attrs', 'prec', 'order', 'const_names')


_XSLT_FUNCTION_ARITY = {
    ('', 'key'): (2, 2), ('', 'current'): (0, 0), ('', 'document'): (1, 2),
    ('', 'generate-id'): (0, 1), ('', 'unparsed-entity-uri'): (1, 1),
    (NS_EXSL_COMMON, 'node-set'): (1, 1), (NS_XALAN, 'nodeset'): (1, 1),
    (NS_XALAN_OLD, 'nodeset'): (1, 1), (NS_EXSL_COMMON, 'object-type'): (1, 1),
    (_GUARD_URI, 'ns'): (1, 1),
}


def _function_names():
    d = dict((k, True) for k in rx.extension_functions())
    for k in _XSLT_FUNCTION_ARITY:
        d[k] = True
    return d


_PRIORITY_RE = re.compile(r'^-?([0-9]+(\.[0-9]*)?|\.[0-9]+)$')
_OUTPUT_ATTRS = ('method', 'version', 'encoding', 'omit-xml-declaration', 'standalone',
                 'doctype-public', 'doctype-system', 'cdata-section-elements', 'indent',
                 'media-type')


_parse_cache = {}         # pure memo of (text, is_pattern) -> immutable AST


def _parse_cached(text, pattern):
    k = (text, pattern)
    r = _parse_cache.get(k)
    if r is None:
        r = rx.parse_pattern(text) if pattern else rx.parse(text)
        if len(_parse_cache) > 20000:
            _parse_cache.clear()
        _parse_cache[k] = r
    return r


class _Compiler(object):
    def __init__(self, decls, uri):
        self.decls = decls
        self.sheet = Stylesheet()
        self.sheet.uri = uri
        self.fnames = _function_names()
        self.sheet.function_names = self.fnames
        self.nscache = {}
        self.exclcache = {}
        self.base = uri
        self.calls = []              # _CallTemplate to link
        self.setrefs = []            # (names, el) attribute-set references to check

    # -- static context of an element ------------------------------------
    def ns_for(self, el):
        k = (id(el), self.base)
        d = self.nscache.get(k)
        if d is None:
            d = dict((p, u) for p, u in _nsmap(el).items() if p != '')
            d[_GUARD_PFX] = _GUARD_URI
            d[_BASE_KEY] = self.base
            self.nscache[k] = d
        return d

    def _check(self, scan, ast, ns, scope, text, el, pattern=False, allow_vars=True, keydef=False):
        for pfx, local in scan.funcs:
            if pfx is None:
                if local in _UNSUPPORTED_FUNCTIONS:
                    raise XSLTUnsupported('function %s()' % local)
                if local == 'current' and pattern:
                    raise XSLTStaticError('%s: current() in a pattern (12.4)' % _where(el))
                if local == 'key' and keydef:
                    raise XSLTUnsupported('key() inside xsl:key')
        if scan.vars and not allow_vars:
            raise XSLTStaticError('%s: variable reference in %r (5.3 / 12.2)' % (_where(el), text))
        sctx = rx.Context(None, 1, 1, {}, ns, self.fnames)
        try:
            rx.static_check(ast, sctx)
        except rx.XPathStaticError as e:
            raise XSLTStaticError('%s: %s: %s' % (_where(el), text, e))
        # arity of the XSLT / extension functions implemented here
        self._arity(ast, ns, el, text)
        for pfx, local in scan.vars:
            if pfx is None:
                key = local
            else:
                key = '{' + (XML_NS if pfx == 'xml' else ns[pfx]) + '}' + local
            if key not in scope and key not in self.sheet.global_keys:
                raise XSLTStaticError('%s: %s: variable $%s is not declared' % (_where(el), text, key))

    def _arity(self, e, ns, el, text):
        stack = [e]
        while stack:
            x = stack.pop()
            if not isinstance(x, tuple):
                continue
            if x and x[0] == 'fn':
                pfx, local, args = x[1], x[2], x[3]
                uri = '' if pfx is None else (XML_NS if pfx == 'xml' else ns.get(pfx))
                ar = _XSLT_FUNCTION_ARITY.get((uri, local))
                if ar is not None and not (pfx is None and local in rx.CORE_ARITY):
                    if not ar[0] <= len(args) <= ar[1]:
                        raise XSLTStaticError('%s: %s: wrong number of arguments for %s()'
                                              % (_where(el), text, local))
                stack.extend(args)
            elif x and x[0] in ('lit', 'num', 'name', 'nsany', 'any', 'type', 'pi'):
                continue
            else:
                stack.extend(y for y in x if isinstance(y, tuple))

    def expr(self, text, el, scope, keydef=False):
        ns = self.ns_for(el)
        try:
            ast = _parse_cached(text, False)
        except rx.XPathSyntaxError as e:
            raise XSLTStaticError('%s: expression %r: %s' % (_where(el), text, e))
        scan = _Scan(ns)
        ast = scan.expr(ast)
        self._check(scan, ast, ns, scope, text, el, allow_vars=not keydef, keydef=keydef)
        return _Expr(ast, ns, text)

    def pattern(self, text, el, scope, allow_vars, keydef=False):
        ns = self.ns_for(el)
        try:
            ast = _parse_cached(text, True)
        except rx.XPathSyntaxError as e:
            raise XSLTStaticError('%s: pattern %r: %s' % (_where(el), text, e))
        scan = _Scan(ns)
        ast = scan.expr(ast)
        self._check(scan, ast, ns, scope, text, el, pattern=True, allow_vars=allow_vars,
                    keydef=keydef)
        return _Pattern(ast, ns, text)

    def avt(self, text, el, scope):
        parts = []
        for p in _parse_avt(text, _where(el)):
            if isinstance(p, str):
                parts.append(p)
            else:
                parts.append(self.expr(p[1], el, scope))
        return _AVT(parts)

    def qname(self, text, el, what):
        return _expand_qname(text, _nsmap(el), '%s %s' % (_where(el), what))

    def qnames(self, text, el, what):
        return [self.qname(t, el, what) for t in _tokens(text)]

    def excluded(self, el):
        """URIs excluded by exclude-result-prefixes in effect at stylesheet element el."""
        k = id(el)
        r = self.exclcache.get(k)
        if r is not None:
            return r
        if el.parent is not None and el.parent.kind == 'element':
            r = set(self.excluded(el.parent))
        else:
            r = set()
        val = None
        if el.uri == XSL_NS:
            if el.local in ('stylesheet', 'transform'):
                for a in el.attributes:
                    if a.uri == '' and a.local == 'exclude-result-prefixes':
                        val = a.value
        else:
            for a in el.attributes:
                if a.uri == XSL_NS and a.local == 'exclude-result-prefixes':
                    val = a.value
        if val is not None:
            nsm = _nsmap(el)
            for t in _tokens(val):
                if t == '#default':
                    if '' not in nsm:
                        raise XSLTStaticError('%s: exclude-result-prefixes="#default" without a '
                                              'default namespace' % _where(el))
                    r.add(nsm[''])
                elif t in nsm:
                    r.add(nsm[t])
                else:
                    raise XSLTStaticError('%s: exclude-result-prefixes: unbound prefix %r'
                                          % (_where(el), t))
        self.exclcache[k] = r
        return r

    # -- top level ---------------------------------------------------------
    def build(self):
        sheet = self.sheet
        decls = sorted(self.decls, key=lambda d: (d.merged.prec, d.order))
        # pass 1: names of global variables, namespace aliases
        gseen = {}
        for d in decls:
            el = d.el
            if el.local in ('variable', 'param'):
                at = _xsl_attrs(el, ('name', 'select'), ('name',))
                key = _varkey(self.qname(at['name'], el, 'name'))
                if (key, d.merged.prec) in gseen:
                    raise XSLTStaticError('global variable $%s bound twice at one import precedence' % key)
                gseen[(key, d.merged.prec)] = True
                sheet.global_keys.add(key)
            elif el.local == 'namespace-alias':
                at = _xsl_attrs(el, ('stylesheet-prefix', 'result-prefix'),
                                ('stylesheet-prefix', 'result-prefix'))
                _must_be_empty(el)
                nsm = _nsmap(el)
                uris = []
                for which in ('stylesheet-prefix', 'result-prefix'):
                    p = _strip(at[which])
                    if p == '#default':
                        if '' not in nsm:
                            raise XSLTUnsupported('xsl:namespace-alias %s="#default" without a '
                                                  'default namespace declaration' % which)
                        uris.append(nsm[''])
                    elif p in nsm and p != '':
                        uris.append(nsm[p])
                    else:
                        raise XSLTStaticError('xsl:namespace-alias: unbound prefix %r' % p)
                sheet.aliases[uris[0]] = uris[1]     # increasing precedence/order: last wins
            elif el.local == 'decimal-format':
                raise XSLTUnsupported('xsl:decimal-format')
        # pass 2
        globals_by_key = {}
        tnames = {}
        out_prec = {}
        for d in decls:
            el = d.el
            self.base = d.base
            n = el.local
            if n == 'template':
                self.template(d)
            elif n in ('variable', 'param'):
                g = _Global()
                g.key, g.value = self.variable(el, frozenset(), top=True)
                g.prec, g.order, g.is_param, g.el = d.merged.prec, d.order, n == 'param', el
                globals_by_key[g.key] = g            # highest precedence comes last
            elif n == 'key':
                at = _xsl_attrs(el, ('name', 'match', 'use'), ('name', 'match', 'use'))
                _must_be_empty(el)
                kd = _KeyDef()
                kd.match = self.pattern(at['match'], el, frozenset(), False, keydef=True)
                kd.use = self.expr(at['use'], el, frozenset(), keydef=True)
                sheet.keys.setdefault(self.qname(at['name'], el, 'name'), []).append(kd)
            elif n == 'attribute-set':
                self.attribute_set(d)
            elif n in ('strip-space', 'preserve-space'):
                at = _xsl_attrs(el, ('elements',), ('elements',))
                _must_be_empty(el)
                nsm = _nsmap(el)
                for t in _tokens(at['elements']):
                    if t == '*':
                        test, prio = ('any',), -0.5
                    elif t.endswith(':*') and rx.is_ncname(t[:-2]):
                        p = t[:-2]
                        if p != 'xml' and p not in nsm:
                            raise XSLTStaticError('%s: unbound prefix %r' % (_where(el), p))
                        test, prio = ('ns', XML_NS if p == 'xml' else nsm[p]), -0.25
                    else:
                        # 3.4: a NameTest is expanded like an XPath name test:
                        # no prefix -> null namespace
                        test, prio = ('name',) + self.qname(t, el, 'elements'), 0.0
                    sheet.space_rules.append((d.merged.prec, prio, d.order, test,
                                              n == 'strip-space'))
            elif n == 'output':
                at = _xsl_attrs(el, _OUTPUT_ATTRS)
                _must_be_empty(el)
                for k, v in at.items():
                    if k == 'cdata-section-elements':
                        names = self.qnames_default(v, el)
                        sheet.output.setdefault(k, [])
                        for nm in names:
                            if nm not in sheet.output[k]:
                                sheet.output[k].append(nm)
                        continue
                    if k == 'method':
                        v = _strip(v)
                        if v not in ('xml', 'html', 'text'):
                            q = _split_qname(v)
                            if q is None or q[0] is None:
                                raise XSLTStaticError('xsl:output method=%r' % v)
                            v = '{%s}%s' % self.qname(v, el, 'method')
                    if k in ('indent', 'omit-xml-declaration', 'standalone'):
                        v = _strip(v)
                        if v not in ('yes', 'no'):
                            raise XSLTStaticError('xsl:output %s=%r' % (k, v))
                    if k in sheet.output and out_prec[k] == d.merged.prec and sheet.output[k] != v:
                        sheet.output.setdefault('#conflicts', []).append(k)
                    sheet.output[k] = v              # increasing precedence/order: last wins
                    out_prec[k] = d.merged.prec
            elif n in ('namespace-alias',):
                pass
            elif n in ('import', 'include'):
                raise AssertionError
            else:
                raise XSLTStaticError('xsl:%s is not allowed at the top level' % n)
        sheet.globals = sorted(globals_by_key.values(), key=lambda g: (g.prec, g.order))
        sheet.space_rules.sort(key=lambda r: (r[0], r[1], r[2]))
        self.link()
        return sheet

    def qnames_default(self, text, el):
        # cdata-section-elements: element names, expanded with the default namespace
        nsm = _nsmap(el)
        return [_expand_qname(t, nsm, 'cdata-section-elements', use_default=True)
                for t in _tokens(text)]

    def template(self, d):
        el = d.el
        sheet = self.sheet
        at = _xsl_attrs(el, ('match', 'name', 'priority', 'mode'))
        if 'match' not in at and 'name' not in at:
            raise XSLTStaticError('%s: neither match nor name' % _where(el))
        if 'mode' in at and 'match' not in at:
            raise XSLTStaticError('%s: mode without match' % _where(el))
        t = Template()
        t.el = el
        t.merged = d.merged
        t.order = d.order
        t.name = self.qname(at['name'], el, 'name') if 'name' in at else None
        t.mode = self.qname(at['mode'], el, 'mode') if 'mode' in at else None
        prio = None
        if 'priority' in at:
            ps = _strip(at['priority'])
            if not _PRIORITY_RE.match(ps):
                raise XSLTStaticError('%s: priority=%r is not a number' % (_where(el), at['priority']))
            prio = float(ps)
        content = _content(el)
        self._leading_ws(el, content, 'param')
        scope = frozenset()
        t.params = []
        i = 0
        while i < len(content) and _is_xsl(content[i], 'param'):
            key, val = self.variable(content[i], scope)
            if key in scope:
                raise XSLTStaticError('%s: parameter $%s bound twice' % (_where(el), key))
            scope = scope | frozenset((key,))
            v = _Variable()
            v.key, v.value = key, val
            t.params.append(v)
            i += 1
        t.body = self.body(content[i:], scope)
        if t.name is not None:
            old = sheet.named.get(t.name)
            if old is not None and old.merged.prec == d.merged.prec:
                raise XSLTStaticError('two templates named {%s}%s at one import precedence' % t.name)
            sheet.named[t.name] = t                  # increasing precedence: last wins
        if 'match' in at:
            pat = self.pattern(at['match'], el, frozenset(), False)
            for alt, defprio in rx.pattern_alternatives(pat.ast):
                r = Rule()
                r.pattern = _Pattern(alt, pat.ns, at['match'])
                r.priority = prio if prio is not None else defprio
                r.template = t
                r.prec = d.merged.prec
                r.order = d.order
                r.kinds, r.local = _prefilter(alt[1][0])
                sheet.rules.setdefault(t.mode, []).append(r)

    def _leading_ws(self, el, content, local):
        seen_ws = False
        for c in content:
            if c.kind == 'text' and _is_ws(c.value):
                seen_ws = True
            elif _is_xsl(c, local):
                if seen_ws:
                    _preserved_ws(el, 'front of xsl:%s' % local)
            else:
                break

    def variable(self, el, scope, top=False):
        """xsl:variable / xsl:param / xsl:with-param -> (key, _Value)"""
        at = _xsl_attrs(el, ('name', 'select'), ('name',))
        key = _varkey(self.qname(at['name'], el, 'name'))
        content = _content(el)
        v = _Value()
        v.select = v.body = None
        v.base = self.base
        if 'select' in at:
            if content:
                raise XSLTStaticError('%s: both select and content' % _where(el))
            v.select = self.expr(at['select'], el, scope)
        elif content:
            v.body = self.body(content, scope)
        return key, v

    def attribute_set(self, d):
        el = d.el
        at = _xsl_attrs(el, ('name', 'use-attribute-sets'), ('name',))
        name = self.qname(at['name'], el, 'name')
        a = _AttrSetDef()
        a.uses = self.qnames(at.get('use-attribute-sets', ''), el, 'use-attribute-sets')
        self.setrefs.append((a.uses, el))
        a.attrs = []
        a.const_names = set()
        a.prec, a.order = d.merged.prec, d.order
        for c in _element_content(el):
            if not _is_xsl(c, 'attribute'):
                raise XSLTStaticError('%s: only xsl:attribute is allowed' % _where(el))
            ins = self.i_attribute(c, frozenset())
            a.attrs.append(ins)
            if ins.name.const is not None and (ins.namespace is None or ins.namespace.const is not None):
                a.const_names.add((ins.name.const, None if ins.namespace is None else ins.namespace.const))
        self.sheet.attrsets.setdefault(name, []).append(a)

    def link(self):
        sheet = self.sheet
        for call, el in self.calls:
            t = sheet.named.get(call.name)
            if t is None:
                raise XSLTStaticError('%s: no template named {%s}%s' % ((_where(el),) + call.name))
            call.template = t
        for names, el in self.setrefs:
            for nm in names:
                if nm not in sheet.attrsets:
                    raise XSLTUnsupported('%s: reference to undeclared attribute set {%s}%s '
                                          '(XSLT 1.0 does not say)' % ((_where(el),) + nm))
        # 7.1.4 circular use-attribute-sets
        state = {}

        def visit(nm):
            s = state.get(nm)
            if s == 1:
                raise XSLTStaticError('attribute set {%s}%s uses itself' % nm)
            if s == 2:
                return
            state[nm] = 1
            for dfn in sheet.attrsets[nm]:
                for u in dfn.uses:
                    visit(u)
            state[nm] = 2
        for nm in sheet.attrsets:
            visit(nm)
        for nm, defs in sheet.attrsets.items():
            defs.sort(key=lambda a: (a.prec, a.order))

    # -- templates (sequence constructors) ------------------------------------
    def body(self, nodes, scope):
        ins = []
        binds = False
        for n in nodes:
            if n.kind == 'text':
                ins.append(_Text(n.value))
                continue
            if n.uri == XSL_NS:
                if n.local == 'variable':
                    key, val = self.variable(n, scope)
                    if key in scope:
                        raise XSLTStaticError('%s: $%s shadows another local binding (11.5)'
                                              % (_where(n), key))
                    scope = scope | frozenset((key,))
                    v = _Variable()
                    v.key, v.value = key, val
                    ins.append(v)
                    binds = True
                    continue
                f = None
                if '_' not in n.local:
                    f = getattr(self, 'i_' + n.local.replace('-', '_'), None)
                if f is None:
                    if n.local == 'fallback':
                        raise XSLTUnsupported('xsl:fallback')
                    raise XSLTStaticError('%s is not allowed in a template' % _where(n))
                ins.append(f(n, scope))
            else:
                ins.append(self.lre(n, scope))
        return _Body(ins, binds)

    def lre(self, el, scope):
        sheet = self.sheet
        aliases = sheet.aliases
        ins = _LRE()
        ins.uri = aliases.get(el.uri, el.uri) if el.uri else ''
        ins.local = el.local
        ins.prefix = el.prefix
        excl = self.excluded(el)
        nsmap = {}
        for p, u in _nsmap(el).items():
            if p == 'xml' or u == XSL_NS or u in excl:
                continue
            nsmap[p] = aliases.get(u, u)
        ins.nsmap = nsmap
        ins.attrsets = None
        ins.attrs = []
        for a in el.attributes:
            if a.uri == XSL_NS:
                if a.local == 'use-attribute-sets':
                    ins.attrsets = self.qnames(a.value, el, 'xsl:use-attribute-sets')
                    self.setrefs.append((ins.attrsets, el))
                elif a.local == 'exclude-result-prefixes':
                    pass
                else:
                    raise XSLTUnsupported('%s: attribute %s' % (_where(el), a.qname))
            else:
                uri = aliases.get(a.uri, a.uri) if a.uri else ''
                ins.attrs.append((uri, a.local, a.prefix, self.avt(a.value, el, scope)))
        ins.body = self.body(_content(el), scope)
        return ins

    def _sets(self, at, el):
        if 'use-attribute-sets' not in at:
            return None
        names = self.qnames(at['use-attribute-sets'], el, 'use-attribute-sets')
        self.setrefs.append((names, el))
        return names

    def i_text(self, el, scope):
        at = _xsl_attrs(el, ('disable-output-escaping',))
        self._doe(at, el)
        s = []
        for c in el.children:
            if c.kind == 'element':
                raise XSLTStaticError('%s: element inside xsl:text' % _where(el))
            if c.kind == 'text':
                s.append(c.value)
        return _Text(''.join(s))

    def _doe(self, at, el):
        v = at.get('disable-output-escaping')
        if v is None:
            return
        v = _strip(v)
        if v == 'yes':
            raise XSLTUnsupported('disable-output-escaping="yes"')
        if v != 'no':
            raise XSLTStaticError('%s: disable-output-escaping=%r' % (_where(el), v))

    def i_value_of(self, el, scope):
        at = _xsl_attrs(el, ('select', 'disable-output-escaping'), ('select',))
        self._doe(at, el)
        _must_be_empty(el)
        return _ValueOf(self.expr(at['select'], el, scope))

    def i_copy_of(self, el, scope):
        at = _xsl_attrs(el, ('select',), ('select',))
        _must_be_empty(el)
        return _CopyOf(self.expr(at['select'], el, scope))

    def i_copy(self, el, scope):
        at = _xsl_attrs(el, ('use-attribute-sets',))
        ins = _Copy()
        ins.attrsets = self._sets(at, el)
        ins.body = self.body(_content(el), scope)
        return ins

    def i_element(self, el, scope):
        at = _xsl_attrs(el, ('name', 'namespace', 'use-attribute-sets'), ('name',))
        ins = _Element()
        ins.name = self.avt(at['name'], el, scope)
        ins.namespace = self.avt(at['namespace'], el, scope) if 'namespace' in at else None
        ins.nsmap = _nsmap(el)
        ins.attrsets = self._sets(at, el)
        ins.body = self.body(_content(el), scope)
        return ins

    def i_attribute(self, el, scope):
        at = _xsl_attrs(el, ('name', 'namespace'), ('name',))
        ins = _Attribute()
        ins.name = self.avt(at['name'], el, scope)
        ins.namespace = self.avt(at['namespace'], el, scope) if 'namespace' in at else None
        ins.nsmap = _nsmap(el)
        ins.body = self.body(_content(el), scope)
        return ins

    def i_comment(self, el, scope):
        _xsl_attrs(el, ())
        ins = _Comment()
        ins.body = self.body(_content(el), scope)
        return ins

    def i_processing_instruction(self, el, scope):
        at = _xsl_attrs(el, ('name',), ('name',))
        ins = _PI()
        ins.name = self.avt(at['name'], el, scope)
        ins.body = self.body(_content(el), scope)
        return ins

    def i_if(self, el, scope):
        at = _xsl_attrs(el, ('test',), ('test',))
        ins = _If()
        ins.test = self.expr(at['test'], el, scope)
        ins.body = self.body(_content(el), scope)
        return ins

    def i_choose(self, el, scope):
        _xsl_attrs(el, ())
        ins = _Choose()
        ins.whens = []
        ins.otherwise = None
        for c in _element_content(el):
            if _is_xsl(c, 'when') and ins.otherwise is None:
                at = _xsl_attrs(c, ('test',), ('test',))
                ins.whens.append((self.expr(at['test'], c, scope), self.body(_content(c), scope)))
            elif _is_xsl(c, 'otherwise') and ins.otherwise is None and ins.whens:
                _xsl_attrs(c, ())
                ins.otherwise = self.body(_content(c), scope)
            else:
                raise XSLTStaticError('%s: bad content of xsl:choose' % _where(el))
        if not ins.whens:
            raise XSLTStaticError('%s: xsl:choose without xsl:when' % _where(el))
        return ins

    def sort(self, el, scope):
        at = _xsl_attrs(el, ('select', 'lang', 'data-type', 'order', 'case-order'))
        _must_be_empty(el)
        if 'lang' in at:
            raise XSLTUnsupported('xsl:sort lang')
        if 'case-order' in at:
            raise XSLTUnsupported('xsl:sort case-order')
        s = _Sort()
        s.select = self.expr(at.get('select', '.'), el, scope)
        s.order = self.avt(at['order'], el, scope) if 'order' in at else None
        s.datatype = self.avt(at['data-type'], el, scope) if 'data-type' in at else None
        return s

    def with_params(self, els, scope, owner):
        out = []
        seen = set()
        for c in els:
            key, val = self.variable(c, scope)
            if key in seen:
                raise XSLTStaticError('%s: two xsl:with-param named %s' % (_where(owner), key))
            seen.add(key)
            wp = _WithParam()
            wp.key, wp.value = key, val
            out.append(wp)
        return out

    def i_for_each(self, el, scope):
        at = _xsl_attrs(el, ('select',), ('select',))
        ins = _ForEach()
        ins.select = self.expr(at['select'], el, scope)
        content = _content(el)
        self._leading_ws(el, content, 'sort')
        i = 0
        ins.sorts = []
        while i < len(content) and _is_xsl(content[i], 'sort'):
            ins.sorts.append(self.sort(content[i], scope))
            i += 1
        ins.body = self.body(content[i:], scope)
        return ins

    def i_apply_templates(self, el, scope):
        at = _xsl_attrs(el, ('select', 'mode'))
        ins = _ApplyTemplates()
        ins.select = self.expr(at['select'], el, scope) if 'select' in at else None
        ins.mode = self.qname(at['mode'], el, 'mode') if 'mode' in at else None
        ins.sorts = []
        wps = []
        for c in _element_content(el):
            if _is_xsl(c, 'sort'):
                ins.sorts.append(self.sort(c, scope))
            elif _is_xsl(c, 'with-param'):
                wps.append(c)
            else:
                raise XSLTStaticError('%s: bad content of xsl:apply-templates' % _where(el))
        ins.params = self.with_params(wps, scope, el)
        return ins

    def i_apply_imports(self, el, scope):
        _xsl_attrs(el, ())
        _must_be_empty(el)
        return _ApplyImports()

    def i_call_template(self, el, scope):
        at = _xsl_attrs(el, ('name',), ('name',))
        ins = _CallTemplate()
        ins.name = self.qname(at['name'], el, 'name')
        ins.template = None
        wps = []
        for c in _element_content(el):
            if _is_xsl(c, 'with-param'):
                wps.append(c)
            else:
                raise XSLTStaticError('%s: bad content of xsl:call-template' % _where(el))
        ins.params = self.with_params(wps, scope, el)
        self.calls.append((ins, el))
        return ins

    def i_message(self, el, scope):
        at = _xsl_attrs(el, ('terminate',))
        t = _strip(at.get('terminate', 'no'))
        if t not in ('yes', 'no'):
            raise XSLTStaticError('%s: terminate=%r' % (_where(el), t))
        ins = _Message()
        ins.terminate = t == 'yes'
        ins.body = self.body(_content(el), scope)
        return ins

    def i_number(self, el, scope):
        at = _xsl_attrs(el, ('level', 'count', 'from', 'value', 'format', 'lang', 'letter-value',
                             'grouping-separator', 'grouping-size'))
        _must_be_empty(el)
        if 'lang' in at or 'letter-value' in at:
            raise XSLTUnsupported('xsl:number lang / letter-value')
        ins = _Number()
        ins.level = _strip(at.get('level', 'single'))
        if ins.level not in ('single', 'multiple', 'any'):
            raise XSLTStaticError('%s: level=%r' % (_where(el), ins.level))
        ins.count = self.pattern(at['count'], el, scope, True) if 'count' in at else None
        ins.frm = self.pattern(at['from'], el, scope, True) if 'from' in at else None
        ins.value = self.expr(at['value'], el, scope) if 'value' in at else None
        ins.format = self.avt(at['format'], el, scope) if 'format' in at else None
        ins.gsep = self.avt(at['grouping-separator'], el, scope) if 'grouping-separator' in at else None
        ins.gsize = self.avt(at['grouping-size'], el, scope) if 'grouping-size' in at else None
        return ins


def compile_stylesheet(text, uri=None, resolver=None):
    """Compile a stylesheet (str or bytes).  resolver(href, base_uri) -> text is
    used for xsl:import / xsl:include (href as written, base_uri = URI of the
    module containing the element)."""
    ld = _Loader(resolver)
    ld.load_level(text, uri, [])
    return _Compiler(ld.decls, uri).build()


# ---------------------------------------------------------------------------
# Source-tree whitespace stripping (3.4) and result tree -> data model
# ---------------------------------------------------------------------------
def _clone_document(doc, drop):
    """Copy of a vf.model Document without the text nodes in `drop` (a set)."""
    new = _model.Document(doc.uri)
    new.unparsed_entities = dict(doc.unparsed_entities)
    mapping = {}

    def clone(n, parent):
        m = _model.Node(n.kind, new, parent)
        m.uri, m.local, m.prefix, m.qname, m.value = n.uri, n.local, n.prefix, n.qname, n.value
        m.nsdecls = n.nsdecls
        m._nsmap = n._nsmap
        mapping[n] = m
        for x in n.namespaces:
            y = _model.Node('namespace', new, m)
            y.local, y.qname, y.value = x.local, x.qname, x.value
            m.namespaces.append(y)
        for x in n.attributes:
            y = _model.Node('attribute', new, m)
            y.uri, y.local, y.prefix, y.qname, y.value = x.uri, x.local, x.prefix, x.qname, x.value
            m.attributes.append(y)
        for ch in n.children:
            if ch.kind == 'text' and ch in drop:
                continue
            m.children.append(clone(ch, m))
        return m
    root = clone(doc.root, None)
    new.root = root
    for k, el in doc.ids.items():
        new.ids[k] = mapping[el]
    _model._finalize(new)
    return new


def _result_to_model(root, uri):
    """Result tree fragment -> vf.model Document (so that ref_xpath can work
    on it).  Namespace nodes: an element gets its parent's namespace nodes,
    its own, and bindings for the names it and its attributes use (as if the
    fragment had been serialized with namespace fix-up and parsed)."""
    doc = _model.Document(uri)
    counter = [0]

    def bind(nsm, prefix, uri_, attr):
        """choose a prefix for uri_ in nsm (modifying nsm); -> prefix"""
        if not uri_:
            if not attr and '' in nsm:
                del nsm['']
            return ''
        if uri_ == XML_NS:
            return 'xml'
        if prefix is not None and prefix != 'xml' and (prefix or not attr):
            if nsm.get(prefix) == uri_:
                return prefix
            if prefix not in nsm:
                nsm[prefix] = uri_
                return prefix
        for p, u in nsm.items():
            if u == uri_ and (p or not attr):
                return p
        while True:
            p = 'ns%d' % counter[0]
            counter[0] += 1
            if p not in nsm:
                nsm[p] = uri_
                return p

    def conv(r, parent, pmap):
        k = r.kind
        m = _model.Node(k, doc, parent)
        if k == 'element':
            nsm = dict(pmap)
            nsm.update(r.namespaces)
            # the element's own name first: an unprefixed hint claims the default namespace
            if r.uri and (r.prefix or '') == '' and nsm.get('', r.uri) != r.uri:
                nsm[''] = r.uri
            p = bind(nsm, r.prefix or '', r.uri, False)
            m.uri, m.local, m.prefix = r.uri, r.local, p
            m.qname = (p + ':' + r.local) if p else r.local
            for a in r.attributes:
                ap = bind(nsm, a.prefix or None, a.uri, True)
                y = _model.Node('attribute', doc, m)
                y.uri, y.local, y.prefix, y.value = a.uri, a.local, ap, a.value
                y.qname = (ap + ':' + a.local) if ap else a.local
                m.attributes.append(y)
            m._nsmap = nsm
            for pfx, u in [('xml', XML_NS)] + sorted(nsm.items()):
                y = _model.Node('namespace', doc, m)
                y.local = y.qname = pfx
                y.value = u
                m.namespaces.append(y)
            for ch in r.children:
                m.children.append(conv(ch, m, nsm))
        elif k == 'text' or k == 'comment':
            m.value = r.value
        elif k == 'pi':
            m.local = m.qname = r.local
            m.value = r.value
        return m
    rootm = doc.root
    rootm._nsmap = {}
    for ch in root.children:
        rootm.children.append(conv(ch, rootm, {}))
    _model._finalize(doc)
    return doc


# ---------------------------------------------------------------------------
# Transformation state
# ---------------------------------------------------------------------------
class _Globals(object):
    def __init__(self, st):
        self.st = st
        self.values = {}
        self.defs = dict((g.key, g) for g in st.sheet.globals)
        self.active = []

    def force(self, key):
        v = self.values.get(key, self)
        if v is not self:
            return v
        g = self.defs.get(key)
        if g is None:
            raise KeyError(key)
        if key in self.active:
            raise XSLTStaticError('circular definition of global variable $%s (11.4)' % key)
        st = self.st
        if g.is_param and key in st.params:
            v = st.params[key]
            if isinstance(v, bool) or isinstance(v, str):
                pass
            elif isinstance(v, (int, float)):
                v = float(v)
            else:
                raise TypeError('parameter %s: unsupported value %r' % (key, v))
        else:
            self.active.append(key)
            try:
                # 11.4: current node = root of the source document, list of one
                c = _Ctx(st.source.root, 1, 1, _Env(self), None, None)
                v = g.value.get(st, c)
            finally:
                self.active.pop()
        self.values[key] = v
        return v


class _State(object):
    def __init__(self, sheet, source, params, resolver, messages, result):
        self.sheet = sheet
        self.params = params or {}
        self.resolver = resolver
        self.messages = messages
        self.result = result
        self.docs = {}               # absolute URI -> Document (None: unretrievable)
        self.docseq = {}             # Document -> small number (generate-id)
        self.keytabs = {}            # (docnum, key name) -> {value: [nodes]}
        self.match_cache = {}
        self.space_cache = {}
        self.functions = dict(rx.extension_functions())
        self.functions.update({
            ('', 'key'): self.f_key, ('', 'current'): self.f_current,
            ('', 'document'): self.f_document, ('', 'generate-id'): self.f_generate_id,
            ('', 'unparsed-entity-uri'): self.f_unparsed_entity_uri,
            (NS_EXSL_COMMON, 'node-set'): self.f_nodeset, (NS_XALAN, 'nodeset'): self.f_nodeset,
            (NS_XALAN_OLD, 'nodeset'): self.f_nodeset,
            (NS_EXSL_COMMON, 'object-type'): self.f_object_type,
            (_GUARD_URI, 'ns'): self.f_guard,
        })
        self.source = self.strip_document(source)
        if self.source.uri is not None:
            self.docs[self.source.uri] = self.source
        self.globals = _Globals(self)

    def recover(self, clause):
        r = self.result.recoveries
        if clause not in r:
            r.append(clause)

    # -- 3.4 -----------------------------------------------------------------
    def strips(self, el):
        """True iff whitespace-only text children of source element el are
        stripped as far as the element NAME is concerned."""
        k = (el.uri, el.local)
        r = self.space_cache.get(k)
        if r is None:
            r = False
            best = None
            for prec, prio, order, test, strip in self.sheet.space_rules:   # ascending
                if test[0] == 'any' or (test[0] == 'ns' and test[1] == el.uri) or \
                        (test[0] == 'name' and test[1] == el.uri and test[2] == el.local):
                    if best is not None and best[0] == prec and best[1] == prio and best[2] != strip:
                        self.recover('3.4-strip-preserve-conflict')
                    best = (prec, prio, strip)
            if best is not None:
                r = best[2]
            self.space_cache[k] = r
        return r

    def strip_document(self, doc):
        if not self.sheet.space_rules:
            return doc
        drop = set()
        # (node, xml:space preserve in effect)
        stack = [(doc.root, False)]
        while stack:
            n, pres = stack.pop()
            if n.kind == 'element':
                for a in n.attributes:
                    if a.local == 'space' and a.uri == XML_NS:
                        if a.value == 'preserve':
                            pres = True
                        elif a.value == 'default':
                            pres = False
                strip_here = (not pres) and self.strips(n)
            else:
                strip_here = False
            for ch in n.children:
                if ch.kind == 'element':
                    stack.append((ch, pres))
                elif strip_here and ch.kind == 'text' and _is_ws(ch.value):
                    drop.add(ch)
        if not drop:
            return doc
        return _clone_document(doc, drop)

    # -- templates -------------------------------------------------------------
    def find_rule(self, node, mode, lo=None, hi=None):
        """5.5 conflict resolution among the rules of `mode` (with import
        precedence in [lo, hi) if given)."""
        rules = self.sheet.rules.get(mode)
        if not rules:
            return None
        best = None
        tie = False
        gv = None
        for r in rules:
            if gv is None:
                gv = self.genv()
            if lo is not None and not (lo <= r.prec < hi):
                continue
            if best is not None and (r.prec, r.priority) < (best.prec, best.priority):
                continue
            if r.kinds is not None and node.kind not in r.kinds:
                continue
            if r.local is not None and node.local != r.local:
                continue
            if not r.pattern.matches(self, node, gv):
                continue
            if best is None:
                best = r
            elif (r.prec, r.priority) > (best.prec, best.priority):
                best = r
                tie = False
            else:
                if r.template is not best.template:
                    tie = True
                if r.order >= best.order:
                    best = r
        if tie:
            # error; recovery: the rule that occurs last in the stylesheet
            self.recover('5.5-template-conflict')
        return best

    def genv(self):
        return _Env(self.globals)

    def apply_to(self, node, pos, size, mode, params, out):
        rule = self.find_rule(node, mode)
        if rule is None:
            self.builtin(node, mode, out)
        else:
            self.run_template(rule.template, rule, node, pos, size, mode, params, out)

    def builtin(self, node, mode, out):
        """5.8 built-in template rules (parameters are not passed on)."""
        k = node.kind
        if k == 'element' or k == 'root':
            ch = node.children
            size = len(ch)
            for i, n in enumerate(ch):
                self.apply_to(n, i + 1, size, mode, None, out)
        elif k == 'text' or k == 'attribute':
            out.text(node.value)

    def run_template(self, t, rule, node, pos, size, mode, params, out):
        env = _Env(self.globals)
        c = _Ctx(node, pos, size, env, rule, mode)
        for p in t.params:
            if params is not None and p.key in params:
                env[p.key] = params[p.key]
            else:
                env[p.key] = p.value.get(self, c)
        t.body.run(self, c, out)

    def apply_attrsets(self, names, c, out):
        """7.1.4"""
        sets = self.sheet.attrsets
        for nm in names:
            defs = sets[nm]
            if len(defs) > 1:
                self.check_attrset_conflict(defs)
            for d in defs:                            # increasing import precedence
                if d.uses:
                    self.apply_attrsets(d.uses, c, out)
                # only top-level variables and parameters are visible
                c2 = _Ctx(c.node, c.pos, c.size, _Env(self.globals), c.rule, c.mode)
                for a in d.attrs:
                    a.run(self, c2, out)

    def check_attrset_conflict(self, defs):
        for i, d in enumerate(defs):
            for e in defs[i + 1:]:
                if d.prec == e.prec and (d.uses or e.uses):
                    # do attributes obtained through use-attribute-sets count as
                    # "contained" in the definition for the 7.1.4 conflict rule,
                    # and in which order are the merged definitions expanded?
                    raise XSLTUnsupported('same-named attribute sets of equal import precedence, '
                                          'one with use-attribute-sets')
        top = {}
        for d in defs:
            for nm in d.const_names:
                e = top.get(nm)
                if e is None or d.prec > e[0]:
                    top[nm] = (d.prec, 1)
                elif d.prec == e[0]:
                    top[nm] = (d.prec, e[1] + 1)
        for nm, (prec, cnt) in top.items():
            if cnt > 1:
                self.recover('7.1.4-attribute-set-conflict')

    def make_rtf(self, body, c, base):
        root = ResultNode('root')
        body.run(self, c, _Builder(root, self))
        doc = _result_to_model(root, base)
        doc.rtf = True
        doc.result_root = root
        return [doc.root]

    # -- functions ---------------------------------------------------------------
    def f_guard(self, ctx, args):
        v = args[0]
        if isinstance(v, list) and _is_rtf_value(v):
            raise XSLTDynamicError('a result tree fragment is used where a node-set is required (11.1)')
        return v

    def f_current(self, ctx, args):
        return [ctx.current]

    def f_nodeset(self, ctx, args):
        v = args[0]
        if not isinstance(v, list):
            raise XSLTUnsupported('exsl:node-set() of a %s' % rx.type_name(v))
        if _is_rtf_value(v):
            doc = v[0].doc
            twin = getattr(doc, 'twin', None)
            if twin is None:
                twin = _result_to_model(doc.result_root, doc.uri)
                twin.from_rtf = True
                doc.twin = twin
            return [twin.root]
        return v

    def f_object_type(self, ctx, args):
        v = args[0]
        if isinstance(v, list) and _is_rtf_value(v):
            return 'RTF'
        return rx.type_name(v)

    def f_generate_id(self, ctx, args):
        if args:
            v = args[0]
            if not isinstance(v, list) or (v and _is_rtf_value(v)):
                raise XSLTDynamicError('generate-id(): argument is not a node-set')
            if not v:
                return ''
            n = v[0]
        else:
            n = ctx.node
        d = self.docseq.get(n.doc)
        if d is None:
            d = self.docseq[n.doc] = len(self.docseq) + 1
        return 'id%dn%d' % (d, n.order)

    def f_unparsed_entity_uri(self, ctx, args):
        name = rx.to_string(args[0])
        doc = ctx.node.doc
        e = doc.unparsed_entities.get(name)
        if e is None:
            return ''
        base, sysid, pubid, notation = e
        return urljoin(doc.uri or '', sysid or '')

    def f_key(self, ctx, args):
        nsm = ctx.namespaces
        q = _split_qname(_strip(rx.to_string(args[0])))
        if q is None:
            raise XSLTDynamicError('key(): %r is not a QName' % rx.to_string(args[0]))
        p, l = q
        if p is None:
            name = ('', l)
        elif p == 'xml':
            name = (XML_NS, l)
        elif p in nsm:
            name = (nsm[p], l)
        else:
            raise XSLTDynamicError('key(): unbound prefix in %r' % rx.to_string(args[0]))
        if name not in self.sheet.keys:
            raise XSLTUnsupported('key(): no xsl:key named {%s}%s (XSLT 1.0 does not say)' % name)
        v = args[1]
        if isinstance(v, list) and not _is_rtf_value(v):
            values = [n.string_value() for n in v]
        else:
            values = [rx.to_string(v)]
        tab = self.key_table(ctx.node.doc, name)
        out = []
        for s in values:
            out.extend(tab.get(s, ()))
        return out

    def key_table(self, doc, name):
        k = (doc.docnum, name)
        tab = self.keytabs.get(k)
        if tab is None:
            if k in self.keytabs:
                raise XSLTStaticError('circular key definition')
            self.keytabs[k] = None
            tab = {}
            gv = self.genv()
            for kd in self.sheet.keys[name]:
                for n in doc.nodes(True, False):
                    if not kd.match.matches(self, n, gv):
                        continue
                    v = kd.use.eval_at(self, n, 1, 1, gv)
                    if isinstance(v, list):
                        vals = [x.string_value() for x in v]
                    else:
                        vals = [rx.to_string(v)]
                    for s in vals:
                        lst = tab.setdefault(s, [])
                        if not any(x is n for x in lst):
                            lst.append(n)
            self.keytabs[k] = tab
        return tab

    def load_document(self, href, base):
        href0 = href
        href, frag = urldefrag(href)
        if frag:
            raise XSLTUnsupported('document(): fragment identifier in %r' % href0)
        absuri = urljoin(base or '', href)
        if absuri in self.docs:
            return self.docs[absuri]
        doc = None
        text = None
        if self.resolver is not None:
            try:
                text = self.resolver(href if href else absuri, base)
            except (XSLTUnsupported, XSLTStaticError, XSLTDynamicError):
                raise
            except Exception:
                text = None
        if text is not None:
            try:
                doc = _model.parse_document(text, absuri)
            except _model.UnsupportedDocument as e:
                raise XSLTUnsupported('document(%r): %s' % (href, e))
            except ValueError:
                doc = None
        if doc is None:
            # 12.1: error retrieving the resource; recovery: empty node-set
            self.recover('12.1-document-unretrievable')
        else:
            doc = self.strip_document(doc)
        self.docs[absuri] = doc
        return doc

    def f_document(self, ctx, args):
        a = args[0]
        base_node = None
        if len(args) > 1:
            b = args[1]
            if not isinstance(b, list) or _is_rtf_value(b):
                raise XSLTDynamicError('document(): the second argument is not a node-set')
            if not b:
                # 12.1: error; recovery: empty node-set
                self.recover('12.1-document-empty-base')
                return []
            base_node = b[0]
        out = []
        if isinstance(a, list) and not _is_rtf_value(a):
            for n in a:
                bn = base_node if base_node is not None else n
                d = self.load_document(n.string_value(), bn.doc.uri)
                if d is not None:
                    out.append(d.root)
        else:
            if base_node is not None:
                base = base_node.doc.uri
            else:
                base = ctx.namespaces.get(_BASE_KEY)
            d = self.load_document(rx.to_string(a), base)
            if d is not None:
                out.append(d.root)
        return out


def transform(stylesheet, source, params=None, resolver=None, messages=None):
    """Apply a compiled stylesheet to a vf.model Document; -> ResultRoot.

    params: {name: str | float | int | bool}, name = local name or '{uri}local'.
    resolver(href, base_uri) -> text | None for document().
    """
    result = ResultRoot()
    if messages is None:
        messages = []
    result.messages = messages
    st = _State(stylesheet, source, params, resolver, messages, result)
    try:
        # global variables: all evaluated, in declaration order (dependencies on demand)
        for g in stylesheet.globals:
            st.globals.force(g.key)
        out = _Builder(result, st)
        st.apply_to(st.source.root, 1, 1, None, None, out)
    except RecursionError:
        raise XSLTUnsupported('recursion too deep for the reference interpreter')
    output = dict(stylesheet.output)
    if '#conflicts' in output:
        st.recover('16-output-conflict')
        del output['#conflicts']
    method = output.get('method')
    if method is None:
        method = 'xml'
        for ch in result.children:
            if ch.kind == 'text' and _is_ws(ch.value):
                continue
            if ch.kind == 'element' and ch.uri == '' and ch.local.lower() == 'html':
                method = 'html'
            if ch.kind in ('element', 'text'):
                break
    output['effective-method'] = method
    result.output = output
    return result
