"""Independent XSLT 1.0 reference interpreter (pure Python, stdlib only).

__HEADER_PLACEHOLDER__
"""
import functools
import re
import unicodedata
from urllib.parse import urljoin, urldefrag

from . import model as _model
from . import ref_xpath as rx

XSL_NS = 'http://www.w3.org/1999/XSL/Transform'
XML_NS = _model.XML_NS
XMLNS_NS = _model.XMLNS_NS
NS_EXSL_COMMON = rx.NS_COMMON
NS_XALAN = rx.NS_XALAN
NS_XALAN_OLD = 'http://xml.apache.org/xslt'

sort_is_codepoint = True        # xsl:sort data-type="text" compares by Unicode code point

_GUARD_PFX = '#g'               # internal prefix (not an NCName: cannot clash)
_GUARD_URI = '#vf-internal'
_BASE_KEY = '#base'             # key in the per-expression namespace map: module base URI


class XSLTStaticError(Exception):
    """The stylesheet is in error per the Recommendation (detected at compile time,
    or a circular definition detected while evaluating)."""


class XSLTDynamicError(Exception):
    """A run-time error the Recommendation defines (incl. xsl:message terminate="yes")."""


class XSLTUnsupported(Exception):
    """Construct outside the supported subset, or a point where the Recommendation
    is ambiguous / implementation-defined: the caller must discard the case."""


# ---------------------------------------------------------------------------
# Result tree
# ---------------------------------------------------------------------------
class ResultNode(object):
    """kind: root | element | attribute | text | comment | pi | namespace

    element:   uri, local, prefix (a hint only), attributes (list of attribute
               ResultNodes, unique by expanded name), namespaces (dict
               prefix -> uri: the namespace nodes the Recommendation's copying
               rules put on this element; '' = default namespace; the xml
               namespace is never listed), children
    attribute: uri, local, prefix (hint), value
    text / comment: value;   pi: local (target), value
    namespace: local (prefix), value (uri)
    """
    __slots__ = ('kind', 'uri', 'local', 'prefix', 'value', 'children',
                 'attributes', 'namespaces', 'parent', 'base')

    def __init__(self, kind, uri='', local='', prefix='', value=None):
        self.kind = kind
        self.uri = uri
        self.local = local
        self.prefix = prefix
        self.value = value
        self.children = []
        self.attributes = []
        self.namespaces = {}
        self.parent = None
        self.base = None

    def attr_map(self):
        return dict(((a.uri, a.local), a.value) for a in self.attributes)

    def string_value(self):
        if self.kind in ('root', 'element'):
            parts = []
            stack = [self]
            while stack:
                n = stack.pop()
                if n.kind == 'text':
                    parts.append(n.value)
                elif n.children:
                    stack.extend(reversed(n.children))
            return ''.join(parts)
        return self.value

    def __repr__(self):
        return '<ResultNode %s {%s}%s>' % (self.kind, self.uri, self.local)


class ResultRoot(ResultNode):
    """Root of the main result tree.  Extra fields:
       output      effective xsl:output settings (see Stylesheet.output) plus
                   'effective-method' (the 16 default rule applied to this tree)
       recoveries  list of clause ids of recoverable errors that were recovered
       messages    the list xsl:message terminate="no" strings were appended to
    """
    __slots__ = ('output', 'recoveries', 'messages')

    def __init__(self):
        ResultNode.__init__(self, 'root')
        self.output = {}
        self.recoveries = []
        self.messages = []


def result_to_events(node):
    """Canonical nested-tuple form of a result (sub)tree:
         ('E', (uri, local), {(uri, local): value}, [children])
         ('T', s) | ('C', s) | ('P', target, data)
       Adjacent text is merged, empty text dropped.  For a root node the list of
       the children's forms is returned."""
    def conv_children(n):
        out = []
        for c in n.children:
            k = c.kind
            if k == 'text':
                if not c.value:
                    continue
                if out and out[-1][0] == 'T':
                    out[-1] = ('T', out[-1][1] + c.value)
                else:
                    out.append(('T', c.value))
            elif k == 'element':
                out.append(('E', (c.uri, c.local), c.attr_map(), conv_children(c)))
            elif k == 'comment':
                out.append(('C', c.value))
            elif k == 'pi':
                out.append(('P', c.local, c.value))
        return out
    if node.kind == 'root':
        return conv_children(node)
    if node.kind == 'element':
        return ('E', (node.uri, node.local), node.attr_map(), conv_children(node))
    if node.kind == 'text':
        return ('T', node.value)
    if node.kind == 'comment':
        return ('C', node.value)
    if node.kind == 'pi':
        return ('P', node.local, node.value)
    raise TypeError('no event form for a %s node' % node.kind)


dump = result_to_events


def model_to_events(node):
    """Same canonical form for a vf.model node (e.g. a parsed serialization)."""
    def conv_children(n):
        out = []
        for c in n.children:
            k = c.kind
            if k == 'text':
                if not c.value:
                    continue
                if out and out[-1][0] == 'T':
                    out[-1] = ('T', out[-1][1] + c.value)
                else:
                    out.append(('T', c.value))
            elif k == 'element':
                out.append(('E', (c.uri, c.local),
                            dict(((a.uri, a.local), a.value) for a in c.attributes),
                            conv_children(c)))
            elif k == 'comment':
                out.append(('C', c.value))
            elif k == 'pi':
                out.append(('P', c.local, c.value))
        return out
    if node.kind == 'root':
        return conv_children(node)
    return conv_children(node.parent)[node.parent.children.index(node)]


class _Builder(object):
    """Appends nodes to a result tree under construction (7.1 - 7.6)."""

    def __init__(self, root, st):
        self.root = root
        self.cur = root
        self.st = st

    # -- elements
    def start_element(self, uri, local, prefix, nsmap):
        e = ResultNode('element', uri, local, prefix)
        if nsmap:
            e.namespaces = dict(nsmap)
        e.parent = self.cur
        self.cur.children.append(e)
        self.cur = e
        return e

    def end_element(self):
        self.cur = self.cur.parent

    def attribute(self, uri, local, prefix, value):
        cur = self.cur
        if cur.kind != 'element':
            # 7.1.3: adding an attribute to a node that is not an element:
            # error; recovery = ignore the attribute
            self.st.recover('7.1.3-attribute-on-non-element')
            return
        if cur.children:
            # 7.1.3: adding an attribute after children: error; recovery = ignore
            self.st.recover('7.1.3-attribute-after-children')
            return
        for a in cur.attributes:
            if a.local == local and a.uri == uri:
                a.value = value
                a.prefix = prefix
                return
        a = ResultNode('attribute', uri, local, prefix, value)
        a.parent = cur
        cur.attributes.append(a)

    def namespace(self, prefix, uri):
        cur = self.cur
        if prefix == 'xml':
            return
        if cur.kind != 'element' or cur.children:
            raise XSLTUnsupported('namespace node copied to a non-element / after children '
                                  '(not defined by XSLT 1.0)')
        old = cur.namespaces.get(prefix)
        if old is not None and old != uri:
            raise XSLTUnsupported('conflicting namespace nodes copied to one element')
        cur.namespaces[prefix] = uri

    # -- leaves
    def text(self, s):
        if not s:
            return
        ch = self.cur.children
        if ch and ch[-1].kind == 'text':
            ch[-1].value += s          # adjacent text nodes are merged (7.2)
            return
        t = ResultNode('text', value=s)
        t.parent = self.cur
        ch.append(t)

    def comment(self, s):
        n = ResultNode('comment', value=s)
        n.parent = self.cur
        self.cur.children.append(n)

    def pi(self, target, data):
        n = ResultNode('pi', local=target, value=data)
        n.parent = self.cur
        self.cur.children.append(n)


class _TextCollector(object):
    """Builder used for the content of xsl:attribute / xsl:comment /
    xsl:processing-instruction: only text nodes count; creating any other node
    is an error whose recovery is to ignore the node (with its content)."""

    def __init__(self, st, clause):
        self.st = st
        self.clause = clause
        self.parts = []
        self.depth = 0

    def start_element(self, uri, local, prefix, nsmap):
        self.st.recover(self.clause)
        self.depth += 1

    def end_element(self):
        self.depth -= 1

    def attribute(self, uri, local, prefix, value):
        self.st.recover(self.clause)

    def namespace(self, prefix, uri):
        self.st.recover(self.clause)

    def text(self, s):
        if self.depth == 0:
            self.parts.append(s)

    def comment(self, s):
        self.st.recover(self.clause)

    def pi(self, target, data):
        self.st.recover(self.clause)

    def value(self):
        return ''.join(self.parts)


# ---------------------------------------------------------------------------
# lexical helpers
# ---------------------------------------------------------------------------
_WS = ' \t\r\n'
_WS_SPLIT = re.compile(r'[ \t\r\n]+')


def _is_ws(s):
    for c in s:
        if c not in _WS:
            return False
    return True


def _tokens(s):
    return [t for t in _WS_SPLIT.split(s) if t]


def _strip(s):
    return s.strip(_WS)


def _split_qname(q):
    """-> (prefix|None, local) or None if q is not a QName."""
    if q.count(':') > 1:
        return None
    if ':' in q:
        p, l = q.split(':')
        if rx.is_ncname(p) and rx.is_ncname(l):
            return p, l
        return None
    if rx.is_ncname(q):
        return None, q
    return None


def _expand_qname(q, nsmap, what, use_default=False):
    """QName in a stylesheet attribute -> (uri, local); static error otherwise."""
    r = _split_qname(_strip(q))
    if r is None:
        raise XSLTStaticError('%s: %r is not a QName' % (what, q))
    p, l = r
    if p is None:
        return (nsmap.get('', '') if use_default else ''), l
    if p == 'xml':
        return XML_NS, l
    if p not in nsmap:
        raise XSLTStaticError('%s: unbound prefix in %r' % (what, q))
    return nsmap[p], l


def _varkey(name):
    uri, local = name
    return local if not uri else '{' + uri + '}' + local


def _parse_avt(s, what):
    """-> list of str (fixed part) | ('expr', text).  7.6.2"""
    parts = []
    buf = []
    i, n = 0, len(s)
    while i < n:
        c = s[i]
        if c == '{':
            if s[i + 1:i + 2] == '{':
                buf.append('{')
                i += 2
                continue
            j = i + 1
            q = None
            while j < n:
                d = s[j]
                if q:
                    if d == q:
                        q = None
                elif d == '"' or d == "'":
                    q = d
                elif d == '}':
                    break
                elif d == '{':
                    raise XSLTStaticError("%s: '{' inside an attribute value template expression" % what)
                j += 1
            if j >= n:
                raise XSLTStaticError("%s: unterminated '{' in attribute value template %r" % (what, s))
            if buf:
                parts.append(''.join(buf))
                buf = []
            parts.append(('expr', s[i + 1:j]))
            i = j + 1
        elif c == '}':
            if s[i + 1:i + 2] == '}':
                buf.append('}')
                i += 2
                continue
            raise XSLTStaticError("%s: unmatched '}' in attribute value template %r" % (what, s))
        else:
            buf.append(c)
            i += 1
    if buf:
        parts.append(''.join(buf))
    return parts


# -- 7.7.1 number to string ---------------------------------------------------
def _is_alnum(c):
    return unicodedata.category(c) in ('Nd', 'Nl', 'No', 'Lu', 'Ll', 'Lt', 'Lm', 'Lo')


def _format_tokens(fmt):
    """-> (prefix, [(separator_before, token)], suffix) ; prefix/suffix may be ''."""
    toks = []
    i, n = 0, len(fmt)
    while i < n:
        a = _is_alnum(fmt[i])
        j = i + 1
        while j < n and _is_alnum(fmt[j]) == a:
            j += 1
        toks.append((a, fmt[i:j]))
        i = j
    return toks


def _alpha(n, base_char):
    out = []
    while n > 0:
        n -= 1
        out.append(chr(ord(base_char) + n % 26))
        n //= 26
    return ''.join(reversed(out))


_ROMAN = ((1000, 'm'), (900, 'cm'), (500, 'd'), (400, 'cd'), (100, 'c'), (90, 'xc'),
          (50, 'l'), (40, 'xl'), (10, 'x'), (9, 'ix'), (5, 'v'), (4, 'iv'), (1, 'i'))


def _roman(n):
    if n > 3999:
        raise XSLTUnsupported('roman numeral above 3999')
    out = []
    for v, s in _ROMAN:
        while n >= v:
            out.append(s)
            n -= v
    return ''.join(out)


def _format_one(n, token, gsep, gsize):
    if token == 'A':
        return _alpha(n, 'A')
    if token == 'a':
        return _alpha(n, 'a')
    if token == 'i':
        return _roman(n)
    if token == 'I':
        return _roman(n).upper()
    if token[-1] == '1' and token[:-1] == '0' * (len(token) - 1):
        s = str(n)
        if len(s) < len(token):
            s = '0' * (len(token) - len(s)) + s
        if gsep is not None:
            if len(token) > 1 and len(str(n)) < len(token):
                raise XSLTUnsupported('xsl:number: grouping combined with zero padding')
            groups = []
            while len(s) > gsize:
                groups.append(s[-gsize:])
                s = s[:-gsize]
            groups.append(s)
            s = gsep.join(reversed(groups))
        return s
    raise XSLTUnsupported('xsl:number format token %r (implementation-defined sequence)' % token)


def format_number_list(nums, fmt, gsep=None, gsize=None):
    """7.7.1: list of positive integers -> string."""
    toks = _format_tokens(fmt)
    prefix = suffix = ''
    if toks and not any(a for a, _ in toks):
        # a single non-alphanumeric token is "first" and "last" at once:
        # one copy or two?  The Rec does not say.
        raise XSLTUnsupported('xsl:number format without a format token but with punctuation')
    if toks and not toks[0][0]:
        prefix = toks[0][1]
        toks = toks[1:]
    if toks and not toks[-1][0]:
        suffix = toks[-1][1]
        toks = toks[:-1]
    ftoks = []          # (separator before, token)
    sep = None
    for a, t in toks:
        if a:
            ftoks.append((sep, t))
            sep = None
        else:
            sep = t
    if not ftoks:
        ftoks = [(None, '1')]
    if not nums:
        if prefix or suffix:
            raise XSLTUnsupported('xsl:number: empty list with prefix/suffix punctuation')
        return ''
    out = [prefix]
    for i, n in enumerate(nums):
        if n < 1:
            raise XSLTUnsupported('xsl:number: number below 1')
        if i < len(ftoks):
            s, t = ftoks[i]
        else:
            s, t = ftoks[-1]
        if i > 0:
            out.append(s if s is not None else '.')
        out.append(_format_one(n, t, gsep, gsize))
    out.append(suffix)
    return ''.join(out)
