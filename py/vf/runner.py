"""Generic check runner: worker pool, Hypothesis search, verdict protocol (DESIGN 2.4, 2.7, 2.9).

A property module (vf.props.cNN) provides:
  ID, LEVEL ('exploration'|'fault_enumeration'), RULE (text), ASSUMPTIONS (list)
  budget(tier) -> dict(workers=.., examples=.., wall=..)         per worker example count
  strategy(ctx) -> hypothesis strategy producing a JSON-able case
  check(ctx, case) -> None if the property held, else a JSON-able 'detail' dict.  May call
                      ctx.note(...) to classify the case.  DriverCrash may propagate.
  signature(case, detail) -> string identifying *what* failed (matched against known_findings)
optional:
  FLAVOR (default 'asan'), extra_search(ctx) for non-Hypothesis engines, presearch(args)
"""
import hashlib, importlib, json, multiprocessing, os, random, sys, time, traceback
from collections import Counter

import hypothesis
from hypothesis import HealthCheck, Phase, Verbosity, given, settings

from . import drv as drvmod
from .drv import Driver, DriverCrash, crash_signature, VERIF
from . import findings as findmod


class Violation(Exception):
    pass


def canon(case):
    return json.dumps(case, sort_keys=True, ensure_ascii=True, default=_default)


def _default(o):
    if isinstance(o, bytes):
        return {'__bytes__': o.hex()}
    if isinstance(o, (set, frozenset)):
        return sorted(o)
    if hasattr(o, 'to_json'):
        return o.to_json()
    raise TypeError(repr(o))


def unjson(o):
    if isinstance(o, dict):
        if set(o.keys()) == {'__bytes__'}:
            return bytes.fromhex(o['__bytes__'])
        return {k: unjson(v) for k, v in o.items()}
    if isinstance(o, list):
        return [unjson(v) for v in o]
    return o


def h64(text):
    return int.from_bytes(hashlib.sha1(text.encode('utf-8', 'surrogatepass')).digest()[:8], 'big')


class Ctx(object):
    def __init__(self, prop, tier, seed, widx, flavor='asan'):
        self.prop = prop
        self.tier = tier
        self.seed = seed
        self.widx = widx
        self.flavor = flavor
        self._drv = None
        self.evals = 0
        self.nontrivial = set()
        self.counters = Counter()
        self.samples = []
        self.rare_samples = {}
        self.known_seen = Counter()
        self.excluded = Counter()
        self.disputes = []
        self.inconclusive = 0
        self.deadline = None
        self.findings = findmod.load()
        self.crashes = 0

    @property
    def drv(self):
        if self._drv is None:
            self._drv = Driver(self.flavor)
        return self._drv

    def drv_flavor(self, flavor):
        """additional driver of another build flavor (e.g. 'ndebug' for assert triage / fall-back)"""
        if not hasattr(self, '_extra'):
            self._extra = {}
        if flavor not in self._extra:
            self._extra[flavor] = Driver(flavor)
        return self._extra[flavor]

    def close(self):
        if self._drv is not None:
            self._drv.close()
            self._drv = None
        for d in getattr(self, '_extra', {}).values():
            d.close()
        self._extra = {}

    def note(self, case, nontrivial, classes=(), sample_text=None):
        """classify one executed case"""
        for c in classes:
            self.counters[c] += 1
        if nontrivial:
            self.nontrivial.add(h64(case if isinstance(case, str) else canon(case)))
            self.counters['nontrivial'] += 1
            if len(self.samples) < 4 or (self.counters['nontrivial'] in (50, 500, 5000)):
                if len(self.samples) < 8:
                    self.samples.append(sample_text if sample_text is not None else case)
        for c in classes:
            if c not in self.rare_samples and len(self.rare_samples) < 12:
                self.rare_samples[c] = sample_text if sample_text is not None else case

    def result(self):
        return dict(evals=self.evals, nontrivial=list(self.nontrivial), counters=dict(self.counters),
                    samples=self.samples, rare=self.rare_samples, known_seen=dict(self.known_seen),
                    excluded=dict(self.excluded), disputes=self.disputes[:10], ndisputes=len(self.disputes),
                    inconclusive=self.inconclusive, crashes=self.crashes)


def evaluate(ctx, case):
    """run prop.check, mapping a driver crash to a detail dict"""
    try:
        return ctx.prop.check(ctx, case)
    except DriverCrash as e:
        ctx.crashes += 1
        return {'crash': crash_signature(e.stderr), 'stderr': e.stderr[-4000:]}


try:
    # shrinking a failure whose every attempt restarts a crashed driver is slow: bound it (Hypothesis' default is 300 s); the structural
    # reducers of the properties and the saved replay file do not depend on a fully shrunk case
    import hypothesis.internal.conjecture.engine as _hce
    _hce.MAX_SHRINKING_SECONDS = float(os.environ.get('VERIF_MAX_SHRINK_S', '45'))
except Exception:
    pass


def hyp_search(ctx, strategy, examples, check=None):
    """returns None or (case, detail, signature) of the shrunk failure"""
    state = {'last': None}
    check = check or (lambda c, case: evaluate(c, case))

    @hypothesis.seed(ctx.seed * 1000003 + ctx.widx * 7919 + 17)
    @settings(max_examples=examples, database=None, deadline=None, derandomize=False,
              report_multiple_bugs=False, suppress_health_check=list(HealthCheck),
              phases=[Phase.generate, Phase.shrink], verbosity=Verbosity.quiet)
    @given(strategy)
    def test(case):
        if ctx.deadline is not None and time.time() > ctx.deadline and state['last'] is None:
            ctx.inconclusive += 1
            return
        ctx.evals += 1
        detail = check(ctx, case)
        if detail is None:
            return
        sig = ctx.prop.signature(case, detail)
        kf = ctx.findings.match(ctx.prop.ID, sig)
        if kf is not None:
            ctx.known_seen[kf['id']] += 1
            return
        state['last'] = (case, detail, sig)
        raise Violation()

    try:
        test()
    except Violation:
        return state['last']
    except hypothesis.errors.Flaky:
        ctx.counters['hypothesis_flaky'] += 1
        return state['last']
    return None


def worker_main(args):
    modname, tier, seed, widx, examples, wall = args
    prop = importlib.import_module(modname)
    ctx = Ctx(prop, tier, seed, widx, getattr(prop, 'FLAVOR', 'asan'))
    ctx.deadline = time.time() + wall if wall else None
    failure = None
    err = None
    try:
        if hasattr(prop, 'worker'):
            failure = prop.worker(ctx, examples)
        else:
            # a shrunk failure that turns out to be a KNOWN finding must not end the search: restart with a new
            # derived seed for the remaining budget (at most 6 times)
            for attempt in range(6):
                before = ctx.evals
                failure = hyp_search(ctx, prop.strategy(ctx), max(50, examples - ctx.evals) if attempt else examples)
                if failure is None:
                    break
                if hasattr(prop, 'reduce'):
                    failure = prop.reduce(ctx, failure)
                kf = ctx.findings.match(prop.ID, failure[2])
                if kf is None:
                    break
                ctx.known_seen[kf['id']] += 1
                failure = None
                ctx.widx += 1000
                if ctx.evals >= examples or (ctx.deadline and time.time() > ctx.deadline):
                    break
    except Exception:
        err = traceback.format_exc()
    finally:
        ctx.close()
    r = ctx.result()
    r['failure'] = None if failure is None else dict(case=json.loads(canon(failure[0])), detail=failure[1], signature=failure[2])
    r['error'] = err
    return r


def confirm(prop, case, times=3, stop_after=None):
    """re-run the case in fresh driver processes; returns list of details (None = passed).  stop_after: stop as soon as that many
    re-runs have failed"""
    out = []
    for i in range(times):
        ctx = Ctx(prop, 'replay', 0, 900 + i, getattr(prop, 'FLAVOR', 'asan'))
        try:
            out.append(evaluate(ctx, case))
        finally:
            ctx.close()
        if stop_after and sum(1 for d in out if d is not None) >= stop_after:
            break
    return out


def confirm_policy(prop):
    """(times, need): a failure found by the search is a violation when `need` of up to `times` re-runs in fresh processes fail again.
    Default 3 of 3 (the checks are deterministic).  A property whose failures depend on the thread schedule (C07) declares
    CONFIRM = (times, need): its oracle is deterministic (output of a thread vs. the sequential output), the occurrence is not."""
    return getattr(prop, 'CONFIRM', (3, 3))


def replay_file(prop, path, cap=None):
    with open(path) as f:
        rec = json.load(f)
    case = unjson(rec['case'])
    times, need = confirm_policy(prop)
    if need < times:
        times = min(times, cap) if cap else times
        # schedule-dependent failure: the saved input is re-run until it fails (at most `times` times)
        ds = confirm(prop, case, times, stop_after=1)
        bad = [d for d in ds if d is not None]
        return rec, case, (bad[0] if bad else None)
    ds = confirm(prop, case, 1)
    return rec, case, ds[0]


def run_regress(prop, kf, out):
    """replay tier: regress/<ID>/*.json.  Returns (violations, lines)"""
    d = os.path.join(VERIF, 'regress', prop.ID)
    viol = []
    n = 0
    if not os.path.isdir(d):
        return viol, n
    for name in sorted(os.listdir(d)):
        if not name.endswith('.json'):
            continue
        path = os.path.join(d, name)
        rec, case, detail = replay_file(prop, path, cap=12)
        n += 1
        expect = rec.get('expect', 'pass')
        if detail is None:
            continue
        sig = prop.signature(case, detail)
        m = kf.match(prop.ID, sig)
        if m is not None:
            out['known'][m['id']] = m
            continue
        viol.append(dict(case=rec['case'], detail=detail, signature=sig, source=path))
    return viol, n


def main(modname, tier, seed=None):
    t0 = time.time()
    prop = importlib.import_module(modname)
    if seed is None:
        seed = int(os.environ.get('VERIF_SEED', '1'))
    kf = findmod.load()
    b = dict(prop.budget(tier))
    scale = float(os.environ.get('VERIF_BUDGET_SCALE', '1'))     # for rehearsals of the thorough tier only: scales examples and wall
    if scale != 1:
        b['examples'] = max(1, int(b['examples'] * scale))
        if b.get('wall'):
            b['wall'] = max(10, int(b['wall'] * scale))
    W = int(os.environ.get('VERIF_WORKERS', b.get('workers', 14)))
    state = dict(known={})
    if os.environ.get('VERIF_SKIP_REGRESS') == '1':
        # for sensitivity experiments only (is the GENERATOR able to find a seeded change without the saved regression input?)
        violations, nreg = [], 0
    else:
        violations, nreg = run_regress(prop, kf, state)
    results = []
    if not violations:
        jobs = [(modname, tier, seed, w, b['examples'], b.get('wall')) for w in range(W)]
        ctxm = multiprocessing.get_context('fork')
        with ctxm.Pool(W) as pool:
            results = pool.map(worker_main, jobs, chunksize=1)
    # merge
    evals = sum(r['evals'] for r in results)
    nontriv = set()
    counters = Counter()
    known_seen = Counter()
    excluded = Counter()
    samples = []
    rare = {}
    disputes = []
    ndisp = 0
    inconclusive = 0
    errors = []
    flaky = []
    for r in results:
        nontriv.update(r['nontrivial'])
        counters.update(r['counters'])
        known_seen.update(r['known_seen'])
        excluded.update(r['excluded'])
        for s in r['samples']:
            if len(samples) < 8:
                samples.append(s)
        for k, v in r['rare'].items():
            rare.setdefault(k, v)
        disputes += r['disputes']
        ndisp += r['ndisputes']
        inconclusive += r['inconclusive']
        if r['error']:
            errors.append(r['error'])
        if r['failure']:
            f = r['failure']
            case = unjson(f['case'])
            times, need = confirm_policy(prop)
            ds = confirm(prop, case, times, stop_after=need)
            nfail = sum(1 for d in ds if d is not None)
            if nfail >= need:
                d = [x for x in ds if x is not None][0]
                sig = prop.signature(case, d)
                m = kf.match(prop.ID, sig)
                if m is not None:
                    known_seen[m['id']] += 1
                else:
                    violations.append(dict(case=f['case'], detail=d, signature=sig, source='search'))
            else:
                flaky.append(dict(case=f['case'], detail=f['detail'], refails=nfail))
    for k in known_seen:
        m = kf.by_id(k)
        if m:
            state['known'][k] = m
    for k, m in sorted(state['known'].items()):
        print('KNOWN-FINDING: property=%s %s' % (m.get('property', prop.ID), m['what']))
    # distinct violations by signature
    seen = set()
    vout = []
    for v in violations:
        if v['signature'] in seen:
            continue
        seen.add(v['signature'])
        vout.append(v)
    rdir = os.path.join(VERIF, 'replays', prop.ID)
    for v in vout:
        os.makedirs(rdir, exist_ok=True)
        hh = hashlib.sha1(canon(v['case']).encode()).hexdigest()[:12]
        path = os.path.join(rdir, hh + '.json')
        with open(path, 'w') as f:
            json.dump(dict(property=prop.ID, case=v['case'], detail=v['detail'], signature=v['signature'],
                           seed=seed, tier=tier, expect='pass'), f, indent=1, default=_default)
        print('VIOLATION property=%s replay=%s' % (prop.ID, path))
        print('  signature: %s' % v['signature'])
    if errors:
        sys.stderr.write('worker errors:\n' + '\n'.join(errors[:3]) + '\n')
    if flaky:
        sys.stderr.write('flaky (not reported as violation): %s\n' % json.dumps(flaky[:2], default=_default)[:2000])
    sample_list = samples[:6] + [dict(cls=k, case=v) for k, v in list(rare.items())[:6]]
    if not sample_list:
        sample_list = ['<none>']
    ev = dict(
        property_id=prop.ID, tier=tier if tier in ('quick', 'thorough') else 'quick', seed=seed, level=prop.LEVEL,
        coverage=dict(
            evaluations=evals + nreg,
            distinct_nontrivial=len(nontriv),
            rule=prop.RULE,
            samples=json.loads(json.dumps(sample_list, default=_default)),
            classes=dict(counters),
            regress_cases_replayed=nreg,
            known_findings_seen=dict(known_seen),
            excluded_by_flag=dict(excluded),
            oracle_disputes=ndisp,
            oracle_dispute_samples=disputes[:5],
            inconclusive=inconclusive,
            flaky=len(flaky),
            worker_errors=len(errors),
            workers=W,
        ),
        assumptions=list(getattr(prop, 'ASSUMPTIONS', [])),
        wall_s=round(time.time() - t0, 2),
        violations=len(vout),
    )
    if hasattr(prop, 'evidence_extra'):
        ev['coverage'].update(prop.evidence_extra(results))
    write_evidence(ev)
    if errors and not vout:
        # an infrastructure problem is not a verdict; make it visible but do not claim a violation
        sys.stderr.write('INFRA: %d worker errors\n' % len(errors))
        return 2
    return 1 if vout else 0


def write_evidence(ev):
    import jsonschema
    with open('/root/.vp/EVIDENCE.schema.json') as f:
        schema = json.load(f)
    try:
        jsonschema.validate(ev, schema)
    except Exception as e:
        sys.stderr.write('evidence does not validate: %s\n' % str(e)[:500])
    # VERIF_EVIDENCE_DIR: sensitivity probes against a scratch tree must not overwrite the evidence of /repo
    edir = os.environ.get('VERIF_EVIDENCE_DIR', os.path.join(VERIF, 'evidence'))
    os.makedirs(edir, exist_ok=True)
    with open(os.path.join(edir, ev['property_id'] + '.json'), 'w') as f:
        json.dump(ev, f, indent=1, default=_default)


def replay_main(modname, path):
    prop = importlib.import_module(modname)
    kf = findmod.load()
    rec, case, detail = replay_file(prop, path)
    if detail is None:
        print('PASS replay %s' % path)
        return 0
    sig = prop.signature(case, detail)
    m = kf.match(prop.ID, sig)
    if m is not None:
        print('KNOWN-FINDING: property=%s %s' % (prop.ID, m['what']))
        return 0
    print('VIOLATION property=%s replay=%s' % (prop.ID, path))
    print('  signature: %s' % sig)
    print('  detail: %s' % json.dumps(detail, default=_default)[:3000])
    return 1


if __name__ == '__main__':
    mod = sys.argv[1]
    if sys.argv[2] == '--replay':
        sys.exit(replay_main(mod, sys.argv[3]))
    sys.exit(main(mod, sys.argv[2]))
